"""Index-generic tensors: (shape, closure index-tuple -> scalar).  Shapes may have symbolic extents.
The same class runs with Python floats as elements in the concrete (cross-check) mode."""
from __future__ import annotations
import itertools
import z3
from . import sym as S
from .sym import Sym, Unsupported, ctx, unwrap, is_sym
from .sigma import sigma, exists_forall

_alloc = itertools.count(1)


def dim_eq(a, b):
    a, b = unwrap(a), unwrap(b)
    if isinstance(a, int) and isinstance(b, int):
        return a == b
    za, zb = S.z(a), S.z(b)
    if za.eq(zb):
        return True
    c = ctx()
    s = z3.Solver()
    s.set("timeout", 2000)
    for h in c.hypotheses():
        s.add(h)
    s.add(za != zb)
    return s.check() == z3.unsat


def dim_is(a, v):
    a = unwrap(a)
    return isinstance(a, int) and a == v


def idx_key(idx):
    out = []
    for i in idx:
        i = unwrap(i)
        out.append(i if isinstance(i, int) else ("z", S.eid(i)))
    return tuple(out)


class _Frozen:
    """immutable snapshot of a tensor's contents (numpy evaluates eagerly; our closures are lazy, so every
    derived tensor reads its operands through a snapshot taken when the operation was executed)"""

    __slots__ = ("shape", "_fn", "_cache", "dtype")

    def __init__(self, shape, fn, cache, dtype):
        self.shape, self._fn, self._cache, self.dtype = shape, fn, cache, dtype

    @property
    def ndim(self):
        return len(self.shape)

    def at(self, *idx):
        if len(idx) != len(self.shape):
            raise Unsupported(f"index arity {len(idx)} for shape {self.shape}")
        key = idx_key(idx)
        if key in self._cache:
            return self._cache[key]
        v = self._fn(*idx)
        self._cache[key] = v
        return v

    def frozen(self):
        return self


class Tensor:
    __array_priority__ = 2000

    def __init__(self, shape, fn, origin=None, dtype="real", base=None):
        self.shape = tuple(unwrap(s) if isinstance(unwrap(s), int) else s for s in shape)
        self._fn = fn
        self.origin = origin
        self.dtype = dtype
        self.alloc = next(_alloc)
        self._cache = {}
        self.base = base  # view of another tensor (in-place writes through views are not supported)
        self.tainted = False
        self._views = []
        if base is not None and isinstance(base, Tensor):
            base._views.append(self)

    # ---- element access -------------------------------------------------------------------
    def at(self, *idx):
        if len(idx) != len(self.shape):
            raise Unsupported(f"index arity {len(idx)} for shape {self.shape}")
        if self.tainted:
            raise Unsupported("read of an array that was modified through a view")
        key = idx_key(idx)
        if key in self._cache:
            return self._cache[key]
        v = self._fn(*idx)
        self._cache[key] = v
        return v

    def frozen(self):
        if self.tainted:
            raise Unsupported("read of an array that was modified through a view")
        return _Frozen(self.shape, self._fn, self._cache, self.dtype)

    def set_fn(self, fn, what="write"):
        if self.base is not None:
            # writing through a view changes the base array too; we do not model that, so the base (and its
            # bases) become unreadable: any later read of them is outside the subset
            b = self.base
            while b is not None:
                b.tainted = True
                b = getattr(b, "base", None)
        # ... and the other direction: a view taken EARLIER (numpy: squeeze, transpose, basic slices) sees a later write to
        # its base, while the modelled view is a snapshot: every live view (and its views) becomes unreadable too
        todo = list(self._views)
        while todo:
            v = todo.pop()
            if not v.tainted:
                v.tainted = True
                todo.extend(v._views)
        self._views = []
        self._fn = fn
        self._cache = {}
        c = ctx()
        if c is not None:
            c.writes.append((self, what))

    @property
    def ndim(self):
        return len(self.shape)

    @property
    def size(self):
        r = 1
        for s in self.shape:
            r = S.mul(r, s)
        return r

    def __len__(self):
        n = unwrap(self.shape[0])
        if isinstance(n, int):
            return n
        raise Unsupported("len() of symbolic-length array used as Python int")

    def length(self):
        if not self.shape:
            raise Unsupported("len() of 0-d array")
        return self.shape[0]

    @property
    def T(self):
        if self.ndim < 2:
            return self
        if self.ndim == 2:
            fz = self.frozen()
            return Tensor((self.shape[1], self.shape[0]), lambda i, j: fz.at(j, i), dtype=self.dtype, base=self)
        raise Unsupported(".T of >2-d")

    def item(self):
        if self.ndim == 0:
            return self.at()
        raise Unsupported("item() of non-scalar")

    # ---- construction helpers -----------------------------------------------------------
    @staticmethod
    def full(shape, v, dtype="real"):
        return Tensor(shape, lambda *idx: v, dtype=dtype)

    def copy(self):
        fz = self.frozen()
        return Tensor(self.shape, fz.at, dtype=self.dtype)

    def astype(self, t):
        return self.copy()

    def map(self, f, dtype=None):
        fz = self.frozen()
        return Tensor(self.shape, lambda *idx: f(fz.at(*idx)), dtype=dtype or self.dtype)

    # ---- broadcasting ----------------------------------------------------------------------
    @staticmethod
    def lift(x):
        if isinstance(x, Tensor):
            return x
        if isinstance(x, (list, tuple)):
            return from_nested(x)
        return None

    @staticmethod
    def broadcast(a, b, f, dtype="real"):
        ta, tb = Tensor.lift(a), Tensor.lift(b)
        if ta is None and tb is None:
            return f(a, b)
        ta = ta.frozen() if ta is not None else None
        tb = tb.frozen() if tb is not None else None
        if ta is None:
            return Tensor(tb.shape, lambda *idx: f(a, tb.at(*idx)), dtype=dtype)
        if tb is None:
            return Tensor(ta.shape, lambda *idx: f(ta.at(*idx), b), dtype=dtype)
        na, nb = ta.ndim, tb.ndim
        n = max(na, nb)
        sa = (1,) * (n - na) + ta.shape
        sb = (1,) * (n - nb) + tb.shape
        shape = []
        ma, mb = [], []  # per output dim: does operand use the index (True) or 0 (False: broadcast)
        for da, db in zip(sa, sb):
            if dim_is(da, 1) and not dim_is(db, 1):
                shape.append(db)
                ma.append(False)
                mb.append(True)
            elif dim_is(db, 1) and not dim_is(da, 1):
                shape.append(da)
                ma.append(True)
                mb.append(False)
            else:
                if not dim_eq(da, db):
                    raise Unsupported(f"cannot prove broadcast dims equal: {da} vs {db}")
                shape.append(da)
                ma.append(True)
                mb.append(True)

        def fn(*idx):
            ia = tuple((i if m else 0) for i, m in zip(idx, ma))[n - na:]
            ib = tuple((i if m else 0) for i, m in zip(idx, mb))[n - nb:]
            return f(ta.at(*ia), tb.at(*ib))

        return Tensor(shape, fn, dtype=dtype)

    # ---- operators ---------------------------------------------------------------------------
    def __add__(self, o):
        return Tensor.broadcast(self, o, S.add)

    def __radd__(self, o):
        return Tensor.broadcast(o, self, S.add)

    def __sub__(self, o):
        return Tensor.broadcast(self, o, S.sub)

    def __rsub__(self, o):
        return Tensor.broadcast(o, self, S.sub)

    def __mul__(self, o):
        return Tensor.broadcast(self, o, S.mul)

    def __rmul__(self, o):
        return Tensor.broadcast(o, self, S.mul)

    def __truediv__(self, o):
        return Tensor.broadcast(self, o, S.div)

    def __rtruediv__(self, o):
        return Tensor.broadcast(o, self, S.div)

    def __floordiv__(self, o):
        return Tensor.broadcast(self, o, S.floordiv)

    def __mod__(self, o):
        return Tensor.broadcast(self, o, S.mod)

    def __pow__(self, o):
        return Tensor.broadcast(self, o, S.power)

    def __rpow__(self, o):
        return Tensor.broadcast(o, self, S.power)

    def __neg__(self):
        return self.map(S.neg)

    def __pos__(self):
        return self

    def __abs__(self):
        return self.map(S.absval)

    def __lt__(self, o):
        return Tensor.broadcast(self, o, lambda a, b: S.cmp("<", a, b), "bool")

    def __le__(self, o):
        return Tensor.broadcast(self, o, lambda a, b: S.cmp("<=", a, b), "bool")

    def __gt__(self, o):
        return Tensor.broadcast(self, o, lambda a, b: S.cmp(">", a, b), "bool")

    def __ge__(self, o):
        return Tensor.broadcast(self, o, lambda a, b: S.cmp(">=", a, b), "bool")

    def __eq__(self, o):
        return Tensor.broadcast(self, o, lambda a, b: S.cmp("==", a, b), "bool")

    def __ne__(self, o):
        return Tensor.broadcast(self, o, lambda a, b: S.cmp("!=", a, b), "bool")

    __hash__ = object.__hash__

    def __and__(self, o):
        return Tensor.broadcast(self, o, S.land, "bool")

    def __rand__(self, o):
        return Tensor.broadcast(o, self, S.land, "bool")

    def __or__(self, o):
        return Tensor.broadcast(self, o, S.lor, "bool")

    def __invert__(self):
        return self.map(S.lnot, "bool")

    def __bool__(self):
        if self.ndim == 0:
            return bool(self.at())
        if all(dim_is(s, 1) for s in self.shape):
            return bool(self.at(*([0] * self.ndim)))
        raise Unsupported("truth value of an array")

    # in-place operators mutate this allocation
    def _inplace(self, o, f, what):
        new = Tensor.broadcast(self.copy(), o, f)
        if new.ndim != self.ndim:
            raise Unsupported("in-place op changes rank")
        self.set_fn(new._fn, what)
        return self

    def __iadd__(self, o):
        return self._inplace(o, S.add, "+=")

    def __isub__(self, o):
        return self._inplace(o, S.sub, "-=")

    def __imul__(self, o):
        return self._inplace(o, S.mul, "*=")

    def __itruediv__(self, o):
        return self._inplace(o, S.div, "/=")

    def __matmul__(self, o):
        return matmul(self, o)

    def __rmatmul__(self, o):
        return matmul(o, self)

    # ---- reductions --------------------------------------------------------------------------
    def sum(self, axis=None):
        return reduce_sum(self, axis)

    def prod(self, axis=None):
        """product over an axis of CONCRETE extent (a symbolic-length product is outside the modelled subset)"""
        if axis is None:
            if self.ndim != 1:
                raise Unsupported("prod() of a multi-dimensional array without axis")
            axis = 0
        if axis < 0:
            axis += self.ndim
        n = unwrap(self.shape[axis])
        if not isinstance(n, int):
            raise Unsupported("prod over an axis of symbolic extent")
        fz = self.frozen()
        shape = self.shape[:axis] + self.shape[axis + 1:]

        def fn(*idx):
            r = 1
            for k in range(n):
                r = S.mul(r, fz.at(*(idx[:axis] + (k,) + idx[axis:])))
            return r
        if not shape:
            return fn()
        return Tensor(shape, fn)

    def any(self):
        return self._quant("any")

    def all(self):
        return self._quant("all")

    def _quant(self, kind):
        if self.ndim == 0:
            return self.at()
        fz = self.frozen()
        if self.ndim == 1:
            return exists_forall(self.shape[0], lambda i: fz.at(i), kind)
        if self.ndim == 2:
            return exists_forall(
                self.shape[0], lambda i: exists_forall(self.shape[1], lambda j: fz.at(i, j), kind), kind
            )
        raise Unsupported("any/all of >2-d")

    # ---- shape manipulation ------------------------------------------------------------------
    def squeeze(self, axis=None):
        keep = []
        for k, s in enumerate(self.shape):
            if dim_is(s, 1):
                continue
            if not isinstance(unwrap(s), int):
                # a symbolic extent may be 1 (numpy would drop the axis): case split
                if bool(S.cmp("==", s, 1)):
                    continue
            keep.append(k)
        if len(keep) == self.ndim:
            return self
        shape = [self.shape[k] for k in keep]
        fz = self.frozen()
        nd = self.ndim

        def fn(*idx):
            full = [0] * nd
            for k, i in zip(keep, idx):
                full[k] = i
            return fz.at(*full)

        return Tensor(shape, fn, dtype=self.dtype, base=self)

    def reshape(self, *shape):
        if len(shape) == 1 and isinstance(shape[0], (list, tuple)):
            shape = tuple(shape[0])
        return reshape(self, shape)

    def resize(self, *shape):
        if len(shape) == 1 and isinstance(shape[0], (list, tuple)):
            shape = tuple(shape[0])
        new = reshape(self.copy(), shape)
        self.shape = tuple(new.shape)
        self.set_fn(new._fn, "resize")
        return None

    def flatten(self):
        return reshape(self, (self.size,)).copy()

    def sort(self, axis=-1):
        from .npmodel import sort_inplace
        return sort_inplace(self, axis)

    def argmin(self, axis=None):
        from .npmodel import argextreme
        return argextreme(self, axis, "min")

    def argmax(self, axis=None):
        from .npmodel import argextreme
        return argextreme(self, axis, "max")

    def argsort(self):
        from .npmodel import argsort
        return argsort(self)

    def max(self, axis=None):
        from .npmodel import extreme
        return extreme(self, axis, "max")

    def min(self, axis=None):
        from .npmodel import extreme
        return extreme(self, axis, "min")

    def mean(self, axis=None):
        if axis is None:
            return S.div(self.sum(), self.size)
        return self.sum(axis=axis) / self.shape[axis]

    def clip(self, min=None, max=None):
        r = self
        if min is not None:
            r = Tensor.broadcast(r, min, S.smax)
        if max is not None:
            r = Tensor.broadcast(r, max, S.smin)
        return r

    def dot(self, o):
        return matmul(self, o)

    def tolist(self):
        return to_list(self)

    # ---- indexing ----------------------------------------------------------------------------
    def __getitem__(self, key):
        return getitem(self, key)

    def __setitem__(self, key, val):
        setitem(self, key, val)

    def __iter__(self):
        n = unwrap(self.shape[0])
        if not isinstance(n, int):
            raise Unsupported("iteration over symbolic-length array")
        for i in range(n):
            yield self[i]

    def __repr__(self):
        return f"Tensor(shape={self.shape})"


def _provably_not_one(s):
    c = ctx()
    sol = z3.Solver()
    sol.set("timeout", 2000)
    for h in c.hypotheses():
        sol.add(h)
    sol.add(S.z(s) == 1)
    return sol.check() == z3.unsat


def from_nested(x):
    """nested Python lists/tuples of scalars (or tensors) -> Tensor"""
    if isinstance(x, Tensor):
        return x
    if isinstance(x, (list, tuple)):
        if len(x) == 0:
            return Tensor((0,), lambda i: 0)
        elems = [from_nested(e) if isinstance(e, (list, tuple, Tensor)) else e for e in x]
        if isinstance(elems[0], Tensor):
            sub = elems[0].shape
            for e in elems:
                if not isinstance(e, Tensor) or len(e.shape) != len(sub):
                    raise Unsupported("ragged nested list")
            elems = [e.frozen() for e in elems]

            def fn(i, *rest):
                i = unwrap(i)
                if isinstance(i, int):
                    return elems[i].at(*rest)
                r = elems[-1].at(*rest)
                for k in range(len(elems) - 2, -1, -1):
                    r = S.ite(Sym(i == k), elems[k].at(*rest), r)
                return r

            return Tensor((len(elems),) + tuple(sub), fn)

        def fn1(i):
            i = unwrap(i)
            if isinstance(i, int):
                return elems[i]
            r = elems[-1]
            for k in range(len(elems) - 2, -1, -1):
                r = S.ite(Sym(i == k), elems[k], r)
            return r

        return Tensor((len(elems),), fn1)
    return Tensor((), lambda: x)


def to_list(t):
    n = unwrap(t.shape[0])
    if not isinstance(n, int):
        raise Unsupported("tolist of symbolic-length array")
    return [t[i] if t.ndim > 1 else t.at(i) for i in range(n)]


def reduce_sum(t, axis=None):
    if t.ndim == 0:
        return t.at()
    t = t.frozen()
    if axis is None:
        if t.ndim == 1:
            return sigma(t.shape[0], lambda i: t.at(i))
        if t.ndim == 2:
            return sigma(t.shape[0], lambda i: sigma(t.shape[1], lambda j: t.at(i, j)))
        if t.ndim == 3:
            return sigma(
                t.shape[0], lambda i: sigma(t.shape[1], lambda j: sigma(t.shape[2], lambda k: t.at(i, j, k)))
            )
        raise Unsupported("sum over >3-d")
    if axis < 0:
        axis += t.ndim
    shape = t.shape[:axis] + t.shape[axis + 1:]

    def fn(*idx):
        return sigma(t.shape[axis], lambda k: t.at(*(idx[:axis] + (k,) + idx[axis:])))

    return Tensor(shape, fn)


def matmul(a, b):
    if hasattr(a, "nf") or hasattr(b, "nf"):          # abstract matrix layer
        from . import matalg
        A, B = matalg._as_mat_like(a, None), matalg._as_mat_like(b, None)
        if isinstance(A, matalg.Mat) and isinstance(B, matalg.Mat):
            return matalg.mat_matmul(A, B)
    a, b = Tensor.lift(a), Tensor.lift(b)
    if a is None or b is None:
        raise Unsupported("matmul with scalar")
    a, b = a.frozen(), b.frozen()
    if a.ndim == 1 and b.ndim == 1:
        _need_eq(a.shape[0], b.shape[0])
        return sigma(a.shape[0], lambda k: S.mul(a.at(k), b.at(k)))
    if a.ndim == 1 and b.ndim == 2:
        _need_eq(a.shape[0], b.shape[0])
        return Tensor((b.shape[1],), lambda j: sigma(a.shape[0], lambda k: S.mul(a.at(k), b.at(k, j))))
    if a.ndim == 2 and b.ndim == 1:
        _need_eq(a.shape[1], b.shape[0])
        return Tensor((a.shape[0],), lambda i: sigma(b.shape[0], lambda k: S.mul(a.at(i, k), b.at(k))))
    if a.ndim == 2 and b.ndim == 2:
        _need_eq(a.shape[1], b.shape[0])
        return Tensor(
            (a.shape[0], b.shape[1]), lambda i, j: sigma(a.shape[1], lambda k: S.mul(a.at(i, k), b.at(k, j)))
        )
    raise Unsupported("matmul rank")


def _need_eq(a, b):
    if not dim_eq(a, b):
        raise Unsupported(f"matmul inner dims not provably equal {a} {b}")


def reshape(t, shape):
    shape = tuple(unwrap(s) for s in shape)
    tensor_in = t
    t = t.frozen()
    # resolve -1
    if any(isinstance(s, int) and s == -1 for s in shape):
        # common case: (n, m) -> (-1, m) and empty (0,) -> (-1, m)
        if len(shape) == 2 and shape[0] == -1:
            if t.ndim == 2 and dim_eq(t.shape[1], shape[1]):
                return Tensor(t.shape, t.at, dtype=t.dtype, base=tensor_in)
            if t.ndim == 1 and dim_is(t.shape[0], 0):
                return Tensor((0, shape[1]), lambda i, j: 0.0, dtype=t.dtype)
        known = 1
        for s in shape:
            if not (isinstance(s, int) and s == -1):
                known = S.mul(known, s)
        shape = tuple((S.floordiv(tensor_in.size, known) if (isinstance(s, int) and s == -1) else s) for s in shape)
    # supported: inserting/removing unit axes, (n,)->(n,1)/(1,n), identity
    src = [s for s in t.shape if not dim_is(s, 1)]
    dst = [s for s in shape if not dim_is(s, 1)]
    src_pos = [k for k, s in enumerate(t.shape) if not dim_is(s, 1)]
    dst_pos = [k for k, s in enumerate(shape) if not dim_is(s, 1)]
    if len(src) == len(dst) and all(dim_eq(a, b) for a, b in zip(src, dst)):
        def fn(*idx):
            full = [0] * t.ndim
            for sp, dp in zip(src_pos, dst_pos):
                full[sp] = idx[dp]
            return t.at(*full)

        return Tensor(shape, fn, dtype=t.dtype, base=tensor_in)
    # flatten 2-d -> 1-d (row major) with concrete inner extent
    if len(dst) == 1 and len(src) == 2:
        inner = unwrap(src[1])
        a, b2 = src_pos

        def fn2(*idx):
            k = idx[dst_pos[0]]
            full = [0] * t.ndim
            full[a] = S.floordiv(k, inner)
            full[b2] = S.mod(k, inner)
            return t.at(*full)

        return Tensor(shape, fn2, dtype=t.dtype, base=tensor_in)
    if len(dst) == 2 and len(src) == 1:
        inner = dst[1]

        def fn3(*idx):
            full = [0] * t.ndim
            full[src_pos[0]] = S.add(S.mul(idx[dst_pos[0]], inner), idx[dst_pos[1]])
            return t.at(*full)

        return Tensor(shape, fn3, dtype=t.dtype, base=tensor_in)
    raise Unsupported(f"reshape {t.shape} -> {shape}")


# ------------------------------------------------------------------------------------------------
# indexing
# ------------------------------------------------------------------------------------------------


class SliceSpec:
    """normalised slice start:stop:step (step>0) over an axis of extent n -> (length, start, step)"""


def slice_len(start, stop, step, n):
    """numpy/Python semantics for step >= 1 with possibly symbolic start/stop/step/n"""
    step = 1 if step is None else step
    if not isinstance(unwrap(step), int) or unwrap(step) < 0:
        if isinstance(unwrap(step), int):
            raise Unsupported("negative slice step")
    def clampidx(v, default):
        if v is None:
            return default
        v = S.ite(S.cmp("<", v, 0), S.smax(S.add(v, n), 0), S.smin(v, n))
        return v
    a = clampidx(start, 0)
    b = clampidx(stop, n)
    span = S.sub(b, a)
    # ceil(span/step) for span>0 else 0
    if isinstance(unwrap(step), int) and unwrap(step) == 1:
        ln = S.smax(span, 0)
    else:
        ln = S.ite(S.cmp("<=", span, 0), 0, S.floordiv(S.add(span, S.sub(step, 1)), step))
    return ln, a, step


def norm_index(k, n):
    """Python negative-index wrap, skipped when the index is provably non-negative"""
    uk = unwrap(k)
    if isinstance(uk, int):
        return uk if uk >= 0 else S.add(uk, n)
    c = ctx()
    if c is not None and c.is_nonneg(uk):
        return k
    return S.ite(S.cmp("<", k, 0), S.add(k, n), k)


def _as_index_tensor(k):
    if isinstance(k, SymList):
        snap = k.copy()
        return Tensor((snap.length(),), lambda i: snap.at(i), dtype="int")
    if isinstance(k, list):
        items = list(k)
        if not items:
            return Tensor((0,), lambda i: 0, dtype="int")
        if all(isinstance(unwrap(x), bool) for x in items):
            raise Unsupported("boolean list index")
        t = from_nested(items)
        t.dtype = "int"
        return t
    return k


def getitem(t, key):
    if not isinstance(key, tuple):
        key = (key,)
    key = tuple(_as_index_tensor(k) for k in key)
    # boolean mask or fancy index
    if len(key) >= 1 and isinstance(key[0], Tensor) or any(isinstance(k, Tensor) for k in key):
        if any(k is None for k in key):
            # new axes next to an index list: index first, insert the axes afterwards
            core = tuple(k for k in key if k is not None)
            first = fancy_get(t, core)
            post = tuple(None if k is None else slice(None) for k in key)
            return getitem(first, post)
        return fancy_get(t, key)
    if any(k is Ellipsis for k in key):
        raise Unsupported("Ellipsis index")
    n_real = sum(1 for k in key if k is not None)
    if n_real > t.ndim:
        raise Unsupported("too many indices")
    key = key + (slice(None),) * (t.ndim - n_real)
    out_shape = []
    plan = []  # per source axis: ("fix", i) | ("slice", start, step, outpos)
    outpos = 0
    src_axis = 0
    for k in key:
        if k is None:
            out_shape.append(1)
            outpos += 1
            continue
        n = t.shape[src_axis]
        if isinstance(k, slice):
            ln, a, st = slice_len(k.start, k.stop, k.step, n)
            out_shape.append(ln)
            plan.append(("slice", a, st, outpos))
            outpos += 1
        else:
            kk = unwrap(k)
            if isinstance(kk, float):
                raise Unsupported("float index")
            plan.append(("fix", norm_index(k, n)))
        src_axis += 1
    if not out_shape and all(p[0] == "fix" for p in plan):
        return t.at(*[p[1] for p in plan])
    tensor_in = t
    t = t.frozen()

    def fn(*idx):
        full = []
        for p in plan:
            if p[0] == "fix":
                full.append(p[1])
            else:
                _, a, st, op = p
                full.append(S.add(a, S.mul(idx[op], st)))
        return t.at(*full)

    return Tensor(out_shape, fn, dtype=t.dtype, base=tensor_in)


def fancy_get(t, key):
    # supported: t[I] (1-d int index on axis 0), t[I, :] , t[:, I], boolean masks unsupported
    if len(key) == 1:
        key = key + (slice(None),) * (t.ndim - 1)
    if len(key) != t.ndim:
        raise Unsupported("fancy index arity")
    tens = [k for k in key if isinstance(k, Tensor)]
    if len(tens) != 1 or tens[0].ndim != 1:
        raise Unsupported("fancy index form")
    I = tens[0]
    if I.dtype == "bool":
        raise Unsupported("boolean mask indexing")
    ax = [k for k, v in enumerate(key) if isinstance(v, Tensor)][0]
    for k, v in enumerate(key):
        if k != ax and not (isinstance(v, slice) and v == slice(None)):
            raise Unsupported("fancy index mixed with non-trivial slice")
    shape = list(t.shape)
    shape[ax] = I.shape[0]
    t, I = t.frozen(), I.frozen()

    def fn(*idx):
        full = list(idx)
        full[ax] = I.at(idx[ax])
        return t.at(*full)

    return Tensor(shape, fn, dtype=t.dtype)


def fancy_set(t, idx, val):
    """t[idx] = val for a 1-d array and an integer index list of concrete length (numpy: later entries win)"""
    m = unwrap(idx.shape[0])
    if t.ndim == 1 and idx.ndim == 1 and getattr(idx, "member", None) is not None:
        # an index list with a known inverse (position -> (is a member, its place in the list)); entries are distinct
        old = t.copy()
        vt = Tensor.lift(val)
        vt = vt.frozen() if vt is not None else None
        member = idx.member

        def fn_m(i):
            cond, place = member(i)
            v = val if vt is None else vt.at(place)
            return S.ite(cond, v, old.at(i))

        t.set_fn(fn_m, "fancy setitem")
        return
    if t.ndim != 1 or idx.ndim != 1 or not isinstance(m, int):
        raise Unsupported("fancy assignment form (needs 1-d target and concrete-length index list)")
    old = t.copy()
    vt = Tensor.lift(val)
    vt = vt.frozen() if vt is not None else None
    fi = idx.frozen()
    n = t.shape[0]
    targets = [norm_index(fi.at(k), n) for k in range(m)]

    def fn(i):
        r = old.at(i)
        for k in range(m):
            v = val if vt is None else (vt.at(k) if not dim_is(vt.shape[0], 1) or m == 1 else vt.at(0))
            c = S.cmp("==", i, targets[k])
            r = S.ite(c, v, r) if isinstance(c, Sym) else (v if c else r)
        return r

    t.set_fn(fn, "fancy setitem")


def setitem(t, key, val):
    if not isinstance(key, tuple):
        key = (key,)
    key = tuple(_as_index_tensor(k) for k in key)
    if len(key) == 1 and isinstance(key[0], Tensor):
        return fancy_set(t, key[0], val)
    if any(isinstance(k, Tensor) for k in key) or any(k is None for k in key):
        raise Unsupported("fancy/None index assignment")
    key = key + (slice(None),) * (t.ndim - len(key))
    old = t.copy()
    conds = []  # per axis: ("fix", i) | ("slice", a, st, ln, outpos)
    outpos = 0
    for ax, k in enumerate(key):
        n = t.shape[ax]
        if isinstance(k, slice):
            ln, a, st = slice_len(k.start, k.stop, k.step, n)
            conds.append(("slice", a, st, ln, outpos))
            outpos += 1
        else:
            conds.append(("fix", norm_index(k, n)))
    vt = Tensor.lift(val)
    vt = vt.frozen() if vt is not None else None

    def fn(*idx):
        inside = []
        vidx = []
        for c, i in zip(conds, idx):
            if c[0] == "fix":
                inside.append(S.cmp("==", i, c[1]))
            else:
                _, a, st, ln, op = c
                if isinstance(unwrap(st), int) and unwrap(st) == 1:
                    inside.append(S.And(S.cmp(">=", i, a), S.cmp("<", i, S.add(a, ln))))
                    vidx.append(S.sub(i, a))
                else:
                    off = S.sub(i, a)
                    inside.append(
                        S.And(S.cmp(">=", off, 0), S.cmp("==", S.mod(off, st), 0), S.cmp("<", S.floordiv(off, st), ln))
                    )
                    vidx.append(S.floordiv(off, st))
        cond = S.And(*inside) if inside else True
        if vt is None:
            newv = val
        else:
            # broadcast value against the selected region (right-aligned)
            vi = vidx[len(vidx) - vt.ndim:] if vt.ndim <= len(vidx) else None
            if vi is None:
                raise Unsupported("assignment value rank")
            vi = [0 if dim_is(s, 1) else i for s, i in zip(vt.shape, vi)]
            newv = vt.at(*vi)
        if cond is True:
            return newv
        if cond is False:
            return old.at(*idx)
        return S.ite(cond, newv, old.at(*idx))

    t.set_fn(fn, "setitem")


# ------------------------------------------------------------------------------------------------
# symbolic-length Python lists
# ------------------------------------------------------------------------------------------------


class SymList:
    """Python list whose length may be symbolic; elements given by a closure"""

    def __init__(self, length, fn, origin=None):
        self.length_ = unwrap(length)
        self._fn = fn
        self.origin = origin
        self.alloc = next(_alloc)

    def length(self):
        return S.wrap(self.length_) if z3.is_expr(self.length_) else self.length_

    def at(self, i):
        return self._fn(i)

    def append(self, v):
        n = self.length_
        old = self._fn

        def fn(i):
            ui = unwrap(i)
            un = unwrap(n)
            if isinstance(ui, int) and isinstance(un, int):
                return v if ui == un else old(i)
            return _ite_any(S.cmp("==", i, n), v, old(i))

        self._fn = fn
        self.length_ = unwrap(S.add(n, 1))
        c = ctx()
        if c is not None:
            c.writes.append((self, "append"))

    def setitem(self, k, v):
        n = self.length_
        k = norm_index(k, n)
        old = self._fn
        self._fn = lambda i: _ite_any(S.cmp("==", i, k), v, old(i))
        c = ctx()
        if c is not None:
            c.writes.append((self, "setitem"))

    def getitem(self, k):
        if isinstance(k, slice):
            ln, a, st = slice_len(k.start, k.stop, k.step, self.length_)
            return SymList(ln, lambda i: self._fn(S.add(a, S.mul(i, st))))
        n = self.length_
        return self._fn(norm_index(k, n))

    def copy(self):
        return SymList(self.length_, self._fn)

    def __repr__(self):
        return f"SymList(len={self.length_})"


def _ite_any(c, a, b):
    """ite over scalars or tensors of equal shape"""
    if not isinstance(c, Sym):
        return a if c else b
    if isinstance(a, Tensor) or isinstance(b, Tensor):
        ta, tb = Tensor.lift(a), Tensor.lift(b)
        if ta is None or tb is None or ta.ndim != tb.ndim:
            raise Unsupported("ite of tensor and non-tensor")
        return Tensor(ta.shape, lambda *idx: S.ite(c, ta.at(*idx), tb.at(*idx)))
    if a is None or b is None or isinstance(a, (str,)) or isinstance(b, (str,)):
        raise Unsupported("ite over non-numeric values")
    return S.ite(c, a, b)
