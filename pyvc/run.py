"""Runner: explores contracts symbolically, discharges the obligations, runs the native (bounded) layer,
replays counter-models on the real code, writes evidence and decides the exit code.

exit 0 held / 1 violation (VIOLATION line) / 2 undecided / 3 checker broken
"""
from __future__ import annotations
import argparse
import zlib
import glob
import hashlib
import importlib
import json
import os
import random
import sys
import time
import traceback
import z3

from . import sym as S
from .sym import Ctx, Unsupported, RaisedInCode, PathAbort
from .interp import Interp
from . import npmodel as N
from .vc import REGISTRY, SymVC, NatVC, SkipCase, make_models
from .backends import Pool, to_smt2

VERIF = os.path.dirname(os.path.dirname(os.path.abspath(__file__)))
sys.setrecursionlimit(20000)


def load_contracts(prop):
    sys.path.insert(0, VERIF)
    pat = os.path.join(VERIF, "contracts", f"{prop.lower()}_*.py")
    files = sorted(glob.glob(pat))
    for f in files:
        importlib.import_module("contracts." + os.path.basename(f)[:-3])
    return REGISTRY.get(prop, [])


def revalidate(cdef, ob):
    """re-explore the single path of a `sat` obligation and confront the solver's counter-model with the sums and universal facts
    the quantifier-free obligation left out (Ctx._validate_here); returns 'genuine' | 'refuted' | 'unknown'"""
    try:
        interp = Interp(make_models())
        obs, info = explore(cdef, interp, only_prefix=list(ob.path), target=(ob.name, (ob.meta or {}).get("seq")))
        return info.get("validation") or "unknown"
    except Exception:
        if os.environ.get("VERIF_DEBUG"):
            traceback.print_exc()
        return "unknown"
    finally:
        Ctx.current = None


def explore(cdef, interp, max_paths=400, only_prefix=None, target=None):
    """symbolic exploration of one contract; returns (obligations, info)"""
    c = Ctx(concrete=False)
    Ctx.current = c
    c.worklist = [[]] if only_prefix is None else [only_prefix]
    c.validate_target = target
    c.validation_result = None
    info = {"paths": 0, "undecided": [], "aborted": 0, "covers": []}
    vc = SymVC(cdef, interp)
    vc.c = c
    while c.worklist:
        prefix = c.worklist.pop()
        c.reset_run(prefix)
        interp.call_contracts.clear()
        interp.loop_specs.clear()
        vc.getvals = []
        vc.end_checks = []
        vc.allowed_raises = set()
        vc.may_raise = False
        info["paths"] += 1
        if info["paths"] > max_paths:
            info["undecided"].append("path budget exceeded")
            break
        n_before = len(c.obligations)
        try:
            cdef.fn(vc)
            vc.path_end_checks()
        except PathAbort:
            info["aborted"] += 1
        except Unsupported as e:
            info["undecided"].append(f"outside subset: {e}")
            if os.environ.get("VERIF_DEBUG"):
                traceback.print_exc()
        except RaisedInCode as e:
            info["undecided"].append(f"uncaught raise {e.exc_name} in contract")
        except RecursionError:
            info["undecided"].append("recursion limit")
        except Exception as e:  # an error inside the contract text on this path (e.g. after the code changed shape)
            info["undecided"].append(f"contract error on a path: {type(e).__name__}: {e}")
            if os.environ.get("VERIF_DEBUG"):
                traceback.print_exc()
        # cover for this path: hypotheses satisfiable
        if len(c.obligations) > n_before:
            last = c.obligations[-1]
            info["covers"].append(last)
        if only_prefix is not None:
            info["validation"] = c.validation_result
            break
    Ctx.current = None
    info["ctx"] = c
    return c.obligations, info


def explore_worker(args):
    """runs in a forked process: explore one contract and return picklable obligations (SMT-LIB text)"""
    prop, name = args
    from .sym import Obligation
    try:
        contracts = load_contracts(prop)
        cd = [c for c in contracts if c.name == name][0]
        interp = Interp(make_models())
        N.USED.clear()
        t0 = time.time()
        obs, info = explore(cd, interp)
        covers = []
        for ob in info["covers"]:
            cv = Obligation(ob.name + "#cover", None, None, ob.path, kind="cover")
            cv.smt2 = to_smt2(ob.hyps, z3.BoolVal(False))
            cv.meta["contract"] = name
            covers.append(cv)
        for ob in obs:
            ob.smt2 = to_smt2(ob.hyps, ob.goal)
            ob.meta["contract"] = name
            ob.meta["goal"] = str(ob.goal)[:300]
            ob.hyps, ob.goal = None, None
        info = {k: v for k, v in info.items() if k not in ("ctx", "covers")}
        info["explore_s"] = round(time.time() - t0, 2)
        return {"name": name, "obs": obs, "covers": covers, "info": info, "sources": interp.sources,
                "dropped": sorted(interp.dropped), "used": sorted(N.USED), "error": None}
    except Exception as e:
        return {"name": name, "obs": [], "covers": [], "info": {"paths": 0, "undecided": [], "aborted": 0},
                "sources": {}, "dropped": [], "used": [], "error": f"{type(e).__name__}: {e}\n{traceback.format_exc(limit=8)}"}


def native_runs(cdef, interp, seed, n_runs, inputs=None):
    res = {"runs": 0, "skipped": 0, "failures": [], "cross_compared": 0, "cross_mismatch": [], "cross_skipped": set(),
           "checked": 0, "samples": [], "distinct": set(), "errors": []}
    rng = random.Random(seed)
    tries = 0
    while res["runs"] < n_runs and tries < n_runs * 6:
        tries += 1
        vc = NatVC(cdef, interp, rng, inputs=inputs)
        import signal

        def _too_long(signum, frame):
            raise TimeoutError("bounded case exceeded its time limit")
        old_handler = signal.signal(signal.SIGALRM, _too_long)
        signal.alarm(int(os.environ.get("VERIF_CASE_TIMEOUT", "180")))
        try:
            try:
                cdef.fn(vc)
            finally:
                signal.alarm(0)
                signal.signal(signal.SIGALRM, old_handler)
        except TimeoutError:
            # a library call that does not come back on inputs the harness considers valid: a failed run-time contract
            res["failures"].append({"obligation": f"{cdef.prop}.{cdef.name}.terminates_within_time_limit",
                                    "why": "the case did not finish within the per-case time limit", "inputs": dict(vc.inputs)})
            res["runs"] += 1
            if inputs is not None:
                break
            continue
        except SkipCase:
            if vc.failures:
                res["failures"].extend(vc.failures)
                res["runs"] += 1
            else:
                res["skipped"] += 1
            if inputs is not None:
                break
            continue
        except Exception as e:
            # an exception raised INSIDE the library (innermost Python frame in the repository's package) on inputs the
            # harness considers valid is a failed run-time contract, not a broken checker
            frames = traceback.extract_tb(e.__traceback__)
            inner = [f.filename for f in frames if "/site-packages/" not in f.filename and "/lib/python" not in f.filename
                     and f.filename.startswith("/") and f.filename.endswith(".py")]      # (compiled extension frames have no path)
            if inner and "/inference/" in inner[-1] and "/verif/" not in inner[-1]:
                res["failures"].extend(vc.failures)
                res["failures"].append({"obligation": f"{cdef.prop}.{cdef.name}.no_unexpected_raise",
                                        "why": f"library raised {type(e).__name__}: {str(e)[:200]}", "inputs": dict(vc.inputs)})
                res["runs"] += 1
                if inputs is not None:
                    break
                continue
            res["errors"].append(f"{type(e).__name__}: {e}\n{traceback.format_exc(limit=6)}")
            if len(res["errors"]) > 3 or inputs is not None:
                break
            continue
        res["runs"] += 1
        res["checked"] += len(vc.checked)
        res["failures"].extend(vc.failures)
        res["cross_compared"] += vc.cross_compared
        res["cross_mismatch"].extend(vc.cross_mismatch)
        res["cross_skipped"].update(vc.cross_skipped)
        key = hashlib.sha1(json.dumps(vc.inputs, sort_keys=True, default=str).encode()).hexdigest()
        res["distinct"].add(key)
        if len(res["samples"]) < 2:
            res["samples"].append(vc.inputs)
        if inputs is not None:
            break
    return res


def load_known(prop):
    p = os.path.join(VERIF, "known_findings.json")
    if not os.path.exists(p):
        return []
    return [e for e in json.load(open(p)) if e.get("property") == prop]


def match_known(known, obligation, inputs=None):
    for e in known:
        if e.get("status") != "known":
            continue
        if e.get("obligation") == obligation:
            pred = e.get("input_class")
            return e
    return None


def run(prop, tier="quick", seed=0, replay=None, only=None):
    t0 = time.time()
    contracts = load_contracts(prop)
    all_contracts = list(contracts)
    if only:
        contracts = [c for c in contracts if c.name in only]
    if not contracts:
        print(f"no contracts registered for {prop}")
        return 3
    interp = Interp(make_models())
    N.USED.clear()

    if replay:
        return do_replay(prop, replay, contracts, interp)

    timeout = 25 if tier == "quick" else 90      # (sized so that verdicts do not flip when all cores are busy)
    all_obs = []
    infos = {}
    undecided = []
    covers = []
    sym_contracts = [cd for cd in contracts if cd.symbolic]
    for cd in contracts:
        if not cd.symbolic:
            infos[cd.name] = {"paths": 0, "undecided": [], "aborted": 0}
    if sym_contracts:
        import multiprocessing as mp
        jobs = [(prop, cd.name) for cd in sym_contracts]
        if len(jobs) == 1 or os.environ.get("VERIF_SERIAL"):
            results = [explore_worker(j) for j in jobs]
        else:
            with mp.get_context("fork").Pool(min(16, len(jobs))) as pl:
                results = pl.map(explore_worker, jobs)
        for cd, r in zip(sym_contracts, results):
            if r["error"]:
                print(f"CHECKER-ERROR exploring {cd.name}: {r['error']}")
                return 3
            infos[cd.name] = r["info"]
            all_obs.extend(r["obs"])
            covers.extend(r["covers"])
            interp.sources.update(r["sources"])
            interp.dropped.update(r["dropped"])
            N.USED.update(r["used"])
            for u in r["info"]["undecided"]:
                undecided.append(f"{cd.name}: {u}")
            if len(r["obs"]) < cd.min_obligations and not r["info"]["undecided"]:
                print(f"CHECKER-ERROR contract {cd.name} generated {len(r['obs'])} obligations (< {cd.min_obligations})")
                return 3

    pool = Pool()
    pool.discharge(all_obs, timeout_s=timeout, second=(tier == "thorough"))

    # vacuity: the hypotheses of every explored path must be satisfiable (cover / canary)
    pool.discharge(covers, timeout_s=timeout)
    vacuous = [cv for cv in covers if cv.verdict == "unsat"]
    if vacuous:
        for cv in vacuous[:5]:
            print(f"CHECKER-ERROR vacuous hypotheses on a path of {cv.meta['contract']} ({cv.name})")
        return 3

    # native layer
    n_runs = 60 if tier == "quick" else 600
    nat = {}
    for cd in contracts:
        if not cd.native:
            continue
        k = cd.native_runs or n_runs
        if tier == "thorough" and cd.native_runs:
            k = cd.native_runs * 5
        nat[cd.name] = native_runs(cd, interp, seed * 7919 + zlib.crc32(cd.name.encode()) % 1000, k)

    known = load_known(prop)
    # every recorded finding with a pinned failing input is re-run on each check, so its line is printed whenever it
    # still reproduces (and a note when it no longer does); other violations of the same property are unaffected
    for e in known:
        if e.get("status") == "known" and e.get("pinned_inputs") and e.get("contract") in nat:
            cd = [c for c in contracts if c.name == e["contract"]][0]
            r = native_runs(cd, None, 0, 1, inputs=e["pinned_inputs"])
            nat[cd.name]["failures"].extend(r["failures"])
            nat[cd.name]["errors"].extend(r["errors"])
            if not any(f["obligation"] == e["obligation"] for f in r["failures"]):
                print(f"NOTE: recorded finding no longer reproduces on its pinned input: {e['obligation']}")
    os.makedirs(os.path.join(VERIF, "replays"), exist_ok=True)
    violations = []
    known_hits = []
    broken = []

    # encoder cross-check
    for name, r in nat.items():
        if r["cross_mismatch"]:
            broken.append(f"encoder cross-check mismatch in {name}: {r['cross_mismatch'][:3]}")
        if r["errors"]:
            broken.append(f"native harness error in {name}: {r['errors'][0][:400]}")

    # native failures
    for name, r in nat.items():
        seen = set()
        for f in r["failures"]:
            if f["obligation"] in seen:
                continue
            seen.add(f["obligation"])
            k = match_known(known, f["obligation"])
            if k:
                known_hits.append((k, f["obligation"]))
                continue
            path = write_replay(prop, f["obligation"], name, f["inputs"], f["why"], None)
            violations.append((f["obligation"], path, True))

    # contracts whose STRUCTURAL loop invariants no longer fit the code: nothing proved under them is reported as a
    # violation (the code may have been restructured correctly); the bounded layer decides such changes
    unfit = set()
    for ob in all_obs:
        if ob.kind == "structural-invariant" and ob.verdict != "unsat":
            unfit.add(ob.meta["contract"])
    for cname in sorted(unfit):
        undecided.append(f"{cname}: a structural loop invariant of this contract is not inductive for the current code "
                         f"(restructured loop?) -- proof obligations of the contract are undecided, bounded layer decides")
    # symbolic failures
    by_name = {}
    for ob in all_obs:
        by_name.setdefault(ob.name, []).append(ob)
    proved, failed_names = 0, []
    for name, obs in by_name.items():
        verdicts = [o.verdict for o in obs]
        if any(o.meta.get("disagreement") for o in obs):
            broken.append(f"solver disagreement on {name}")
        if all(v == "unsat" for v in verdicts):
            proved += 1
            continue
        if obs[0].meta.get("contract") in unfit:
            continue
        if any(o.verdict == "sat" and (o.meta or {}).get("sum_congruence") == "inconclusive" for o in obs) \
                and not any(o.verdict == "sat" and (o.meta or {}).get("sum_congruence") != "inconclusive" for o in obs):
            undecided.append(f"{name}: the sums in the goal could not be compared within the solver budget")
            continue
        if any(v == "sat" for v in verdicts):
            # counter-models that contradict the meaning of a finite sum are artefacts of the sum abstraction
            checks = [validate_sums(o) for o in obs if o.verdict == "sat"]
            for o, r in zip([o for o in obs if o.verdict == "sat"], checks):
                o.meta["sum_validation"] = r
            if os.environ.get("VERIF_DEBUG"):
                print("validate_sums:", name, checks)
            # ... and then with the universal facts (instantiated only at the index terms that occurred) and the sums together, on
            # the re-explored path of the obligation
            sat_obs = [o for o in obs if o.verdict == "sat"]
            # (bounded effort: one genuine counter-model per obligation name is enough to report it; at most three instances
            # per name and a total time budget per run are re-explored -- what is not looked at counts as "unknown")
            looked = 0
            for i_, (o, r) in enumerate(zip(sat_obs, checks)):
                if r in ("genuine", "no-sums") and o.kind != "cover":
                    if looked >= 3 or time.time() - t0 > REVALIDATION_DEADLINE_S or any(
                            c2 in ("genuine", "no-sums") and sat_obs[j_].meta.get("countermodel_validation") == "genuine"
                            for j_, c2 in enumerate(checks[:i_])):
                        if not any(sat_obs[j_].meta.get("countermodel_validation") == "genuine" for j_ in range(i_)):
                            checks[i_] = "unknown"
                        continue
                    cdv = [c_ for c_ in contracts if c_.name == o.meta.get("contract")]
                    if cdv:
                        looked += 1
                        r2 = revalidate(cdv[0], o)
                        o.meta["countermodel_validation"] = r2
                        if r2 in ("refuted", "unknown"):
                            checks[i_] = r2
            if os.environ.get("VERIF_DEBUG"):
                print("countermodel validation:", name, checks)
            if checks and all(r in ("refuted", "unknown") for r in checks):
                undecided.append(f"{name}: the solver's counter-model ignores the meaning of the finite sums / the universal facts of "
                                 f"the obligation and " + ("no counter-model survives once they are taken into account (abstraction artefact)"
                                                           if "refuted" in checks else "could not be confirmed against them"))
                continue
            # abstractions with no counter-model semantics: a mismatch of matrix normal forms / element functions of different
            # product words, and a `raise` reached only by the interpreter.  They count as violations only with a failing input of
            # the real code (this contract's own run-time evaluation, or its bounded companion); otherwise: not proved
            sat_obs = [o for o in obs if o.verdict == "sat"]
            # ... and contracts tagged "structural": they pin down the ORDER in which a function is written (prologue / loop body /
            # epilogue of an integrator), so an equivalent restructuring fails them; same rule
            cdv0 = [c_ for c_ in contracts if sat_obs and c_.name == sat_obs[0].meta.get("contract")]
            structural_ = bool(cdv0) and "structural" in (cdv0[0].tags or ())
            if (structural_ or any((o.meta or {}).get("matrix_layer") or (o.meta or {}).get("raised") for o in sat_obs)) \
                    and not any(v[0] == name for v in violations):
                cdv = [c_ for c_ in contracts if c_.name == sat_obs[0].meta.get("contract")]
                rcd_ = cdv[0] if cdv else None
                if rcd_ is not None and rcd_.replay_with:
                    rr_ = [c_ for c_ in all_contracts if c_.name == rcd_.replay_with]
                    rcd_ = rr_[0] if rr_ else None
                have_native = False
                if rcd_ is not None and rcd_.native:
                    pool_ = list(nat.get(rcd_.name, {}).get("failures", []))
                    if not pool_:
                        budget = min(200, max(20, 3 * (rcd_.native_runs or 60)))
                        r_ = native_runs(rcd_, None, seed * 7919 + 17, budget)
                        nat.setdefault(rcd_.name, r_)
                        if rcd_.name in nat and nat[rcd_.name] is not r_:
                            nat[rcd_.name]["failures"].extend(r_["failures"])
                        pool_ = r_["failures"]
                    have_native = bool([f for f in pool_ if not match_known(known, f["obligation"])])
                if not have_native:
                    what = "a raise reached only by the interpreter" if any((o.meta or {}).get("raised") for o in sat_obs) \
                        else ("the function is not written in the order the structural contract describes" if structural_
                              else "abstract matrices that the rewriting laws did not identify")
                    undecided.append(f"{name}: not proved ({what}); no failing input of the real code found by the bounded companion")
                    continue
            failed_names.append(name)
            if any(v[0] == name for v in violations):
                continue
            k = match_known(known, name)
            if k:
                known_hits.append((k, name))
                continue
            ob = [o for o in obs if o.verdict == "sat"][0]
            cdname = ob.meta["contract"]
            cd = [c for c in contracts if c.name == cdname][0]
            found = None
            rcd = cd
            if cd.replay_with:
                rcd = [c for c in all_contracts if c.name == cd.replay_with][0]
            if ob.values and rcd.native and rcd is cd:
                # (a counter-model is only meaningful as input of the contract it came from: a companion harness has its
                # own input names and ranges -- a model value such as d = 10^9 must never reach it)
                r = native_runs(rcd, None, 0, 1, inputs=ob.values)
                for f in r["failures"]:
                    found = f
                    cdname = rcd.name
                    break
            if not found and cd.replay_with:
                # the abstract counter-model has no concrete inputs of its own: a failing input of the bounded
                # companion harness found in this run (or searched for now) is the replayable witness on the real code
                pool_ = list(nat.get(rcd.name, {}).get("failures", []))
                if not pool_:
                    budget = min(200, max(20, 3 * (rcd.native_runs or 60)))      # (expensive harnesses declare few runs)
                    pool_ = native_runs(rcd, None, seed * 7919 + 17, budget)["failures"]
                if pool_:
                    found = pool_[0]
                    cdname = rcd.name
            if found:
                path = write_replay(prop, found["obligation"], cdname, found["inputs"], found["why"], ob)
                violations.append((name, path, True))
            else:
                path = write_replay(prop, name, cdname, ob.values or {}, "solver counter-model; no native failure reproduced", ob)
                violations.append((name, path, False))
        else:
            undecided.append(f"{name}: solver verdicts {sorted(set(verdicts))}")

    # evidence
    ev = build_evidence(prop, tier, seed, contracts, all_obs, by_name, proved, infos, nat, covers, interp,
                        violations, known_hits, undecided, time.time() - t0)
    # partial runs (--only) and self-test runs against a scratch copy must not overwrite the evidence of the check
    ev_dir = "evidence" if not (only or os.environ.get("VERIF_REPO") or os.environ.get("VERIF_SELFTEST")) \
        else os.path.join("scratch", "evidence")
    os.makedirs(os.path.join(VERIF, ev_dir), exist_ok=True)
    with open(os.path.join(VERIF, ev_dir, f"{prop}.json"), "w") as f:
        json.dump(ev, f, indent=1, default=str)

    printed = set()
    for k, obn in known_hits:
        line = f"KNOWN-FINDING: property={prop} {k.get('what', obn)}"
        if line not in printed:
            print(line)
            printed.add(line)
    confirmed = [v for v in violations if v[2]]
    if broken and not confirmed:
        for b in broken:
            print("CHECKER-ERROR", b)
        return 3
    if violations:
        for name, path, replayed in violations:
            tail = "" if replayed else " no-failing-input-found"
            print(f"VIOLATION property={prop} replay={path} obligation={name}{tail}")
        for b in broken:
            print("CHECKER-ERROR", b)
        return 1
    if undecided:
        for u in undecided:
            print("UNDECIDED", u)
        return 2
    print(f"OK property={prop} obligations={ev['coverage']['obligations']} instances={len(all_obs)} "
          f"discharged={ev['coverage']['discharged']} known_findings={len(known_hits)} "
          f"native_runs={sum(r['runs'] for r in nat.values())} wall={time.time() - t0:.1f}s")
    return 0


REVALIDATION_DEADLINE_S = 240       # after this much wall time of a run no further counter-model is re-explored


def validate_sums(ob, timeout_ms=20000, max_terms=300, rounds=8):
    """a `sat` answer treats every finite sum in the obligation as an unrelated real constant.  Re-solve in process and evaluate
    each sum term by term under the counter-model.  When every sum symbol has the value of its own sum the model is a
    counter-example with the sums meaning what they mean: 'genuine'.  Otherwise the (valid) lemma `range = [lo0, n0) -> symbol =
    the explicit sum of its n0 - lo0 terms` is added for every sum and the obligation is solved again, a few rounds: 'refuted' when
    it becomes unsatisfiable (the sat answer was an artefact of the abstraction and the obligation holds), 'unknown' when no verdict
    is reached (no model in time, nested sums, huge or irrational values, rounds used up)"""
    sig = (ob.meta or {}).get("sigma_smt2")
    if not sig or not ob.smt2:
        return "no-sums"
    if (ob.meta or {}).get("sigma_nested"):
        return "unknown"
    try:
        from fractions import Fraction
        c = z3.Context()
        s = z3.Solver(ctx=c)
        s.set("timeout", timeout_ms)
        s.from_string(ob.smt2)
        aux = z3.parse_smt2_string(sig, ctx=c)
        n_atoms = ob.meta.get("sigma_n", 0)
        sk = z3.Int("sk0", c)
        atoms = [(aux[4 * j].arg(1), aux[4 * j + 1].arg(1), aux[4 * j + 2].arg(1), aux[4 * j + 3].arg(1)) for j in range(n_atoms)]

        def frac(v):
            v = z3.simplify(v)
            if z3.is_int_value(v):
                return Fraction(v.as_long())
            if z3.is_rational_value(v):
                return Fraction(v.numerator_as_long(), v.denominator_as_long())
            return None
        tried = 0
        for _ in range(rounds):
            r = s.check()
            if r == z3.unsat:
                return "refuted" if tried else "unknown"
            if r != z3.sat:
                if os.environ.get("VERIF_DEBUG"):
                    print("validate_sums: solver", r, s.reason_unknown())
                return "unknown"
            m = s.model()
            consistent = True
            lemmas, fix = [], []
            for sym, core, ext, lo in atoms:
                n0 = frac(m.eval(ext, model_completion=True))
                l0 = frac(m.eval(lo, model_completion=True))
                if n0 is None or l0 is None or n0 - l0 > max_terms:
                    if os.environ.get("VERIF_DEBUG"):
                        print("validate_sums: range", n0, l0)
                    return "unknown"
                terms = [z3.substitute(core, (sk, z3.IntVal(i, c))) for i in range(int(l0), int(n0))]
                explicit = z3.Sum(terms) if terms else z3.RealVal(0, c)
                total = frac(m.eval(explicit, model_completion=True))
                have = frac(m.eval(sym, model_completion=True))
                if total is None or have is None:
                    if os.environ.get("VERIF_DEBUG"):
                        print("validate_sums: value", m.eval(explicit, model_completion=True), m.eval(sym, model_completion=True))
                    return "unknown"
                if have != total:
                    consistent = False
                lemmas.append(sym == explicit)
                fix.append(z3.And(ext == int(n0), lo == int(l0)))
            if consistent:
                if os.environ.get("VERIF_DEBUG"):
                    open(os.path.join(VERIF, "scratch", "genuine_" + ob.name.split(".")[-1][:40] + ".smt2"), "w").write(ob.smt2 + "\n;;;;SIGMA\n" + sig)
                    print("validate_sums: consistent model", [(str(m.eval(e_, model_completion=True)), str(m.eval(l_, model_completion=True)), str(m.eval(s_, model_completion=True))) for s_, c_, e_, l_ in atoms])
                return "genuine"
            # the same ranges, now with every sum meaning its explicit sum: is there a counter-model at all?
            tried += 1
            s.push()
            for f_ in fix:
                s.add(f_)
            for lm in lemmas:
                s.add(lm)
            r2 = s.check()
            if r2 == z3.sat:
                if os.environ.get("VERIF_DEBUG"):
                    open(os.path.join(VERIF, "scratch", "genuine_" + ob.name.split(".")[-1][:40] + ".smt2"), "w").write(s.to_smt2())
                    m2 = s.model()
                    print("validate_sums: fixed-range model", [(str(m2.eval(e_, model_completion=True)), str(m2.eval(l_, model_completion=True)), str(m2.eval(s_, model_completion=True))) for s_, c_, e_, l_ in atoms])
                return "genuine"
            s.pop()
            if r2 != z3.unsat:
                if os.environ.get("VERIF_DEBUG"):
                    print("validate_sums: fixed-range query", r2, s.reason_unknown())
                return "unknown"
            s.add(z3.Not(z3.And(*fix)))          # no counter-model with these ranges: look at others
        return "refuted"
    except Exception as e:       # a failure of the validation is not a verdict
        if os.environ.get("VERIF_DEBUG"):
            traceback.print_exc()
        return "unknown"


def write_replay(prop, obligation, contract, inputs, why, ob):
    safe = obligation.replace("/", "_")
    rdir = "replays" if not (os.environ.get("VERIF_REPO") or os.environ.get("VERIF_SELFTEST")) else os.path.join("scratch", "replays")
    os.makedirs(os.path.join(VERIF, rdir), exist_ok=True)
    path = os.path.join(VERIF, rdir, f"{prop}-{safe}.json")
    d = {"property": prop, "obligation": obligation, "contract": contract, "inputs": inputs, "why": why,
         "replay_cmd": f"./check {prop} --replay {path}"}
    if ob is not None:
        d["solver"] = {"backend": ob.backend, "verdict": ob.verdict, "output": ob.meta.get("solver_output", ""),
                       "model": ob.values, "path": ob.path, "meta": {k: v for k, v in ob.meta.items() if k != "solver_output"}}
    with open(path, "w") as f:
        json.dump(d, f, indent=1, default=str)
    return path


def do_replay(prop, path, contracts, interp):
    d = json.load(open(path))
    cds = [c for c in contracts if c.name == d["contract"]]
    if not cds:
        print("replay: unknown contract", d["contract"])
        return 3
    r = native_runs(cds[0], None, 0, 1, inputs=d["inputs"])
    if r["failures"]:
        for f in r["failures"]:
            print(f"VIOLATION property={prop} replay={path} obligation={f['obligation']} ({f['why']})")
        return 1
    print("replay: no run-time postcondition failed on these inputs")
    return 0


def build_evidence(prop, tier, seed, contracts, all_obs, by_name, proved, infos, nat, covers, interp, violations,
                   known_hits, undecided, wall):
    known_names = {obn for _, obn in known_hits}
    counted = {n: o for n, o in by_name.items() if n not in known_names}
    samples = []
    for n, obs in list(counted.items())[:6]:
        o = obs[0]
        samples.append({"obligation": n, "instances": len(obs), "verdict": o.verdict, "backend": o.backend,
                        "smt_bytes": len(o.smt2 or ""), "time_s": round(o.time, 3), "path": o.path,
                        "goal": o.meta.get("goal", "")})
    by_backend = {}
    for o in all_obs:
        by_backend[o.backend] = by_backend.get(o.backend, 0) + 1
    second = {}
    for o in all_obs:
        s2 = o.meta.get("second")
        if s2:
            second[f"{s2[0]}:{s2[1]}"] = second.get(f"{s2[0]}:{s2[1]}", 0) + 1
    bounded = {}
    for name, r in nat.items():
        bounded[name] = {
            "evaluations": r["runs"], "distinct_inputs": len(r["distinct"]), "postconditions_evaluated": r["checked"],
            "skipped_precondition": r["skipped"], "failures": len(r["failures"]),
            "encoder_crosscheck_compared": r["cross_compared"],
            "encoder_crosscheck_skipped": sorted(r["cross_skipped"])[:5],
            "samples": r["samples"][:1],
            "rule": "inputs drawn by the contract's own generators (seeded); labelled bounded, never counted as proved",
        }
    discharged = sum(1 for n, obs in counted.items() if all(o.verdict == "unsat" for o in obs))
    n_eval = sum(r["runs"] for r in nat.values())
    n_distinct = sum(len(r["distinct"]) for r in nat.values())
    nat_samples = [smp for r in nat.values() for smp in r["samples"][:1]]
    level = "proof" if counted else "exploration"
    try:        # a property claimed at exploration level stays there even when some of its contracts carry proof obligations
        _m = json.load(open(os.path.join(VERIF, "MANIFEST.json")))
        if any(c["property_id"] == prop and c["level_claimed"]["category"] == "exploration" for c in _m["checks"]):
            level = "exploration"
    except Exception:
        pass
    if not counted:
        samples = nat_samples
    ev = {
        "property_id": prop, "tier": tier, "seed": seed, "level": level,
        "coverage": {
            "evaluations": n_eval, "distinct_nontrivial": n_distinct,
            "rule": "bounded layer: inputs drawn by each harness's own seeded generators; two cases are distinct when their "
                    "generated input records differ; a case is non-trivial when the harness reached its postconditions "
                    "(precondition-skipped draws are not counted)",
            "bounded_samples": nat_samples[:3],
            "obligations": len(counted), "discharged": discharged,
            "obligation_instances": len(all_obs),
            "checker_cmd": f"./check {prop} --tier {tier}",
            "trusted_base": [
                "pyvc VC generator (AST interpreter + numpy models), validated on every run by the CPython cross-check",
                "z3 5.1.0 (primary), z3 4.8.12 / cvc5 1.0.3 (fallback and second opinion)",
                "machine floats treated as mathematical reals; NaN/inf/overflow not modelled",
            ],
            "functions_under_contract": sorted(interp.sources.values(), key=lambda d: (d["file"], d["qualname"])),
            "by_backend": by_backend, "second_solver": second,
            "solver_time_s": round(sum(o.time for o in all_obs), 2),
            "slowest": [{"obligation": o.name, "time_s": round(o.time, 2), "verdict": o.verdict}
                        for o in sorted(all_obs, key=lambda o: -o.time)[:5]],
            "samples": samples,
            "covers": {"paths_checked": len(covers), "satisfiable": sum(1 for c in covers if c.verdict == "sat"),
                       "unknown": sum(1 for c in covers if c.verdict not in ("sat", "unsat"))},
            "paths": {k: v["paths"] for k, v in infos.items()},
            "explore_s": {k: v.get("explore_s") for k, v in infos.items() if v.get("explore_s") is not None},
            "bounded": bounded,
            "dropped_by_extraction": sorted(interp.dropped)[:40] + ["docstrings", "f-string contents of messages"],
            "known_findings": sorted({k.get("what", n) for k, n in known_hits}),
            "undecided": undecided,
            "exhaustive": False,
        },
        "assumptions": sorted((u if u.startswith(("matrix layer", "lemma", "ghost contract")) else "assumed contract of " + u)
                              for u in N.USED) + [
            "floats are reals", "numpy int64 index arithmetic does not overflow"],
        "wall_s": round(wall, 2),
        "violations": len(violations),
    }
    return ev


def main(argv=None):
    repo = os.environ.get("VERIF_REPO")
    if repo:
        # self-tests run the checks against a scratch copy of the repository (never /repo itself)
        sys.path.insert(0, repo)
    ap = argparse.ArgumentParser()
    ap.add_argument("prop")
    ap.add_argument("--tier", default=os.environ.get("VERIF_TIER", "quick"))
    ap.add_argument("--replay")
    ap.add_argument("--only", nargs="*")
    a = ap.parse_args(argv)
    seed = int(os.environ.get("VERIF_SEED", "0") or 0)
    try:
        rc = run(a.prop, a.tier if a.tier in ("quick", "thorough") else "quick", seed, a.replay, a.only)
    except Exception:
        traceback.print_exc()
        rc = 3
    sys.exit(rc)


if __name__ == "__main__":
    main()
