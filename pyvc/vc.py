"""Contract API.  A contract is a Python function `c(vc)` written against this API; the same text is run

* symbolically (`SymVC`): the real function bodies are interpreted from /repo's AST over z3 terms and
  every `ensures` becomes a proof obligation (P layer);
* natively (`NatVC`): the real functions are imported and called on concrete inputs -- drawn from the
  contract's bounded input family or taken from a solver counter-model (replay) -- and every `ensures`
  is evaluated as a run-time postcondition (B layer).  In this mode each call is also executed by the
  interpreter on the same concrete inputs and compared with CPython's result (encoder cross-check).
"""
from __future__ import annotations
import math
import random
import importlib
import traceback
import numpy as np
import z3
from . import sym as S
from .sym import Sym, Ctx, Unsupported, RaisedInCode, PathAbort, unwrap
from .tensor import Tensor, SymList, from_nested
from .interp import Interp, SymObj, GhostFn, BoundMethod, FuncVal, ClassVal
from . import npmodel as N
from .sigma import sigma

REGISTRY = {}


class ContractDef:
    def __init__(self, prop, name, fn, bounded=None, min_obligations=1, native=True, native_runs=None, tags=(),
                 symbolic=True, replay_with=None):
        self.prop, self.name, self.fn = prop, name, fn
        self.symbolic = symbolic
        self.replay_with = replay_with
        self.bounded = bounded
        self.min_obligations = min_obligations
        self.native = native
        self.native_runs = native_runs
        self.tags = tags


def contract(prop, name, **kw):
    def deco(f):
        REGISTRY.setdefault(prop, []).append(ContractDef(prop, name, f, **kw))
        return f
    return deco


def bounded(prop, name, **kw):
    """a native-only harness: run-time contract evaluation over a bounded input family (never proof)"""
    kw.setdefault("symbolic", False)
    kw.setdefault("min_obligations", 0)
    return contract(prop, name, **kw)


class ModeConst:
    """a constant that is symbolic in proof mode and a float in concrete mode (pi)"""

    def __init__(self, symv, conc):
        self.symv, self.conc = symv, conc


def make_models():
    m = dict(N.MODELS)
    return m


class SkipCase(Exception):
    """native mode: sampled input does not satisfy a precondition"""


# ================================================================================================
# symbolic mode
# ================================================================================================


class SymVC:
    mode = "sym"

    def __init__(self, cdef, interp):
        self.cdef = cdef
        self.I = interp
        self.c = None
        self.getvals = []
        self.name_prefix = f"{cdef.prop}.{cdef.name}"
        self.unexpected_raise_ok = False
        self.end_checks = []

    # ---- inputs ---------------------------------------------------------------------------------
    def int(self, name, lo=None, hi=None, hard_hi=False, sample=None):
        v = z3.Int(name)
        if lo is not None:
            self.c.defs.append(v >= S.z(lo))
        if hi is not None and hard_hi:
            self.c.defs.append(v <= S.z(hi))
        self.getvals.append({"name": name, "kind": "int"})
        return Sym(v)

    def real(self, name, lo=None, hi=None, pos=False, sample=None, strict=True):
        v = z3.Real(name)
        if pos:
            self.c.defs.append(v > 0)
        if lo is not None:
            self.c.defs.append(v >= S.z(lo) if not strict or True else v > S.z(lo))
        if hi is not None:
            self.c.defs.append(v <= S.z(hi))
        self.getvals.append({"name": name, "kind": "real"})
        return Sym(v)

    def bool(self, name):
        self.getvals.append({"name": name, "kind": "bool"})
        return Sym(z3.Bool(name))

    def choice(self, name, options):
        """finite case split: explored as separate paths"""
        k = z3.Int(name)
        self.c.defs.append(z3.And(k >= 0, k < len(options)))
        self.getvals.append({"name": name, "kind": "int"})
        for i in range(len(options) - 1):
            if self.c.decide(k == i):
                return options[i]
        return options[-1]

    def vector(self, name, n, pos=False, nonneg=False, sample=None, sort="Real", origin="input"):
        f = z3.Function(name, z3.IntSort(), z3.RealSort() if sort == "Real" else z3.IntSort())
        def elem(i):
            # every index at which an input is read becomes an instantiation term for universal facts
            self.c.add_index_term(i, n)
            return Sym(f(S.z(i)))

        t = Tensor((n,), elem, origin=f"{origin}:{name}", dtype="real" if sort == "Real" else "int")
        if pos:
            self.c.add_forall((n,), lambda i: f(S.z(i)) > 0, f"{name}>0")
        if nonneg:
            self.c.add_forall((n,), lambda i: f(S.z(i)) >= 0, f"{name}>=0")
        self.getvals.append({"name": name, "kind": "vec", "len": _lenref(n), "sort": sort})
        return t

    def matrix(self, name, n, m, sample=None, origin="input"):
        f = z3.Function(name, z3.IntSort(), z3.IntSort(), z3.RealSort())
        def elem(i, j):
            self.c.add_index_term(i, n)
            self.c.add_index_term(j, m)
            return Sym(f(S.z(i), S.z(j)))

        t = Tensor((n, m), elem, origin=f"{origin}:{name}")
        self.getvals.append({"name": name, "kind": "mat", "rows": _lenref(n), "cols": _lenref(m)})
        return t

    def index(self, name, n):
        """generic index 0 <= i < n (a fresh constant: proving at it proves for all indices)"""
        v = self.c.fresh(name, "Int")
        self.c.defs.append(z3.And(v >= 0, v < S.z(n)))
        self.c.add_index_term(v)
        self.c.mark_nonneg(v)
        return Sym(v)

    def assume(self, cond):
        self.c.assume(cond)

    def assume_forall(self, extents, fn, name=""):
        if not isinstance(extents, (tuple, list)):
            extents = (extents,)
        self.c.add_forall(tuple(extents), lambda *idx: fn(*idx), name)

    def assume_lemma(self, name, cond=None, extents=None, fn=None):
        """a mathematical fact used without proof: assumed AND listed among the evidence's unchecked assumptions"""
        N.USED.add("lemma (not proved here): " + name)
        if cond is not None:
            self.c.assume(cond)
        if fn is not None:
            self.assume_forall(extents, fn, name)

    def instantiate_at(self, *terms, ext=None):
        for t in terms:
            self.c.add_index_term(t, ext)

    # ---- code under contract ----------------------------------------------------------------------
    def cls(self, module, name):
        return self.I.get_class(module, name)

    def new(self, module, clsname, *args, **kwargs):
        cls = self.I.get_class(module, clsname)
        return self._guard(lambda: self.I.instantiate(cls, args, kwargs))

    def obj(self, module, clsname, **fields):
        cls = self.I.get_class(module, clsname)
        return SymObj(cls, dict(fields), origin="contract")

    def call(self, obj, method, *args, **kwargs):
        return self._guard(lambda: self.I.call(self.I.get_attr(obj, method), args, kwargs))

    def callf(self, module, qualname, *args, **kwargs):
        fn = self.I.get_function(module, qualname)
        return self._guard(lambda: self.I.call(fn, args, kwargs))

    def attr(self, obj, name):
        return self.I.get_attr(obj, name)

    def setattr(self, obj, name, v):
        self.I.set_attr(obj, name, v)

    def setattr_prop(self, obj, name, v):
        """attribute assignment through the real property setter"""
        self._guard(lambda: self.I.set_attr(obj, name, v))

    may_raise = False

    def setitem(self, arr, key, v):
        """the CALLER changes an array it owns in place (same object, new contents)"""
        self.I.set_item(arr, key, v)

    def ghost(self, name, fn):
        """a user-supplied callable (forward model, posterior ...): arbitrary, represented by `fn`"""
        return GhostFn(name, fn)

    def at_path_end(self, fn):
        """register a check that is run at the end of every explored path (also paths cut at a loop head)"""
        self.end_checks.append(fn)

    def path_end_checks(self):
        for fn in self.end_checks:
            fn()

    def divisions_defined(self, name="defined.no_division_by_zero"):
        """every division executed on this path has a non-zero divisor"""
        def check():
            seen = set()
            for ev in self.c.trace:
                if ev[0] != "division":
                    continue
                zb = ev[1]
                if z3.is_rational_value(zb) or z3.is_int_value(zb):
                    if (zb.as_fraction() if z3.is_rational_value(zb) else zb.as_long()) != 0:
                        continue
                if S.eid(zb) in seen:
                    continue
                seen.add(zb.get_id())
                self.ensures(name, Sym(zb != 0))
        self.at_path_end(check)

    def library_calls(self, name):
        """(argument, result) of the calls of a modelled library function on this path (ghost trace)"""
        return [(e[2], e[3]) for e in self.c.trace if e[0] == "call" and e[1] == name]

    def modular(self, qualname, handler):
        """calls of `qualname` are replaced by its contract: handler(interp, func, args, kwargs)"""
        self.I.call_contracts[qualname] = handler

    def loop(self, qualname, tag, spec):
        self.I.loop_specs[(qualname, tag)] = spec

    def fresh_int(self, name, lo=None):
        v = self.c.fresh(name, "Int")
        if lo is not None:
            self.c.defs.append(v >= lo)
        return Sym(v)

    def fresh_real(self, name):
        return Sym(self.c.fresh(name, "Real"))

    def deriv(self, value, dleaf):
        from .diff import derivative
        return derivative(value, dleaf)

    def _guard(self, thunk):
        try:
            return thunk()
        except RaisedInCode as r:
            if self.may_raise or r.exc_name in getattr(self, "allowed_raises", ()):
                raise PathAbort(f"raised {r.exc_name}")
            # an unexpected, reachable raise is a failed obligation
            self.c.oblige(f"{self.name_prefix}.no_unexpected_raise", z3.BoolVal(False),
                          meta={"raised": r.exc_name, "line": getattr(r.node, "lineno", None)},
                          getvals=list(self.getvals))
            raise PathAbort(f"raised {r.exc_name}")

    class _Raises:
        def __init__(self, vc):
            self.vc = vc

        def __enter__(self):
            self.old = self.vc.may_raise
            self.vc.may_raise = True

        def __exit__(self, *a):
            self.vc.may_raise = self.old
            return False

    def raising_allowed(self):
        """inputs on which the code raises are outside the contract (postconditions speak about normal
        termination); used where the contract states which inputs may raise"""
        return SymVC._Raises(self)

    def expect_raise(self, name, thunk):
        """obligation: the call raises on every input satisfying the current assumptions"""
        try:
            self.may_raise_probe = True
            old = self.may_raise
            self.may_raise = False
            try:
                thunk_result = None
                try:
                    self.I  # noqa
                    thunk_result = self._probe(thunk)
                finally:
                    self.may_raise = old
            except _Raised:
                self.ensures(name, True)
                return
            self.ensures(name, False)
        finally:
            pass

    def _probe(self, thunk):
        saved = self._guard
        def g(th):
            try:
                return th()
            except RaisedInCode:
                raise _Raised()
        self._guard = g
        try:
            return thunk()
        finally:
            self._guard = saved

    # ---- obligations ------------------------------------------------------------------------------
    def ensures(self, name, cond, extra_terms=(), kind="ensures"):
        # "Cxx/clause": an obligation that belongs to property Cxx only (one exploration of a sampler step
        # serves several properties)
        if len(name) > 4 and name[0] == "C" and name[3] == "/":
            if name[:3] != self.cdef.prop:
                return
            name = name[4:]
        self.c.oblige(f"{self.name_prefix}.{name}", cond, kind=kind, extra_terms=extra_terms, getvals=list(self.getvals))

    def ensures_forall(self, name, extents, fn, assuming=None):
        """prove fn at generic indices; the range of the indices is an antecedent of THIS goal only (adding
        it to the path facts would make every later obligation vacuous when an extent can be zero).
        `assuming(*idx)`: a case condition on the indices, antecedent of this goal only, visible while the body is
        evaluated (so that sums are merged under it)"""
        if not isinstance(extents, (tuple, list)):
            extents = (extents,)
        idx = []
        rng = []
        for k, n in enumerate(extents):
            v = self.c.fresh(f"g{k}", "Int")
            rng.append(z3.And(v >= 0, v < S.z(n)))
            self.c.add_index_term(v)
            self.c.mark_nonneg(v)
            self.getvals.append({"name": str(v), "kind": "int"})
            idx.append(Sym(v))
        if assuming is not None:
            rng.append(S.z(assuming(*idx)))
        saved = list(self.c.defs)
        self.c.defs.extend(rng)         # visible while the body is evaluated (index normalisation, merging)
        try:
            body = fn(*idx)
            goal = S.Implies(Sym(z3.And(*rng)), body)
            extra_defs = self.c.defs[len(saved) + len(rng):]
        finally:
            self.c.defs[:] = saved
        # definitions of symbols created while evaluating the body stay (they are definitional), the range does not
        self.c.defs.extend(extra_defs)
        self.ensures(name, goal)

    def ensures_exists(self, name, extent, fn, hints=()):
        """existential postcondition, proved with a witness among the integer terms the execution produced
        (plus `hints`): quantifier-free"""
        # tensors are lazy: evaluate the body once at a probe index so that the integer terms occurring in
        # it (argmin results, window offsets ...) are registered before the candidates are collected
        probe = self.c.fresh("probe", "Int")
        self.c.mark_nonneg(probe)
        try:
            fn(Sym(probe))
        except (Unsupported, PathAbort):
            pass
        cands = [t for t, e in self.c.index_terms if not t.eq(probe)] + [S.z(h) for h in hints]
        alts = []
        seen = set()
        for t in cands:
            if S.eid(t) in seen:
                continue
            seen.add(t.get_id())
            try:
                body = fn(Sym(t) if not z3.is_int_value(t) else t.as_long())
            except (Unsupported, PathAbort):
                continue
            alts.append(S.And(S.cmp(">=", Sym(t), 0), S.cmp("<", Sym(t), extent), body))
        self.ensures(name, S.Or(*alts) if alts else False)

    def lemma(self, name, cond):
        """prove `cond` as its own obligation under the current hypotheses, then use it"""
        if len(name) > 4 and name[0] == "C" and name[3] == "/":
            if name[:3] != self.cdef.prop:
                return          # a lemma of another property's run: neither proved nor used here
            self.ensures(name[:4] + "lemma." + name[4:], cond)
        else:
            self.ensures("lemma." + name, cond)
        self.c.assume(cond)

    def unchanged(self, name, x, before):
        """frame clause: the caller's array has the same shape and elements as before the call, and no
        in-place write targeted a caller allocation"""
        from .tensor import dim_eq
        if x.ndim != before.ndim or not all(dim_eq(a, b) for a, b in zip(x.shape, before.shape)):
            self.ensures(name, False)
            return
        self.ensures_forall(name, tuple(before.shape), lambda *idx: S.cmp("==", x.at(*idx), before.at(*idx)))
        self.ensures(name + "_no_write", len(self.writes_to_inputs()) == 0)

    def pylist(self, x):
        """the same values as a Python list (symbolic length allowed)"""
        fz = x.frozen()
        return SymList(x.shape[0], lambda i: fz.at(i), origin="input:list")

    def sort(self, x, axis=0):
        """ghost: the sorted rearrangement of x (the assumed contract of numpy's sort)"""
        return N.np_sort(x, axis=axis)

    # ---- mode-agnostic maths ------------------------------------------------------------------------
    pi = Sym(S._PI)

    def log(self, x):
        return N.np_log(x)

    def exp(self, x):
        return N.np_exp(x)

    def sqrt(self, x):
        return N.np_sqrt(x)

    def log1pexp(self, x):
        return N.np_log(1 + N.np_exp(x))

    def abs(self, x):
        return N.np_abs(x)

    def sum(self, n, fn, lo=0):
        return sigma(n, fn, lo)

    def eq(self, a, b, **k):
        return S.cmp("==", a, b)

    def le(self, a, b, **k):
        return S.cmp("<=", a, b)

    def lt(self, a, b, **k):
        return S.cmp("<", a, b)

    def ge(self, a, b, **k):
        return S.cmp(">=", a, b)

    def gt(self, a, b, **k):
        return S.cmp(">", a, b)

    And = staticmethod(S.And)
    Or = staticmethod(S.Or)
    Not = staticmethod(S.Not)
    Implies = staticmethod(S.Implies)
    ite = staticmethod(S.ite)

    def to_int(self, x):
        return S.to_int_trunc(x)

    def floor(self, x):
        return S.floordiv(x, 1)

    def shape(self, x):
        return x.shape if isinstance(x, Tensor) else ()

    def is_array(self, x):
        return isinstance(x, Tensor)

    def ndim(self, x):
        return x.ndim if isinstance(x, Tensor) else 0

    def note(self, s):
        self.c.notes.append(s)

    def tol(self, rtol=None, atol=None):
        pass

    def writes_to_inputs(self):
        """in-place writes whose target allocation came from the caller (frame clause)"""
        out = []
        for obj, what in self.c.writes:
            # a write through a view (a row, a transpose, a slice ...) is a write to the array it views
            t, hops = obj, 0
            while t is not None and hops < 16:
                o = getattr(t, "origin", None)
                if isinstance(o, str) and o.startswith("input"):
                    out.append((o, what))
                    break
                t, hops = getattr(t, "base", None), hops + 1
        return out


class _Raised(Exception):
    pass


def _lenref(n):
    n = unwrap(n)
    if isinstance(n, int):
        return n
    if z3.is_const(n) and n.decl().kind() == z3.Z3_OP_UNINTERPRETED:
        return str(n)
    return 3


# ================================================================================================
# native mode
# ================================================================================================


class Handle:
    """a real object together with the interpreter's object built from the same inputs"""

    def __init__(self, native, interp=None):
        self.native, self.interp = native, interp


class NatFailure(Exception):
    pass


class NatVC:
    mode = "native"

    def __init__(self, cdef, interp, rng, inputs=None, crosscheck=True):
        self.cdef = cdef
        self.I = interp
        self.rng = rng
        self.replay_inputs = inputs
        self.inputs = {}
        self.failures = []
        self.checked = []
        self.crosscheck = crosscheck and interp is not None
        self.cross_compared = 0
        self.cross_mismatch = []
        self.cross_skipped = []
        self.rtol, self.atol = 1e-9, 1e-12
        self.name_prefix = f"{cdef.prop}.{cdef.name}"
        self.may_raise = False
        self.nontrivial = set()

    def tol(self, rtol=None, atol=None):
        if rtol is not None:
            self.rtol = rtol
        if atol is not None:
            self.atol = atol

    # ---- inputs ---------------------------------------------------------------------------------
    def _take(self, name, gen):
        if self.replay_inputs is not None and name in self.replay_inputs and self.replay_inputs[name] is not None:
            v = self.replay_inputs[name]
        else:
            v = gen()
        self.inputs[name] = _jsonable(v)
        return v

    def int(self, name, lo=None, hi=None, hard_hi=False, sample=None):
        lo_ = 0 if lo is None else int(lo)
        hi_ = lo_ + 5 if hi is None else int(hi)
        if hi_ < lo_:
            raise SkipCase()
        v = int(self._take(name, (lambda: sample(self.rng)) if sample else (lambda: self.rng.randint(lo_, hi_))))
        if self.replay_inputs is not None and v > max(4 * hi_, 4096):
            raise SkipCase()          # a counter-model with an astronomically large size is not replayed natively
        if lo is not None and v < lo:
            raise SkipCase()
        if hard_hi and hi is not None and v > hi:
            raise SkipCase()
        return v

    def _real_sample(self, pos=False):
        r = self.rng
        kind = r.random()
        if kind < 0.5:
            x = r.uniform(-3, 3)
        elif kind < 0.8:
            x = r.uniform(-1, 1) * 10 ** r.uniform(-3, 3)
        else:
            x = float(r.randint(-3, 3))
        if pos:
            x = abs(x)
            if x == 0:
                x = 10 ** r.uniform(-3, 1)
        return x

    def real(self, name, lo=None, hi=None, pos=False, sample=None, strict=True):
        def gen():
            if sample:
                return sample(self.rng)
            if lo is not None and hi is not None:
                return self.rng.uniform(lo, hi)
            x = self._real_sample(pos)
            if lo is not None and x < lo:
                x = lo + abs(x)
            if hi is not None and x > hi:
                x = hi - abs(x)
            return x
        v = float(self._take(name, gen))
        if pos and not v > 0:
            raise SkipCase()
        if lo is not None and v < lo:
            raise SkipCase()
        if hi is not None and v > hi:
            raise SkipCase()
        return v

    def bool(self, name):
        return bool(self._take(name, lambda: self.rng.random() < 0.5))

    def choice(self, name, options):
        k = int(self._take(name, lambda: self.rng.randrange(len(options))))
        return options[k % len(options)]

    def vector(self, name, n, pos=False, nonneg=False, sample=None, sort="Real", origin="input"):
        def gen():
            if sample:
                return [sample(self.rng) for _ in range(n)]
            return [self._real_sample(pos) if sort == "Real" else self.rng.randint(-3, 3) for _ in range(n)]
        v = list(self._take(name, gen))
        if len(v) < n:
            v = v + gen()[len(v):]
        v = v[:n]
        self.inputs[name] = _jsonable(v)
        a = np.array(v, dtype=float if sort == "Real" else int)
        if nonneg:
            a = np.abs(a)
        if pos and not (a > 0).all():
            raise SkipCase()
        return a

    def matrix(self, name, n, m, sample=None, origin="input"):
        def gen():
            return [[(sample(self.rng) if sample else self._real_sample()) for _ in range(m)] for _ in range(n)]
        v = self._take(name, gen)
        a = np.array(v, dtype=float).reshape(n, m) if n * m else np.zeros((n, m))
        return a

    def index(self, name, n):
        raise Unsupported("vc.index is proof-mode only; use ensures_forall / int(hard_hi=True)")

    def assume(self, cond):
        if not bool(cond):
            raise SkipCase()

    def assume_forall(self, extents, fn, name=""):
        if not isinstance(extents, (tuple, list)):
            extents = (extents,)
        import itertools
        for idx in itertools.product(*[range(int(n)) for n in extents]):
            if not bool(fn(*idx)):
                raise SkipCase()

    def assume_lemma(self, name, cond=None, extents=None, fn=None):
        pass

    def instantiate_at(self, *terms, ext=None):
        pass

    # ---- code under contract ----------------------------------------------------------------------
    def _pycls(self, module, name):
        return getattr(importlib.import_module(module), name)

    def new(self, module, clsname, *args, **kwargs):
        cls = self._pycls(module, clsname)
        nat_args, nat_kw = _to_native(args), _to_native(kwargs)
        try:
            nat = cls(*nat_args, **nat_kw)
        except Exception as e:
            if self.may_raise:
                raise SkipCase()
            self._fail("no_unexpected_raise", f"{clsname}() raised {type(e).__name__}: {e}")
            raise SkipCase()
        ih = None
        if self.crosscheck:
            # (constructor arguments are registered like call arguments: an array the constructor keeps a reference to and the
            # caller later changes through vc.setitem is the same tensor on the interpreter side)
            i_args, i_kw = self._iargs(tuple(args)), self._iargs(dict(kwargs))
            ih = self._interp_do(lambda: self.I.instantiate(self.I.get_class(module, clsname), i_args, i_kw),
                                 f"{clsname}.__init__")
        return Handle(nat, ih)

    def obj(self, module, clsname, **fields):
        cls = self._pycls(module, clsname)
        nat = cls.__new__(cls)
        for k, v in _to_native(fields).items():
            object.__setattr__(nat, k, v)
        ih = None
        if self.crosscheck:
            ih = SymObj(self.I.get_class(module, clsname), dict(_to_interp(fields)))
        return Handle(nat, ih)

    def _iargs(self, x):
        """interpreter-side copy of the arguments, made BEFORE the native call; an array object passed again (possibly changed in
        place through vc.setitem in between) maps to the same interpreter tensor, so aliasing is preserved"""
        if not self.crosscheck:
            return None
        if isinstance(x, np.ndarray):
            al = self.__dict__.setdefault("_alias", {})
            ent = al.get(id(x))
            if ent is not None and ent[0] is x:
                try:
                    if _same(x, ent[1])[0]:
                        return ent[1]
                except Exception:
                    pass
            t = _to_interp(x)
            al[id(x)] = (x, t)
            return t
        if isinstance(x, tuple):
            return tuple(self._iargs(v) for v in x)
        if isinstance(x, dict):
            return {k: self._iargs(v) for k, v in x.items()}
        return _to_interp(x)

    def call(self, obj, method, *args, **kwargs):
        nat_obj = obj.native if isinstance(obj, Handle) else obj
        f = getattr(nat_obj, method)
        ia, ik = self._iargs(args), self._iargs(kwargs)
        return self._call(f, args, kwargs, f"{type(nat_obj).__name__}.{method}",
                          (lambda: self.I.call(self.I.get_attr(obj.interp, method), ia, ik))
                          if isinstance(obj, Handle) and obj.interp is not None else None)

    def callf(self, module, qualname, *args, **kwargs):
        mod = importlib.import_module(module)
        f = mod
        for p in qualname.split("."):
            f = getattr(f, p)
        ia, ik = self._iargs(args), self._iargs(kwargs)
        return self._call(f, args, kwargs, qualname,
                          lambda: self.I.call(self.I.get_function(module, qualname), ia, ik))

    def _call(self, f, args, kwargs, label, interp_thunk):
        import copy as _copy
        nat_args = _to_native(args)
        nat_kw = _to_native(kwargs)
        try:
            import warnings
            with warnings.catch_warnings():
                warnings.simplefilter("ignore")
                res = f(*nat_args, **nat_kw)
        except Exception as e:
            if self.may_raise:
                raise SkipCase()
            self._fail("no_unexpected_raise", f"{label} raised {type(e).__name__}: {e}")
            raise SkipCase()
        if self.crosscheck and interp_thunk is not None:
            ires = self._interp_do(interp_thunk, label)
            if ires is not _SKIP:
                self._compare(label, res, ires)
        return res

    def _interp_do(self, thunk, label):
        c = Ctx(concrete=True)
        old = Ctx.current
        Ctx.current = c
        try:
            return thunk()
        except Unsupported as e:
            self.cross_skipped.append(f"{label}: {e}")
            return _SKIP
        except RaisedInCode as e:
            self.cross_mismatch.append(f"{label}: interpreter raised {e.exc_name} but CPython did not")
            return _SKIP
        except PathAbort:
            return _SKIP
        except RecursionError:
            self.cross_skipped.append(f"{label}: recursion limit in the interpreter")
            return _SKIP
        except Exception as e:
            # the interpreter itself could not follow the (possibly changed) code: a limit of the cross-check, not a verdict
            self.cross_skipped.append(f"{label}: interpreter could not follow the code ({type(e).__name__}: {str(e)[:120]})")
            return _SKIP
        finally:
            Ctx.current = old

    def _compare(self, label, nat, itp):
        ok, why = _same(nat, itp)
        self.cross_compared += 1
        if not ok:
            self.cross_mismatch.append(f"{label}: {why}")

    def attr(self, obj, name):
        return getattr(obj.native if isinstance(obj, Handle) else obj, name)

    def setitem(self, arr, key, v):
        arr[key] = v
        ent = self.__dict__.get("_alias", {}).get(id(arr))
        if ent is not None and ent[0] is arr:
            c, old = Ctx(concrete=True), Ctx.current
            Ctx.current = c
            try:
                self.I.set_item(ent[1], key, _to_interp(v))
            except Exception:
                self._alias.pop(id(arr), None)
            finally:
                Ctx.current = old

    def ghost(self, name, fn):
        def ihandler(*a, **k):
            return _to_interp(fn(*_from_interp(a), **_from_interp(k)))
        return NatGhost(fn, GhostFn(name, ihandler))

    def deriv(self, value, dleaf):
        return None

    def setattr_prop(self, obj, name, v):
        import warnings
        with warnings.catch_warnings():
            warnings.simplefilter("ignore")
            setattr(obj.native, name, v)

    def setattr(self, obj, name, v):
        setattr(obj.native, name, v)
        if obj.interp is not None:
            obj.interp.fields[name] = _to_interp(v)

    class _Raises:
        def __init__(self, vc):
            self.vc = vc

        def __enter__(self):
            self.old = self.vc.may_raise
            self.vc.may_raise = True

        def __exit__(self, *a):
            self.vc.may_raise = self.old
            return False

    def raising_allowed(self):
        return NatVC._Raises(self)

    def expect_raise(self, name, thunk):
        old = self.may_raise
        self.may_raise = True
        try:
            try:
                thunk()
            except SkipCase:
                self.ensures(name, True)
                return
            self.ensures(name, False)
        finally:
            self.may_raise = old

    # ---- obligations ------------------------------------------------------------------------------
    def _fail(self, name, why):
        self.failures.append({"obligation": f"{self.name_prefix}.{name}", "why": why, "inputs": dict(self.inputs)})

    def ensures(self, name, cond, extra_terms=(), kind="ensures"):
        if len(name) > 4 and name[0] == "C" and name[3] == "/":
            if name[:3] != self.cdef.prop:
                return
            name = name[4:]
        self.checked.append(name)
        try:
            ok = bool(cond)
        except Exception as e:
            ok = False
        if not ok:
            self._fail(name, "run-time postcondition false")

    def ensures_forall(self, name, extents, fn, assuming=None):
        if not isinstance(extents, (tuple, list)):
            extents = (extents,)
        import itertools
        self.checked.append(name)
        for idx in itertools.product(*[range(int(n)) for n in extents]):
            if assuming is not None and not bool(assuming(*idx)):
                continue
            if not bool(fn(*idx)):
                self._fail(name, f"run-time postcondition false at index {idx}")
                return

    def ensures_exists(self, name, extent, fn, hints=()):
        self.checked.append(name)
        if not any(bool(fn(i)) for i in range(int(extent))):
            self._fail(name, "no witness index satisfies the run-time postcondition")

    def lemma(self, name, cond):
        self.ensures("lemma." + name, cond)

    def unchanged(self, name, x, before):
        self.checked.append(name)
        if x.shape != before.shape or not np.array_equal(x, before):
            self._fail(name, "caller's array was modified")

    def pylist(self, x):
        return [float(v) for v in x]

    def sort(self, x, axis=0):
        return np.sort(x, axis=axis)

    # ---- maths ------------------------------------------------------------------------------------
    pi = math.pi

    def log(self, x):
        with np.errstate(all="ignore"):
            return np.log(x)

    def exp(self, x):
        with np.errstate(all="ignore"):
            return np.exp(x)

    def sqrt(self, x):
        return np.sqrt(x)

    def log1pexp(self, x):
        return np.logaddexp(0.0, x)

    def abs(self, x):
        return np.abs(x)

    def sum(self, n, fn, lo=0):
        return math.fsum(float(fn(i)) for i in range(int(lo), int(n)))

    def _scale(self, a, b):
        return max(abs(float(a)), abs(float(b)))

    def eq(self, a, b, scale=None):
        a, b = float(a), float(b)
        if math.isnan(a) or math.isnan(b):
            return False
        if a == b:
            return True
        if math.isinf(a) or math.isinf(b):
            return False            # an infinite value only equals the same infinity
        s = self._scale(a, b) if scale is None else float(scale)
        return abs(a - b) <= self.atol + self.rtol * s

    def le(self, a, b, scale=None):
        a, b = float(a), float(b)
        if math.isnan(a) or math.isnan(b):
            return False
        if math.isinf(a) or math.isinf(b):
            return a <= b
        s = self._scale(a, b) if scale is None else float(scale)
        return a <= b + self.atol + self.rtol * s

    def lt(self, a, b, scale=None):
        return float(a) < float(b)

    def ge(self, a, b, scale=None):
        return self.le(b, a, scale)

    def gt(self, a, b, scale=None):
        return float(a) > float(b)

    @staticmethod
    def And(*xs):
        return all(bool(x) for x in xs)

    @staticmethod
    def Or(*xs):
        return any(bool(x) for x in xs)

    @staticmethod
    def Not(x):
        return not bool(x)

    @staticmethod
    def Implies(a, b):
        return (not bool(a)) or bool(b)

    @staticmethod
    def ite(c, a, b):
        return a if c else b

    def to_int(self, x):
        return int(x)

    def floor(self, x):
        return math.floor(x)

    def shape(self, x):
        return tuple(np.shape(x))

    def is_array(self, x):
        return isinstance(x, np.ndarray)

    def ndim(self, x):
        return np.ndim(x)

    def note(self, s):
        pass

    def writes_to_inputs(self):
        return []


_SKIP = object()


def _jsonable(v):
    if isinstance(v, np.ndarray):
        return v.tolist()
    if isinstance(v, (np.floating, np.integer)):
        return v.item()
    if isinstance(v, (list, tuple)):
        return [_jsonable(x) for x in v]
    return v


def _to_native(x):
    if isinstance(x, Handle):
        return x.native
    if isinstance(x, dict):
        return {k: _to_native(v) for k, v in x.items()}
    if isinstance(x, tuple):
        return tuple(_to_native(v) for v in x)
    if isinstance(x, list):
        return [_to_native(v) for v in x]
    if isinstance(x, NatGhost):
        return x.native
    return x


def _to_interp(x):
    if isinstance(x, Handle):
        return x.interp
    if isinstance(x, np.ndarray):
        a = x.copy()
        if a.dtype == bool:
            return Tensor(a.shape, lambda *idx: bool(a[tuple(int(i) for i in idx)]), dtype="bool")
        if np.issubdtype(a.dtype, np.integer):
            return Tensor(a.shape, lambda *idx: int(a[tuple(int(i) for i in idx)]), dtype="int")
        return Tensor(a.shape, lambda *idx: float(a[tuple(int(i) for i in idx)]))
    if isinstance(x, (np.floating,)):
        return float(x)
    if isinstance(x, (np.integer,)):
        return int(x)
    if isinstance(x, dict):
        return {k: _to_interp(v) for k, v in x.items()}
    if isinstance(x, tuple):
        return tuple(_to_interp(v) for v in x)
    if isinstance(x, list):
        return [_to_interp(v) for v in x]
    if isinstance(x, NatGhost):
        return x.interp
    return x


def _from_interp(x):
    if isinstance(x, Tensor):
        shp = tuple(int(unwrap(d)) for d in x.shape)
        a = np.zeros(shp)
        import itertools
        for idx in itertools.product(*[range(d) for d in shp]):
            a[idx] = float(x.at(*idx))
        return a
    if isinstance(x, dict):
        return {k: _from_interp(v) for k, v in x.items()}
    if isinstance(x, tuple):
        return tuple(_from_interp(v) for v in x)
    if isinstance(x, list):
        return [_from_interp(v) for v in x]
    return x


class NatGhost:
    def __init__(self, native, interp):
        self.native, self.interp = native, interp


def _same(nat, itp, rtol=1e-7, atol=1e-9):
    """compare CPython result with the interpreter's concrete result"""
    if isinstance(nat, tuple) or isinstance(nat, list):
        if isinstance(itp, SymList):
            itp = [itp.at(i) for i in range(itp.length())]
        if isinstance(itp, Tensor):
            return _same(np.array(nat), itp)
        if not isinstance(itp, (tuple, list)) or len(itp) != len(nat):
            return False, f"sequence shape differs: {type(itp).__name__}"
        for a, b in zip(nat, itp):
            ok, why = _same(a, b)
            if not ok:
                return ok, why
        return True, ""
    if isinstance(nat, np.ndarray):
        if isinstance(itp, (int, float)) and nat.ndim == 0:
            itp = Tensor((), lambda: itp)
        if not isinstance(itp, Tensor):
            return False, f"CPython returned ndarray{nat.shape}, interpreter {type(itp).__name__}"
        shp = tuple(int(unwrap(s)) for s in itp.shape)
        if shp != nat.shape:
            return False, f"shape {nat.shape} vs interpreter {shp}"
        import itertools
        for idx in itertools.product(*[range(s) for s in shp]):
            a = nat[idx]
            b = itp.at(*idx)
            if isinstance(b, Tensor):
                b = b.at()
            try:
                a, b = float(a), float(b)
            except Exception:
                return False, f"non-numeric element {b!r}"
            if (math.isnan(a) and math.isnan(b)) or a == b:
                continue
            if not (abs(a - b) <= atol + rtol * max(abs(a), abs(b))):
                return False, f"element {idx}: {a} vs interpreter {b}"
        return True, ""
    if isinstance(nat, (float, int, np.floating, np.integer)) and not isinstance(nat, bool):
        if isinstance(itp, Tensor) and itp.ndim == 0:
            itp = itp.at()
        if isinstance(itp, Tensor):
            return False, "scalar vs tensor"
        try:
            a, b = float(nat), float(itp)
        except Exception:
            return False, f"scalar vs {itp!r}"
        if (math.isnan(a) and math.isnan(b)) or a == b:
            return True, ""
        if abs(a - b) <= atol + rtol * max(abs(a), abs(b)):
            return True, ""
        return False, f"{a} vs interpreter {b}"
    if isinstance(nat, (bool, np.bool_)):
        return (bool(nat) == bool(itp)), f"{nat} vs {itp}"
    if nat is None:
        return itp is None, f"None vs {itp!r}"
    return True, ""  # objects: not compared structurally
