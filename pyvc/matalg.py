"""Abstract matrix algebra for dense linear-algebra code (Cholesky / triangular solves / products).

A `Mat` IS a Tensor (its elements are terms `E_word(i, j)` of uninterpreted element functions, so every element-wise
numpy operation of the engine keeps working on it) that additionally carries a NORMAL FORM: a finite sum of words over
named matrix atoms,

        M  =  sum_w  coef_w * a_1 a_2 ... a_k            (a_i an atom or a transposed atom)

The algebraic operations the code performs (`@`, `.T`, `+`, `-`, scaling, row/column scaling written as broadcast
products, outer products, `solve_triangular`, `cholesky`, `eye`, `diag`, sums of products) are executed on the normal
form with these -- and only these -- laws, each an axiom of the layer (listed in the evidence as assumptions):

  ring laws     associativity, distributivity, (AB)^T = B^T A^T, (A^T)^T = A, scalars commute
  symmetry      S^T = S for atoms declared symmetric (a kernel matrix, a data covariance, an inverse of a symmetric sum)
  inverse       X^-1 X = X X^-1 = I
  Cholesky      L = cholesky(X):  L^-T L^-1 = X^-1,  X^-1 L = L^-T,  L^T X^-1 = L^-1,  sum_i log L_ii = logdet(X)/2
  triangular    solve_triangular(L, B, lower=True) = L^-1 B ;  solve_triangular(L.T, B) = L^-T B
  diagonal      Diag(a) Diag(b) = Diag(b) Diag(a);   1^T Diag(a) = a^T;   (Diag(a) b)_i = a_i b_i
  trace         sum_ij (A o B)_ij = tr(A^T B);  tr is cyclic and invariant under transposition
  scalars       a 1x1 product equals its transpose

Two matrices are proved equal when their normal forms agree word by word (coefficients compared by the SMT solver);
scalar words become SMT constants, so scalar identities are discharged by the solver with congruence.  The layer is
sound for refutation only through the bounded layer: a normal-form mismatch is reported as a failed obligation whose
counter-example is searched natively."""
from __future__ import annotations
import z3
from . import sym as S
from .sym import Sym, Unsupported, ctx, unwrap
from .tensor import Tensor, dim_eq, dim_is


class Atom:
    __slots__ = ("name", "rows", "cols", "symmetric", "kind", "params", "meta")

    def __init__(self, name, rows, cols, symmetric=False, kind="gen", params=(), meta=None):
        self.name, self.rows, self.cols = name, rows, cols
        self.symmetric, self.kind, self.params, self.meta = symmetric, kind, tuple(params), meta

    def __repr__(self):
        return self.name


def _akey(a):
    return a.name + ("" if not a.params else "<" + ",".join(str(p) for p in a.params) + ">")


def wkey(word):
    return "*".join(_akey(a) + ("'" if t else "") for a, t in word) or "I"


def wtranspose(word):
    return tuple((a, (not t) if not a.symmetric else False) for a, t in reversed(word))


REG = {}      # per-context registries live on the Ctx (uf_cache); this is only the key


def _used(what):
    from . import npmodel
    npmodel.USED.add("matrix layer axiom: " + what)


def _reg():
    c = ctx()
    return c.uf_cache.setdefault("matalg", {"chol": {}, "inv": {}, "diag": {}, "atoms": {}, "ginv": {}})


# ---- word reduction ---------------------------------------------------------------------------------------------
def _reduce(word):
    word = list(word)
    changed = True
    while changed:
        changed = False
        for i in range(len(word) - 1):
            (a, ta), (b, tb) = word[i], word[i + 1]
            # identity atoms vanish
            # inverse pairs
            if a.kind in ("inv", "cholinv") and a.meta is b and ta == tb:
                del word[i:i + 2]; changed = True; break
            if b.kind in ("inv", "cholinv") and b.meta is a and ta == tb:
                del word[i:i + 2]; changed = True; break
            # Cholesky laws (meta of cholinv = its chol atom; chol atom meta = dict with 'inv' atom)
            if a.kind == "cholinv" and b is a and ta and not tb:              # L^-T L^-1 = X^-1
                word[i:i + 2] = [(a.meta.meta["inv"], False)]; changed = True; break
            if a.kind == "inv" and b.kind == "chol" and b.meta.get("inv") is a and not tb:   # X^-1 L = L^-T
                word[i:i + 2] = [(b.meta["cholinv"], True)]; changed = True; break
            if a.kind == "chol" and ta and b.kind == "inv" and a.meta.get("inv") is b:       # L^T X^-1 = L^-1
                word[i:i + 2] = [(a.meta["cholinv"], False)]; changed = True; break
            # diagonal matrices commute: canonical order
            if a.kind == "diag" and b.kind == "diag" and _akey(a) > _akey(b):
                word[i], word[i + 1] = word[i + 1], word[i]; changed = True; break
        if changed:
            continue
        # Diag(u) v = Diag(v) u when the rest of the word is a column vector: canonical choice of which is the Diag
        for i in range(len(word) - 1):
            a, ta = word[i]
            if a.kind != "diag":
                continue
            rest = tuple(word[i + 1:])
            last, tl = rest[-1]
            if not dim_is(last.rows if tl else last.cols, 1):
                continue
            if any(x.kind in ("sel",) for x, _ in rest[:-1]):
                continue
            u = tuple(a.meta)
            if _okey(rest) < _okey(u):
                word[i:] = [(_diag_atom(rest, a.rows), False)] + list(u); changed = True; break
        if changed:
            continue
        # the mirror image on the left: u^T Diag(v) = v^T Diag(u) for a leading row vector
        for i in range(1, len(word)):
            a, ta = word[i]
            if a.kind != "diag":
                continue
            head = tuple(word[:i])
            first, tf = head[0]
            if not dim_is(first.cols if tf else first.rows, 1):
                continue
            u = tuple(a.meta)
            hcol = wtranspose(head)
            if _okey(hcol) < _okey(u):
                word[:i + 1] = list(wtranspose(u)) + [(_diag_atom(hcol, a.rows), False)]; changed = True; break
    return tuple(word)


def _diag_atom(word, n):
    reg = _reg()
    word = tuple(word)
    k = wkey(word) + "|" + ",".join(str(p) for p in _params_of(word))
    if k not in reg["diag"]:
        reg["diag"][k] = Atom("D(" + wkey(word) + ")", n, n, symmetric=True, kind="diag", meta=word)
    return reg["diag"][k]


def _okey(word):
    return (wname(word), wkey(word))


def _canon_scalar(word):
    wt = wtranspose(word)
    return word if _okey(word) <= _okey(wt) else wt


def _canon_trace(word):
    best = None
    for w in (tuple(word), wtranspose(word)):
        for r in range(max(len(w), 1)):
            cand = w[r:] + w[:r]
            cand = _reduce(cand)
            if best is None or _okey(cand) < _okey(best):
                best = cand
    return best


def _params_of(word):
    """all parameters of the atoms of a word, in order (they become arguments of the word's element function)"""
    out = []
    for a, _ in word:
        out.extend(a.params)
        if a.kind == "diag":
            out.extend(_params_of(a.meta))
    return out


def wname(word):
    """name of a word without parameter values"""
    def an(a):
        if a.kind == "diag":
            return "D(" + wname(a.meta) + ")"
        return a.name + ("<>" if a.params else "")
    return "*".join(an(a) + ("'" if t else "") for a, t in word) or "I"


def _ufun(name, nparams, nidx):
    c = ctx()
    cache = c.uf_cache.setdefault("matalg_funs", {})
    key = (name, nparams, nidx)
    if key not in cache:
        cache[key] = z3.Function(name, *([z3.IntSort()] * (nparams + nidx)), z3.RealSort())
    return cache[key]


def word_elem(word, i, j):
    """element (i, j) of the product `word` (2-D view)"""
    word = tuple(word)
    if not word:
        return S.ite(S.cmp("==", i, j), 1, 0)
    a, t = word[0]
    if a.kind == "sel" and not t:                          # e_k^T W : row k of W
        if len(word) == 1:
            return S.ite(S.cmp("==", j, _p(a.params[0])), 1, 0)
        return word_elem(word[1:], _p(a.params[0]), j)
    b, tb = word[-1]
    if b.kind == "sel" and tb:                             # W e_k : column k of W
        return word_elem(word[:-1], i, _p(b.params[0]))
    if a.kind == "diag":
        d = word_elem(a.meta, i, 0)
        if len(word) == 1:
            return S.ite(S.cmp("==", i, j), d, 0)
        return S.mul(d, word_elem(word[1:], i, j))
    if b.kind == "diag":
        return S.mul(word_elem(word[:-1], i, j), word_elem(b.meta, j, 0))
    if len(word) == 1:
        if a.kind == "tensor":
            tz = a.meta
            if tz.ndim == 1:
                return tz.at(j if t else i)
            return tz.at(j, i) if t else tz.at(i, j)
        if a.kind == "elem":                               # atom with a given element function
            return a.meta(j, i) if t else a.meta(i, j)
        if a.kind == "ones":
            return 1
    # uninterpreted element function of the canonical orientation of the word
    wt = wtranspose(word)
    sym_word = wkey(word) == wkey(wt)
    if _okey(wt) < _okey(word):
        word, i, j = wt, j, i
    ps = _params_of(word)
    f = _ufun("E[" + wname(word) + "]", len(ps), 2)
    ctx().uf_cache.setdefault("matalg_words", {})[f.name()] = word
    zi, zj = S.z(i), S.z(j)
    e = f(*[S.z(p) for p in ps], zi, zj)
    if sym_word and not zi.eq(zj):
        ctx().defs.append(e == f(*[S.z(p) for p in ps], zj, zi))
    return Sym(e)


def _p(v):
    return v.as_long() if z3.is_int_value(v) else Sym(v)


def _rows_of(el):
    a, t = el
    return a.cols if t else a.rows


def trace_const(word):
    # a trace that can be rotated into a 1x1 product is that scalar:  tr(A y y^T B) = y^T B A y
    word = tuple(word)
    for r in range(len(word)):
        rot = word[r:] + word[:r]
        if rot and dim_is(_rows_of(rot[0]), 1):
            return word_elem(_canon_scalar(_reduce(rot)), 0, 0)
    w = _canon_trace(word)
    if not w:
        raise Unsupported("trace of the identity")
    ps = _params_of(w)
    f = _ufun("tr[" + wname(w) + "]", len(ps), 0)
    return Sym(f(*[S.z(p) for p in ps])) if ps else Sym(z3.Real("tr[" + wname(w) + "]"))


# ---- the matrix value -------------------------------------------------------------------------------------------
def _cadd(a, b):
    if isinstance(a, (int, float)) and isinstance(b, (int, float)):
        return a + b
    return S.add(a, b)


def _cmul(a, b):
    if isinstance(a, (int, float)) and isinstance(b, (int, float)):
        return a * b
    return S.mul(a, b)


def _czero(c):
    return isinstance(c, (int, float)) and c == 0


class Mat(Tensor):
    """rows x cols matrix in normal form; `vec` = presented to the code as a 1-D array (a column internally);
    `lead` = number of leading singleton axes (numpy broadcasting of stacked matrices with one element)"""

    def __init__(self, rows, cols, nf, vec=False, lead=0):
        self.rows, self.cols, self.vec, self.lead = rows, cols, vec, lead
        self.nf = {}
        for w, c in nf.items():
            w = _reduce(w)
            if dim_is(rows, 1) and dim_is(cols, 1):
                w = _canon_scalar(w)
            if w in self.nf:
                c = _cadd(self.nf[w], c)
            if _czero(c):
                self.nf.pop(w, None)
            else:
                self.nf[w] = c
        shape = ((rows,) if vec else (rows, cols))
        shape = (1,) * lead + shape
        super().__init__(shape, self._elem, origin="matalg")

    def _elem(self, *idx):
        idx = idx[self.lead:]
        if self.vec:
            i, j = idx[0], 0
        else:
            i, j = idx
        tot = 0
        for w, c in self.nf.items():
            tot = S.add(tot, S.mul(c, word_elem(w, i, j)))
        return tot

    # -- helpers
    def with_nf(self, nf, rows=None, cols=None, vec=None, lead=None):
        return Mat(self.rows if rows is None else rows, self.cols if cols is None else cols, nf,
                   self.vec if vec is None else vec, self.lead if lead is None else lead)

    def as2d(self):
        return self if not self.vec else Mat(self.rows, 1, self.nf, False, self.lead)

    def is_scalar_shape(self):
        return dim_is(self.rows, 1) and dim_is(self.cols, 1)

    def scalar(self):
        return self._elem(*([0] * self.ndim))

    def key(self):
        return "+".join(f"{c}*{wkey(w)}" for w, c in sorted(self.nf.items(), key=lambda kv: wkey(kv[0])))

    # -- algebra
    @property
    def T(self):
        if self.vec:
            return self
        return Mat(self.cols, self.rows, {wtranspose(w): c for w, c in self.nf.items()}, False, self.lead)

    def _t2(self):
        return Mat(self.cols, self.rows, {wtranspose(w): c for w, c in self.nf.items()}, False, 0)

    def scale(self, s):
        return self.with_nf({w: _cmul(c, s) for w, c in self.nf.items()})

    def __neg__(self):
        return self.scale(-1)

    def _same_shape(self, o):
        return self.vec == o.vec and dim_eq(self.rows, o.rows) and dim_eq(self.cols, o.cols)

    def __add__(self, o):
        o = _as_mat_like(o, self)
        if isinstance(o, Mat) and self._same_shape(o):
            nf = dict(self.nf)
            for w, c in o.nf.items():
                nf[w] = _cadd(nf[w], c) if w in nf else c
            return self.with_nf(nf, lead=max(self.lead, o.lead))
        return Tensor.__add__(self, o)

    __radd__ = __add__

    def __sub__(self, o):
        o2 = _as_mat_like(o, self)
        if isinstance(o2, Mat) and self._same_shape(o2):
            return self + (-o2)
        return Tensor.__sub__(self, o)

    def __rsub__(self, o):
        o2 = _as_mat_like(o, self)
        if isinstance(o2, Mat) and self._same_shape(o2):
            return o2 + (-self)
        return Tensor.__rsub__(self, o)

    def __iadd__(self, o):
        return self + o

    def __isub__(self, o):
        return self - o

    def __mul__(self, o):
        if _is_scalar(o):
            return self.scale(_scalar_of(o))
        if isinstance(o, Mat):          # (a plain tensor operand keeps its element-wise meaning: no wrapping here)
            r = hadamard(self, o)
            if r is not None:
                return r
        return Tensor.__mul__(self, o)

    def __rmul__(self, o):
        if _is_scalar(o):
            return self.scale(_scalar_of(o))
        if isinstance(o, Mat):
            r = hadamard(o, self)
            if r is not None:
                return r
        return Tensor.__rmul__(self, o)

    def __imul__(self, o):
        return self * o

    def __truediv__(self, o):
        if _is_scalar(o):
            return self.scale(S.div(1, _scalar_of(o)))
        return Tensor.__truediv__(self, o)

    def __pow__(self, o):
        if isinstance(unwrap(o), int) and unwrap(o) == 2:
            return self * self
        return Tensor.__pow__(self, o)

    def __matmul__(self, o):
        o2 = _as_mat_like(o, None)
        if isinstance(o2, Mat):
            return mat_matmul(self, o2)
        return Tensor.__matmul__(self, o)

    def __rmatmul__(self, o):
        o2 = _as_mat_like(o, None)
        if isinstance(o2, Mat):
            return mat_matmul(o2, self)
        return Tensor.__rmatmul__(self, o)

    def dot(self, o):
        return self @ o

    def sum(self, axis=None):
        if axis is not None:
            return Tensor.sum(self, axis)
        m = self.as2d()
        out = 0
        for w, c in m.nf.items():
            out = S.add(out, S.mul(c, _sum_word(w, m.rows, m.cols)))
        return out

    def squeeze(self, axis=None):
        if axis is not None:
            return Tensor.squeeze(self, axis)
        m = self.as2d()
        if dim_is(m.rows, 1) and dim_is(m.cols, 1):
            return m.scalar()
        if dim_is(m.cols, 1):
            return Mat(m.rows, 1, m.nf, True, 0)
        if dim_is(m.rows, 1):
            t = m._t2()
            return Mat(t.rows, 1, t.nf, True, 0)
        return Mat(m.rows, m.cols, m.nf, False, 0)

    def copy(self):
        return self.with_nf(dict(self.nf))

    def __getitem__(self, key):
        if not isinstance(key, tuple):
            key = (key,)
        full = lambda k: isinstance(k, slice) and k.start is None and k.stop is None and k.step is None
        if self.lead == 0:
            if self.vec and len(key) == 2 and full(key[0]) and key[1] is None:        # v[:, None]
                return Mat(self.rows, 1, self.nf, False, 0)
            if self.vec and len(key) == 2 and key[0] is None and full(key[1]):        # v[None, :]
                return Mat(self.rows, 1, self.nf, False, 0)._t2()
            if not self.vec and len(key) == 2 and key[0] is None and full(key[1]):    # M[None, :]
                return Mat(self.rows, self.cols, self.nf, False, 1)
            if not self.vec and len(key) == 3 and key[0] is None and full(key[1]) and full(key[2]):
                return Mat(self.rows, self.cols, self.nf, False, 1)
            if not self.vec and len(key) == 2 and full(key[1]) and isinstance(unwrap(key[0]), int) \
                    and unwrap(key[0]) == 0 and dim_is(self.rows, 1):                   # row[0, :]
                t = self._t2()
                return Mat(t.rows, 1, t.nf, True, 0)
            if not self.vec and len(key) == 2 and full(key[0]) and full(key[1]):
                return self
            if len(key) == 1 and full(key[0]):
                return self
        return Tensor.__getitem__(self, key)

    def __repr__(self):
        return f"Mat({self.rows}x{self.cols}{' vec' if self.vec else ''}: {self.key()})"


def _sum_word(w, rows, cols):
    """1^T W 1"""
    w = tuple(w)
    if dim_is(rows, 1) and dim_is(cols, 1):
        return word_elem(_canon_scalar(w), 0, 0)
    if len(w) == 1 and w[0][0].kind == "tensor":          # a wrapped element-wise tensor: its own sum
        from .tensor import reduce_sum
        tz = w[0][0].meta
        return reduce_sum(Tensor(tz.shape, tz._fn), None)
    if w and w[0][0].kind == "diag" and dim_is(cols, 1):
        # 1^T Diag(a) rest = a^T rest
        a = w[0][0].meta
        return word_elem(_canon_scalar(_reduce(wtranspose(a) + w[1:])), 0, 0)
    if w and w[-1][0].kind == "diag" and dim_is(rows, 1):
        a = w[-1][0].meta
        return word_elem(_canon_scalar(_reduce(w[:-1] + tuple(a))), 0, 0)
    ones_r = _intern(Atom("1", rows, 1, kind="ones"))
    ones_c = _intern(Atom("1", cols, 1, kind="ones"))
    full = ((ones_r, True),) if not dim_is(rows, 1) else ()
    full = full + w + (((ones_c, False),) if not dim_is(cols, 1) else ())
    return word_elem(_canon_scalar(_reduce(full)), 0, 0)


def _is_scalar(o):
    o = unwrap(o) if not isinstance(o, (Tensor,)) else o
    if isinstance(o, (int, float, Sym)) or z3.is_expr(o):
        return True
    if isinstance(o, Mat):
        return False
    if isinstance(o, Tensor) and o.ndim == 0:
        return True
    return False


def _scalar_of(o):
    if isinstance(o, Tensor) and o.ndim == 0:
        return o.at()
    if z3.is_expr(o):
        return Sym(o)
    return o


def _as_mat_like(o, like):
    """a Mat for `o` when it is one already or a plain tensor that can be wrapped as an atom"""
    if isinstance(o, Mat):
        return o
    if isinstance(o, Tensor) and getattr(o, "is_identity", False):
        return identity(o.shape[0])
    if isinstance(o, Tensor) and o.ndim in (1, 2) and getattr(o, "dtype", "real") != "bool":
        return wrap_tensor(o)
    return o


def wrap_tensor(t, name=None, symmetric=False):
    reg = _reg()
    key = ("tensor", t.alloc)
    if key not in reg["atoms"]:
        fz = t.frozen()
        rows = t.shape[0]
        cols = 1 if t.ndim == 1 else t.shape[1]
        reg["atoms"][key] = Atom(name or f"T{t.alloc}", rows, cols, symmetric=symmetric, kind="tensor", meta=fz)
    a = reg["atoms"][key]
    return Mat(a.rows, a.cols, {((a, False),): 1}, vec=(t.ndim == 1))


def atom(name, rows, cols=None, symmetric=False, params=(), vec=False, elem=None):
    """contract-side constructor of a named matrix / vector"""
    reg = _reg()
    key = ("named", name, tuple(str(p) for p in params))
    if key not in reg["atoms"]:
        reg["atoms"][key] = Atom(name, rows, 1 if cols is None else cols, symmetric=symmetric,
                                 kind="elem" if elem is not None else "gen", params=tuple(S.z(p) for p in params), meta=elem)
    a = reg["atoms"][key]
    return Mat(a.rows, a.cols, {((a, False),): 1}, vec=vec or cols is None)


def _intern(a):
    reg = _reg()
    key = ("intern", a.kind, _akey(a), str(a.rows), str(a.cols))
    if key not in reg["atoms"]:
        reg["atoms"][key] = a
    return reg["atoms"][key]


def selector(k, m):
    """e_k^T (1 x m): picks row k"""
    a = _intern(Atom("e", 1, m, kind="sel", params=(S.z(k),)))
    return Mat(1, m, {((a, False),): 1})


def identity(n):
    return Mat(n, n, {(): 1})


def _diag_of(m):
    """Diag(m) for a column / vector Mat: linear in the normal form"""
    m2 = m.as2d()
    _used("broadcast products with a row / column vector are products with Diag(.): Diag(a) Diag(b) = Diag(b) Diag(a), "
          "Diag(a) b = Diag(b) a, 1^T Diag(a) = a^T, (Diag(a) B)_ij = a_i B_ij")
    if not dim_is(m2.cols, 1):
        m2 = m2._t2()
        if not dim_is(m2.cols, 1):
            raise Unsupported("Diag of a full matrix")
    nf = {}
    for w, c in m2.nf.items():
        nf[((_diag_atom(w, m2.rows), False),)] = c
    return Mat(m2.rows, m2.rows, nf)


def mat_diag(x):
    if isinstance(x, Mat) and (x.vec or dim_is(x.cols, 1) or dim_is(x.rows, 1)):
        return _diag_of(x)
    return None


def hadamard(a, b):
    """broadcast element-wise product with an algebraic meaning, or None"""
    lead = max(a.lead, b.lead)
    A, B = a.as2d(), b.as2d()
    if a.vec and b.vec:
        if not dim_eq(A.rows, B.rows):
            return None
        r = mat_matmul2(_diag_of(A), B)
        return Mat(r.rows, 1, r.nf, True, lead)
    # numpy broadcasting of a 1-D array: it is a ROW
    if a.vec:
        A = A._t2()
    if b.vec:
        B = B._t2()
    one = lambda d: dim_is(d, 1)
    if one(A.rows) and one(A.cols):
        return None
    if one(B.rows) and one(B.cols):
        return None
    if dim_eq(A.rows, B.rows) and dim_eq(A.cols, B.cols) and not (one(A.rows) or one(A.cols)):
        return HadamardTensor(A, B, lead)
    res = None
    if one(B.rows) and dim_eq(A.cols, B.cols):           # (r x c) * (1 x c): scale the columns
        res = mat_matmul2(A, _diag_of(B))
    elif one(A.rows) and dim_eq(A.cols, B.cols):
        res = mat_matmul2(B, _diag_of(A))
    elif one(B.cols) and dim_eq(A.rows, B.rows):         # (r x c) * (r x 1): scale the rows
        res = mat_matmul2(_diag_of(B), A)
    elif one(A.cols) and dim_eq(A.rows, B.rows):
        res = mat_matmul2(_diag_of(A), B)
    elif one(A.cols) and one(B.rows):                    # (r x 1) * (1 x c): outer product
        res = mat_matmul2(A, B)
    elif one(A.rows) and one(B.cols):
        res = mat_matmul2(B, A)
    if res is None:
        return None
    both_vec_like = (a.vec or b.vec) and one(res.rows)
    if both_vec_like and a.vec and b.vec:
        t = res._t2()
        return Mat(t.rows, 1, t.nf, True, lead)
    return Mat(res.rows, res.cols, res.nf, False, lead)


class HadamardTensor(Tensor):
    """element-wise product of two full matrices: element-wise as a tensor, tr(A^T B) when summed"""

    def __init__(self, A, B, lead=0):
        self.A, self.B, self.lead = A, B, lead
        super().__init__((1,) * lead + (A.rows, A.cols), lambda *idx: S.mul(A.at(*idx[lead:]), B.at(*idx[lead:])))

    def sum(self, axis=None):
        if axis is not None:
            return Tensor.sum(self, axis)
        _used("sum_ij (A o B)_ij = tr(A^T B); the trace is cyclic and invariant under transposition")
        At = self.A._t2()
        out = 0
        for w1, c1 in At.nf.items():
            for w2, c2 in self.B.nf.items():
                out = S.add(out, S.mul(_cmul(c1, c2), trace_const(_reduce(w1 + w2))))
        return out


def mat_matmul2(A, B):
    if not dim_eq(A.cols, B.rows):
        raise Unsupported(f"matmul inner dimensions not provably equal: {A.cols} vs {B.rows}")
    nf = {}
    for w1, c1 in A.nf.items():
        for w2, c2 in B.nf.items():
            w = _reduce(w1 + w2)
            c = _cmul(c1, c2)
            nf[w] = _cadd(nf[w], c) if w in nf else c
    return Mat(A.rows, B.cols, _absorb_inverses(nf))


def _absorb_inverses(nf):
    """X X^-1 = X^-1 X = I for an inverse of a SUM  X = sum_w c_w w  (created by `solve`): a group of words
    P0 w X^-1 R (all w of X, coefficients lambda c_w) is lambda P0 R; likewise P0 X^-1 w R"""
    reg = _reg()
    if not reg["ginv"]:
        return nf
    changed = True
    while changed:
        changed = False
        for Xi, X in reg["ginv"].values():
            xw = {tuple(w): c for w, c in X.nf.items()}
            if not all(isinstance(c, (int, float)) for c in xw.values()):
                continue
            for side in ("right", "left"):
                groups = {}
                for w, c in nf.items():
                    if not isinstance(c, (int, float)):
                        continue
                    for p, (a, t) in enumerate(w):
                        if a is not Xi or t:
                            continue
                        for x_w in xw:
                            L = len(x_w)
                            if side == "right" and p >= L and tuple(w[p - L:p]) == x_w:
                                groups.setdefault((w[:p - L], w[p + 1:]), {})[x_w] = (w, c)
                            if side == "left" and tuple(w[p + 1:p + 1 + L]) == x_w:
                                groups.setdefault((w[:p], w[p + 1 + L:]), {})[x_w] = (w, c)
                for (P0, R), found in groups.items():
                    if set(found) != set(xw):
                        continue
                    lam = {round(found[k][1] / xw[k], 12) for k in xw}
                    if len(lam) != 1:
                        continue
                    lam = lam.pop()
                    if len({found[k][0] for k in xw}) != len(xw):
                        continue
                    for k in xw:
                        nf.pop(found[k][0], None)
                    tgt = _reduce(tuple(P0) + tuple(R))
                    c_new = _cadd(nf.get(tgt, 0), lam)
                    if _czero(c_new):
                        nf.pop(tgt, None)
                    else:
                        nf[tgt] = c_new
                    changed = True
                    break
                if changed:
                    break
            if changed:
                break
    return nf


def general_inverse(X):
    """X^-1 for a square matrix in normal form (numpy/scipy `solve`); no symmetry assumed"""
    if not isinstance(X, Mat) or X.vec or not dim_eq(X.rows, X.cols):
        raise Unsupported("solve with a non-abstract or non-square matrix")
    reg = _reg()
    _used("solve(X, B) = X^-1 B with X X^-1 = X^-1 X = I (X assumed invertible)")
    k = X.key()
    if k not in reg["ginv"]:
        Xi = Atom(f"inv({k})", X.rows, X.rows, symmetric=False, kind="inv", meta=_single_atom(X))
        reg["ginv"][k] = (Xi, Mat(X.rows, X.cols, dict(X.nf)))
    Xi = reg["ginv"][k][0]
    return Mat(X.rows, X.cols, {((Xi, False),): 1})


def solve(X, B):
    Bm = _as_mat_like(B, None)
    if not isinstance(Bm, Mat):
        raise Unsupported("solve right-hand side")
    return mat_matmul(general_inverse(X), Bm)


def mat_matmul(a, b):
    lead = max(a.lead, b.lead)
    A = a.as2d()._t2() if a.vec else Mat(a.rows, a.cols, a.nf)
    B = b.as2d() if b.vec else Mat(b.rows, b.cols, b.nf)
    R = mat_matmul2(A, B)
    if a.vec and b.vec:
        return R.scalar()
    if a.vec:
        t = R._t2()
        return Mat(t.rows, 1, t.nf, True, lead)
    if b.vec:
        return Mat(R.rows, 1, R.nf, True, lead)
    return Mat(R.rows, R.cols, R.nf, False, lead)


# ---- Cholesky / triangular solves ------------------------------------------------------------------------------------
def cholesky(X):
    if not isinstance(X, Mat) or X.vec or not dim_eq(X.rows, X.cols):
        raise Unsupported("cholesky of a non-abstract matrix")
    reg = _reg()
    _used("ring laws of matrix products/transposes; S^T = S for declared-symmetric atoms; a 1x1 product equals its transpose")
    _used("L = cholesky(X): L^-T L^-1 = X^-1, X^-1 L = L^-T, L^T X^-1 = L^-1, sum_i log L_ii = logdet(X)/2; "
          "solve_triangular(L, B, lower=True) = L^-1 B, solve_triangular(L.T, B) = L^-T B")
    k = X.key()
    if k not in reg["chol"]:
        n = X.rows
        L = Atom(f"chol({k})", n, n, kind="chol", meta={})
        Li = Atom(f"chol({k})^-1", n, n, kind="cholinv", meta=L)
        Xi = Atom(f"inv({k})", n, n, symmetric=True, kind="inv", meta=None)
        L.meta.update({"inv": Xi, "cholinv": Li, "of": X})
        Xi.meta = _single_atom(X)                      # X^-1 X = I only when X is one atom
        reg["chol"][k] = (L, Li, Xi)
        reg["inv"][k] = Xi
    L = reg["chol"][k][0]
    return Mat(X.rows, X.cols, {((L, False),): 1})


def _single_atom(X):
    if len(X.nf) == 1:
        (w, c), = X.nf.items()
        if len(w) == 1 and isinstance(c, (int, float)) and c == 1:
            return w[0][0]
    return None


def inverse_of(X):
    """contract-side: the inverse of the symmetric matrix X (the one `cholesky(X)` factors)"""
    cholesky(X)
    Xi = _reg()["inv"][X.key()]
    return Mat(X.rows, X.cols, {((Xi, False),): 1})


def logdet_of(X):
    cholesky(X)
    return Sym(z3.Real("logdet(" + X.key() + ")"))


def solve_triangular(Lm, B, lower=False, trans=0):
    if not isinstance(Lm, Mat) or len(Lm.nf) != 1:
        raise Unsupported("solve_triangular: the matrix is not a Cholesky factor of the abstract layer")
    (w, c), = Lm.nf.items()
    if len(w) == 1 and w[0][0].kind != "chol" and isinstance(c, (int, float)) and c == 1 and isinstance(unwrap(trans), int) \
            and unwrap(trans) == 0:
        # an arbitrary named matrix (e.g. a stale factor left over from an earlier configuration): the solve with its stated
        # triangle is an opaque linear map, named after the matrix -- no law connects it to anything else
        A, t = w[0]
        ti = _intern(Atom(f"trisolve[{_akey(A)}{chr(39) if t else ''},{'lower' if bool(unwrap(lower)) else 'upper'}]",
                          Lm.rows, Lm.cols, kind="gen"))
        Bm = _as_mat_like(B, None)
        if not isinstance(Bm, Mat):
            raise Unsupported("solve_triangular right-hand side")
        return mat_matmul(Mat(Lm.rows, Lm.cols, {((ti, False),): 1}), Bm)
    if len(w) != 1 or w[0][0].kind != "chol" or not (isinstance(c, (int, float)) and c == 1):
        raise Unsupported("solve_triangular: the matrix is not a Cholesky factor of the abstract layer")
    unw = unwrap(trans)
    if not (isinstance(unw, int) and unw == 0):
        raise Unsupported("solve_triangular(trans=...)")
    L, t = w[0]
    low = bool(unwrap(lower))
    # numpy reads only the stated triangle: lower=True with L, or lower=False (default) with L^T, are the exact solves
    if (low and t) or (not low and not t):
        raise Unsupported("solve_triangular reading the zero triangle of a Cholesky factor")
    Li = L.meta["cholinv"]
    inv = Mat(Lm.rows, Lm.cols, {((Li, t),): 1})
    Bm = _as_mat_like(B, None)
    if not isinstance(Bm, Mat):
        raise Unsupported("solve_triangular right-hand side")
    return mat_matmul(inv, Bm)


class CholDiag(Tensor):
    """diagonal(L) of a Cholesky factor: positive; sum(log(.)) = logdet(X)/2"""

    def __init__(self, Lm):
        self.Lm = Lm
        (w, _), = Lm.nf.items()
        self.L = w[0][0]
        super().__init__((Lm.rows,), lambda i: Lm.at(i, i))

    def log_hook(self):
        return LogCholDiag(self)


class LogCholDiag(Tensor):
    def __init__(self, cd):
        self.cd = cd
        from . import npmodel as N
        super().__init__(cd.shape, lambda i: N.np_log(cd.at(i)))

    def sum(self, axis=None):
        X = self.cd.L.meta["of"]
        return S.mul(S.div(1, 2), logdet_of(X))


def diagonal(M):
    if isinstance(M, Mat) and len(M.nf) == 1:
        (w, c), = M.nf.items()
        if len(w) == 1 and w[0][0].kind == "chol" and isinstance(c, (int, float)) and c == 1:
            return CholDiag(M)
    if isinstance(M, Mat):
        m = M.as2d()
        return Tensor((m.rows,), lambda i: m.at(i, i))
    return None


# ---- equality and calculus -----------------------------------------------------------------------------------------
def mat_eq(A, B):
    """normal-form equality as one boolean (coefficients compared by the solver)"""
    if not (isinstance(A, Mat) and isinstance(B, Mat)):
        raise Unsupported("mat_eq on non-abstract values")
    ctx().matrix_compare = True          # (a mismatch of normal forms is "not proved equal", not a counter-example: see run.py)
    if A.vec != B.vec or not dim_eq(A.rows, B.rows) or not dim_eq(A.cols, B.cols):
        return False
    conds = []
    for w in set(A.nf) | set(B.nf):
        ca, cb = A.nf.get(w, 0), B.nf.get(w, 0)
        if isinstance(ca, (int, float)) and isinstance(cb, (int, float)):
            if abs(ca - cb) > 0:
                return False
            continue
        conds.append(S.cmp("==", ca, cb))
    return S.And(*conds) if conds else True


def dmat(M, datom):
    """derivative of a normal form by the product rule; datom(atom, transposed) -> Mat (2-D) or None for constants.
    Built-in:  d(X^-1) = -X^-1 dX X^-1  (X the matrix the inverse atom was created for),  d Diag(w) = Diag(dw)"""
    M2 = M.as2d()
    _used("matrix calculus: product rule, d(X^-1) = -X^-1 dX X^-1, d logdet X = tr(X^-1 dX)")
    out = Mat(M2.rows, M2.cols, {})
    for w, c in M2.nf.items():
        for pos, (a, t) in enumerate(w):
            da = _datom(a, t, datom)
            if da is None:
                continue
            left = Mat(M2.rows, da.rows, {tuple(w[:pos]): 1}) if pos else None
            right = Mat(da.cols, M2.cols, {tuple(w[pos + 1:]): 1}) if pos + 1 < len(w) else None
            term = da
            if left is not None:
                term = mat_matmul2(left, term)
            if right is not None:
                term = mat_matmul2(term, right)
            out = out + term.scale(c)
    if M.vec:
        return Mat(out.rows, 1, out.nf, True, M.lead)
    return out


def _datom(a, t, datom):
    if a.kind == "inv":
        X = None
        for k, (L, Li, Xi) in _reg()["chol"].items():
            if Xi is a:
                X = L.meta["of"]
        dX = dmat(X, datom)
        if not dX.nf:
            return None
        Xi_m = Mat(a.rows, a.cols, {((a, False),): 1})
        return mat_matmul2(mat_matmul2(Xi_m, dX), Xi_m).scale(-1)
    if a.kind == "diag":
        wv = Mat(a.rows, 1, {tuple(a.meta): 1})
        dv = dmat(wv, datom)
        if not dv.nf:
            return None
        return _diag_of(dv)
    if a.kind in ("chol", "cholinv"):
        raise Unsupported("derivative of a Cholesky factor (state the specification with the inverse)")
    r = datom(a, t)
    if r is None:
        return None
    r = r.as2d()
    return r._t2() if t and not a.symmetric else r


def trace_of(M):
    M2 = M.as2d()
    out = 0
    for w, c in M2.nf.items():
        out = S.add(out, S.mul(c, trace_const(w)))
    return out


def elem_derivative(e, datom):
    """derivative of an element term E[word](params..., i, j) of the layer: element (i, j) of d(word); None when `e` is
    not such a term or the word does not depend on the variable"""
    words = ctx().uf_cache.get("matalg_words", {})
    nm = e.decl().name()
    if nm not in words:
        return None
    word = words[nm]
    nps = len(_params_of(word))
    # parameters are positions (indices), not functions of the differentiation variable: the atoms of the word carry
    # the same parameter terms as the arguments of e only for the instance it was created with; rebuild generically
    if nps:
        raise Unsupported("derivative of a parameterised matrix element")
    i, j = e.arg(0), e.arg(1)
    rows = _rows_of(word[0])
    a, t = word[-1]
    cols = a.rows if t else a.cols
    dM = dmat(Mat(rows, cols, {tuple(word): 1}), datom)
    if not dM.nf:
        return None
    return S.z(dM.at(_p(i) if z3.is_int_value(i) else Sym(i), _p(j) if z3.is_int_value(j) else Sym(j)))
