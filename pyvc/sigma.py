"""Reductions over a symbolic extent.

sum_{k<n} body(k) is normalised into  sum_j coef_j * ATOM_j  where every coef_j is free of the bound
index and every ATOM_j is an uninterpreted symbol standing for sum_k core_j(k).  Two atoms over the same
extent share their symbol when z3 proves the cores pointwise equal at the (canonical) bound index.  This
is the linearity + congruence of finite sums and nothing else; it is what lets "code sum == spec sum" be
decided for every length n.
"""
from __future__ import annotations
import z3
from .sym import Sym, ctx, z, unwrap, wrap, to_real, Unsupported, is_sym


class Atom:
    __slots__ = ("sym", "core", "extent", "depth", "bound", "lo")

    def __init__(self, sym, core, extent, depth, bound, lo):
        self.sym, self.core, self.extent, self.depth, self.bound, self.lo = sym, core, extent, depth, bound, lo


def contains(e, v):
    vid = v.get_id()
    seen = set()
    stack = [e]
    while stack:
        t = stack.pop()
        i = t.get_id()
        if i in seen:
            continue
        seen.add(i)
        if i == vid:
            return True
        stack.extend(t.children())
    return False


def _mk_mul(fs):
    fs = [f for f in fs if not (z3.is_rational_value(f) and f.as_fraction() == 1)]
    if not fs:
        return z3.RealVal(1)
    r = fs[0]
    for f in fs[1:]:
        r = r * f
    return r


def split_linear(e, k):
    """-> list of (coef, core); e == sum coef*core, coef free of k; core None means the constant 1.
    The body is expanded into monomials (products distributed over sums, index-free factors pulled into
    the coefficient) so that code and specification reach the same additive normal form."""
    e = to_real(e) if z3.is_int(e) else e
    monos = _expand(e, k, [0])
    if monos is None:
        monos = [(z3.RealVal(1), [e])] if contains(e, k) else [(e, [])]
    out = []
    for cf, deps in monos:
        if not deps:
            out.append((cf, None))
        else:
            deps = sorted(deps, key=lambda d: d.get_id())
            out.append((cf, _mk_mul([to_real(d) for d in deps])))
    return out


LIMIT = 96


def _expand(e, k, budget):
    """-> list of (coef, [dependent factors]) or None when the expansion would be too large"""
    if not contains(e, k):
        return [(to_real(e), [])]
    if z3.is_app(e):
        kind = e.decl().kind()
        ch = e.children()
        if kind == z3.Z3_OP_ADD:
            out = []
            for c in ch:
                r = _expand(c, k, budget)
                if r is None:
                    return None
                out.extend(r)
            return out if len(out) <= LIMIT else None
        if kind == z3.Z3_OP_SUB:
            out = _expand(ch[0], k, budget)
            if out is None:
                return None
            out = list(out)
            for c in ch[1:]:
                r = _expand(c, k, budget)
                if r is None:
                    return None
                out.extend((-cf, d) for cf, d in r)
            return out if len(out) <= LIMIT else None
        if kind == z3.Z3_OP_UMINUS:
            r = _expand(ch[0], k, budget)
            return None if r is None else [(-cf, d) for cf, d in r]
        if kind == z3.Z3_OP_MUL:
            acc = [(z3.RealVal(1), [])]
            for c in ch:
                r = _expand(c, k, budget)
                if r is None:
                    return None
                acc = [(a_cf * r_cf, a_d + r_d) for a_cf, a_d in acc for r_cf, r_d in r]
                if len(acc) > LIMIT:
                    return None
            return acc
        if kind == z3.Z3_OP_DIV:
            num, den = ch
            r = _expand(num, k, budget)
            if r is None:
                return None
            if not contains(den, k):
                return [(cf / to_real(den), d) for cf, d in r]
            inv = 1 / to_real(den)
            return [(cf, d + [inv]) for cf, d in r]
        if kind == z3.Z3_OP_TO_REAL:
            inner = ch[0]
            if _is_additive(inner) or (z3.is_app(inner) and inner.decl().kind() == z3.Z3_OP_MUL):
                return _expand(_push_toreal(inner), k, budget)
    return [(z3.RealVal(1), [e])]


def _is_additive(e):
    if not z3.is_app(e):
        return False
    kd = e.decl().kind()
    if kd in (z3.Z3_OP_ADD, z3.Z3_OP_SUB, z3.Z3_OP_UMINUS):
        return True
    if kd == z3.Z3_OP_TO_REAL:
        return _is_additive(e.arg(0))
    return False


def _push_toreal(e):
    kind = e.decl().kind()
    ch = [z3.ToReal(c) for c in e.children()]
    if kind == z3.Z3_OP_MUL:
        r = ch[0]
        for c in ch[1:]:
            r = r * c
        return r
    if kind == z3.Z3_OP_ADD:
        return z3.Sum(ch)
    if kind == z3.Z3_OP_SUB:
        r = ch[0]
        for c in ch[1:]:
            r = r - c
        return r
    return -ch[0]


def _prove_eq(c, a, b, guard, timeout=3000):
    s = z3.Solver()
    s.set("timeout", timeout)
    for h in c.hypotheses():
        s.add(h)
    for g in guard:
        s.add(g)
    s.add(a != b)
    return s.check() == z3.unsat


def bound_var(depth):
    return z3.Int(f"sk{depth}")


def sigma(n, body_fn, lo=0):
    """sum_{lo <= k < n} body_fn(k)"""
    n = unwrap(n)
    lo = unwrap(lo)
    if isinstance(n, int) and isinstance(lo, int):
        tot = 0
        for i in range(lo, n):
            tot = tot + body_fn(i)
        return tot
    c = ctx()
    # an extent that is provably lo+1 on this path (e.g. after numpy squeezed a length-1 axis)
    if c.pc and _prove_eq(c, z(n), z(lo) + 1, []):
        return body_fn(lo)
    depth = len(c.bound_stack)
    k = bound_var(depth)
    c.bound_stack.append(k)
    c.bound_guards.append([k >= z(lo), k < z(n)])
    c.add_index_term(k)
    if c.is_nonneg(z(lo)):
        c.mark_nonneg(k)
    try:
        body = body_fn(Sym(k))
    finally:
        c.bound_stack.pop()
        c.bound_guards.pop()
    body = unwrap(body)
    if not z3.is_expr(body):
        body = z(body)
    zn = z(n)
    zlo = z(lo)
    total = None
    for coef, core in split_linear(body, k):
        if core is None:
            term = to_real(coef) * to_real(zn - zlo)
        else:
            atom = _atom(c, core, zn, zlo, depth, k)
            term = to_real(coef) * atom
        total = term if total is None else total + term
    return wrap(z3.simplify(total, som=False))


def _atom(c, core, zn, zlo, depth, k):
    core_s = z3.simplify(core)
    guard = [k >= zlo, k < zn]
    structural = getattr(c, "sigma_merge", None) == "structural"     # opt-in: no solver calls while merging sums (the
    # obligation-time pointwise congruence check then identifies equal sums with one query)
    for a in c.sigma_atoms:
        if structural:
            if a.depth == depth and a.extent.eq(zn) and a.lo.eq(zlo) and a.core.eq(core_s) \
                    and a.bound == tuple(x.get_id() for x in c.bound_stack):
                return a.sym
            continue
        if a.depth != depth:
            continue
        if not (a.extent.eq(zn) or _prove_eq(c, a.extent, zn, [], timeout=1000)):
            continue
        if not (a.lo.eq(zlo) or _prove_eq(c, a.lo, zlo, [], timeout=1000)):
            continue
        if a.bound != tuple(x.get_id() for x in c.bound_stack):
            continue
        if a.core.eq(core_s) or _prove_eq(c, a.core, core_s, guard):
            return a.sym
    idx = len(c.sigma_atoms)
    name = f"Sig!{idx}"
    if c.bound_stack:
        f = z3.Function(name, *([z3.IntSort()] * len(c.bound_stack)), z3.RealSort())
        sym = f(*c.bound_stack)
    else:
        sym = z3.Real(name)
    c.sigma_atoms.append(Atom(sym, core_s, zn, depth, tuple(x.get_id() for x in c.bound_stack), zlo))
    c.sigma_table[sym.get_id()] = c.sigma_atoms[-1]
    return sym


def exists_forall(n, cond_fn, kind):
    """`.any()` / `.all()` over a symbolic extent: returns a Bool with a skolem witness and a universal
    fact registered in the context"""
    n = unwrap(n)
    if isinstance(n, int):
        vals = [cond_fn(i) for i in range(n)]
        from .sym import Or, And
        if not vals:
            return kind == "all"
        return Or(*vals) if kind == "any" else And(*vals)
    c = ctx()
    b = c.fresh("any" if kind == "any" else "all", "Bool")
    w = c.fresh("wit", "Int")
    c.mark_nonneg(w)
    from .sym import _b
    cw = _b(cond_fn(Sym(w)))
    if kind == "any":
        c.defs.append(z3.Implies(b, z3.And(w >= 0, w < n, cw)))
        c.add_forall((n,), lambda i: z3.Implies(z3.Not(b), z3.Not(_b(cond_fn(i)))), "not-any")
    else:
        c.defs.append(z3.Implies(z3.Not(b), z3.And(w >= 0, w < n, z3.Not(cw))))
        c.add_forall((n,), lambda i: z3.Implies(b, _b(cond_fn(i))), "all")
    c.add_index_term(w)
    return Sym(b)
