"""Heap values for the MCMC contracts: a symbolic-length list of objects (fields as functions of the index),
random generators whose draws are fresh symbols with their law recorded in the ghost trace, and the
ghost posterior F."""
from __future__ import annotations
import z3
from . import sym as S
from .sym import Sym, ctx, Unsupported, unwrap
from .tensor import Tensor, SymList, _ite_any
from .interp import BoundMethod, FuncVal, SymObj, PropertyVal


def _same_index(a, b):
    a, b = unwrap(a), unwrap(b)
    if isinstance(a, int) and isinstance(b, int):
        return a == b
    za, zb = S.z(a), S.z(b)
    if za.eq(zb):
        return True
    return None


def ite_value(c, a, b):
    """ite over scalars / SymLists / tensors"""
    if not isinstance(c, Sym):
        return a if c else b
    if isinstance(a, SymList) or isinstance(b, SymList):
        if not (isinstance(a, SymList) and isinstance(b, SymList)):
            raise Unsupported("ite of list and non-list")
        la, lb = a.length(), b.length()
        fa, fb = a._fn, b._fn
        return SymList(S.ite(c, la, lb), lambda t: _ite_any(c, fa(t), fb(t)))
    return _ite_any(c, a, b)


class SymObjList:
    """list of `n` objects of class `cls`; fields[name](k) is the field of element k"""

    def __init__(self, cls, n, fields, method_fields=None, origin=None):
        self.cls, self.n, self.fields = cls, unwrap(n), dict(fields)
        self.method_fields = method_fields or {}
        self.origin = origin
        self.version = 0

    def length(self):
        return self.n

    def symbolic_length(self, I):
        return None if isinstance(self.n, int) else self.n

    def iter_at(self, I, k):
        return ElemProxy(self, k)

    def concrete_iter(self, I):
        return [ElemProxy(self, k) for k in range(self.n)]

    def get_item(self, I, key):
        if isinstance(key, slice):
            raise Unsupported("slice of object list")
        from .tensor import norm_index
        return ElemProxy(self, norm_index(key, self.n))

    def update(self, name, k, v):
        old = self.fields.get(name)
        if old is None:
            raise Unsupported(f"new field {name} on element of object list")

        def new(j):
            same = _same_index(j, k)
            if same is True:
                return v
            if same is False:
                return old(j)
            return ite_value(S.cmp("==", j, k), v, old(j))

        self.fields[name] = new
        self.version += 1
        c = ctx()
        if c is not None:
            c.writes.append((self, f"elem.{name}"))

    def havoc_field(self, name, fn):
        self.fields[name] = fn
        self.version += 1


class ElemProxy:
    """element k of a SymObjList, usable wherever the interpreter expects an object"""

    def __init__(self, lst, k):
        self.lst, self.k = lst, k
        self.cls = lst.cls

    def get_attr(self, I, name):
        lst = self.lst
        if name in lst.method_fields:
            kind = lst.fields[name](self.k)
            return DispatchMethod(self, lst.method_fields[name], kind)
        if name in lst.fields:
            v = lst.fields[name](self.k)
            if isinstance(v, SymList):
                return BoundList(lst, self.k, name, v)
            return v
        if name == "__class__":
            return lst.cls
        d, _ = lst.cls.lookup(name)
        if d is None:
            from .sym import RaisedInCode
            raise RaisedInCode("AttributeError")
        if isinstance(d, PropertyVal):
            return I.call_function(d.getter, [self], {})
        if isinstance(d, FuncVal):
            if d.kind == "static":
                return d
            return BoundMethod(d, self)
        return d

    def set_attr(self, I, name, v):
        lst = self.lst
        d, _ = lst.cls.lookup(name)
        if isinstance(d, PropertyVal):
            I.call_function(d.setter, [self, v], {})
            return
        if name in lst.method_fields:
            names = lst.method_fields[name]
            if not (isinstance(v, BoundMethod) and v.func.name in names):
                raise Unsupported(f"assignment of unknown callable to {name}")
            v = names.index(v.func.name)
        if isinstance(v, BoundList):
            v = v.snapshot()
        lst.update(name, self.k, v)

    def __repr__(self):
        return f"Elem({self.lst.cls.name}[{self.k}])"


class DispatchMethod:
    """a method-valued field with a symbolic selector: calling it case-splits over the real methods"""

    def __init__(self, proxy, names, kind):
        self.proxy, self.names, self.kind = proxy, names, kind

    wants_interp = True

    def __call__(self, I, *args, **kwargs):
        kind = self.kind
        for i, nm in enumerate(self.names[:-1]):
            if bool(S.cmp("==", kind, i)):
                f, _ = self.proxy.cls.lookup(nm)
                return I.call_function(f, [self.proxy] + list(args), kwargs)
        f, _ = self.proxy.cls.lookup(self.names[-1])
        return I.call_function(f, [self.proxy] + list(args), kwargs)


class BoundList(SymList):
    """a list-valued field of an element: mutations are written back into the object list"""

    def __init__(self, lst, k, name, cur):
        super().__init__(cur.length(), cur._fn)
        self.lst, self.k, self.name = lst, k, name

    def snapshot(self):
        return SymList(self.length_, self._fn)

    def append(self, v):
        super().append(v)
        self.lst.update(self.name, self.k, self.snapshot())

    def setitem(self, k, v):
        super().setitem(k, v)
        self.lst.update(self.name, self.k, self.snapshot())


# ---------------------------------------------------------------------------------------------------
# random generators
# ---------------------------------------------------------------------------------------------------


class RngModel:
    """numpy Generator: every draw is a fresh symbol; its law is recorded in the ghost trace"""

    is_rng = True
    vc_attrs = ("normal", "standard_normal", "random", "integers", "uniform", "exponential", "shuffle", "choice", "permutation")

    def __init__(self, name="rng"):
        self.name = name

    def normal(self, loc=0.0, scale=1.0, size=None):
        c = ctx()
        if size is None and (isinstance(loc, Tensor) or isinstance(scale, Tensor)):
            shape = (loc if isinstance(loc, Tensor) else scale).shape
            stem = str(c.fresh("xiv", "Int"))
            f = z3.Function(stem, *([z3.IntSort()] * len(shape)), z3.RealSort())
            xi = Tensor(shape, lambda *idx: Sym(f(*[S.z(i) for i in idx])))
            c.trace.append(("draw", "normal_vec", xi, loc, scale))
            return Tensor.broadcast(Tensor.broadcast(xi, scale, S.mul), loc, S.add)
        if size is None:
            xi = Sym(c.fresh("xi", "Real"))
            c.trace.append(("draw", "normal", xi, loc, scale))
            return S.add(loc, S.mul(scale, xi))
        n = size
        stem = str(c.fresh("xiv", "Int"))
        f = z3.Function(stem, z3.IntSort(), z3.RealSort())
        xi = Tensor((n,), lambda i: Sym(f(S.z(i))))
        c.trace.append(("draw", "normal_vec", xi, loc, scale))
        if isinstance(loc, (int, float)) and isinstance(scale, (int, float)) and loc == 0 and scale == 1:
            return xi
        return Tensor.broadcast(Tensor.broadcast(xi, scale, S.mul), loc, S.add)

    def standard_normal(self, size=None):
        if isinstance(size, (tuple, list)):
            if len(size) != 1:
                raise Unsupported("rng.standard_normal with a multi-dimensional size")
            size = size[0]
        return self.normal(0.0, 1.0, size)

    def random(self, size=None):
        c = ctx()
        if size is not None:
            raise Unsupported("rng.random(size)")
        u = c.fresh("u", "Real")
        c.defs.append(z3.And(u >= 0, u < 1))
        c.trace.append(("draw", "uniform01", Sym(u)))
        return Sym(u)

    def uniform(self, low=0.0, high=1.0, size=None):
        c = ctx()
        if size is None and not isinstance(low, Tensor) and not isinstance(high, Tensor):
            u = c.fresh("uu", "Real")
            c.defs.append(z3.And(u >= 0, u < 1))
            c.trace.append(("draw", "uniform", Sym(u), low, high))
            return S.add(low, S.mul(S.sub(high, low), Sym(u)))
        if isinstance(low, Tensor) or isinstance(high, Tensor):
            shape = (low if isinstance(low, Tensor) else high).shape
        else:
            shape = (size,) if not isinstance(size, (tuple, list)) else tuple(size)
        stem = str(c.fresh("uuv", "Int"))
        f = z3.Function(stem, *([z3.IntSort()] * len(shape)), z3.RealSort())
        c.add_forall(shape, lambda *idx: z3.And(f(*[S.z(i) for i in idx]) >= 0, f(*[S.z(i) for i in idx]) < 1), "u01")
        U = Tensor(shape, lambda *idx: Sym(f(*[S.z(i) for i in idx])))
        c.trace.append(("draw", "uniform_vec", U, low, high))
        return Tensor.broadcast(low, Tensor.broadcast(Tensor.broadcast(high, low, S.sub), U, S.mul), S.add)

    def integers(self, low, high=None, size=None):
        c = ctx()
        if high is None:
            low, high = 0, low
        k = c.fresh("ri", "Int")
        c.defs.append(z3.And(k >= S.z(low), k < S.z(high)))
        c.trace.append(("draw", "integers", Sym(k), low, high))
        return Sym(k)

    def exponential(self, scale=1.0, size=None):
        c = ctx()
        if isinstance(scale, Tensor):
            shape = scale.shape
            stem = str(c.fresh("ev", "Int"))
            f = z3.Function(stem, *([z3.IntSort()] * len(shape)), z3.RealSort())
            c.add_forall(shape, lambda *idx: f(*[S.z(i) for i in idx]) >= 0, "e>=0")
            E = Tensor(shape, lambda *idx: Sym(f(*[S.z(i) for i in idx])))
            c.trace.append(("draw", "exponential_vec", E, scale))
            return Tensor.broadcast(scale, E, S.mul)
        e = c.fresh("e1", "Real")
        c.defs.append(e >= 0)
        c.trace.append(("draw", "exponential", Sym(e), scale))
        return S.mul(scale, Sym(e))


# ---------------------------------------------------------------------------------------------------
# ghost posterior
# ---------------------------------------------------------------------------------------------------

ARR = z3.ArraySort(z3.IntSort(), z3.RealSort())
F = z3.Function("F", ARR, z3.RealSort())


def as_array(t):
    """a fresh z3 array constant holding the contents of a 1-d tensor: arr[j] == t[j] for every index
    (a universally quantified fact, instantiated like the others).  A lambda term is deliberately not used:
    symbols created while evaluating the tensor at the lambda's bound index would have to depend on it."""
    c = ctx()
    fz = t.frozen()
    # two tensors with the same contents (same element term at a canonical index) share the array constant
    K = z3.Int("K_arr")
    c._instantiating = True
    c.bound_stack.append(K)
    try:
        key = ("as_array", z3.simplify(S.to_real(S.z(fz.at(Sym(K))))).sexpr(), str(t.shape[0]))
    finally:
        c.bound_stack.pop()
        c._instantiating = False
    if key in c.uf_cache:
        return c.uf_cache[key]
    name = str(c.fresh("pt", "Int")) + "_a"
    arr = z3.Const(name, ARR)
    c.uf_cache[key] = arr
    n = t.shape[0]
    c.add_forall((n,), lambda j: arr[S.z(j)] == S.to_real(S.z(fz.at(j))), f"{name}-contents")
    return arr


class PosteriorGhost:
    """the user's log-density: an uninterpreted function of the point; every evaluation is logged"""

    def __init__(self, name="posterior"):
        self.name = name

    wants_interp = False

    def __call__(self, x):
        c = ctx()
        if not isinstance(x, Tensor) or x.ndim != 1:
            raise Unsupported("posterior called with a non 1-d array")
        snap = x.copy()
        arr = as_array(snap)
        val = F(arr)
        c.trace.append(("posterior", arr, snap, val))
        return Sym(val)


def posterior_calls(since=0):
    return [ev for ev in ctx().trace[since:] if ev[0] == "posterior"]


def draws(kind=None, since=0):
    return [ev for ev in ctx().trace[since:] if ev[0] == "draw" and (kind is None or ev[1] == kind)]
