"""Scalar symbolic values, the path-forking context and obligations.

A scalar is either a plain Python number/bool (concrete) or a `Sym` wrapping a z3 term of sort
Int, Real or Bool.  All arithmetic goes through the helper functions below so that the same
interpreter runs symbolically (z3 terms) and concretely (Python floats) -- the second mode is the
CPython cross-check of the encoder.
"""
from __future__ import annotations
import math
import itertools
from fractions import Fraction
import z3
import os

# --------------------------------------------------------------------------------------------
# context
# --------------------------------------------------------------------------------------------


_PI = z3.Real("pi")
_LOG = z3.Function("log", z3.RealSort(), z3.RealSort())
_EXP = z3.Function("exp", z3.RealSort(), z3.RealSort())
PI_AXIOMS = [_PI > z3.RealVal("3.14159265358"), _PI < z3.RealVal("3.14159265359"),
             _LOG(z3.RealVal(1)) == 0, _EXP(z3.RealVal(0)) == 1]


PIN = []


def eid(e):
    """id of a z3 term for use as a cache key; the term is pinned so that the id cannot be reused by another
    term after garbage collection (a stale cache hit would be unsound)"""
    PIN.append(e)
    return e.get_id()


class Unsupported(Exception):
    """code outside the verified subset -> undecided, never a violation"""


class PathAbort(Exception):
    """current path ended (infeasible, or cut at a loop head)"""


class RaisedInCode(Exception):
    """the interpreted code executed a `raise`"""

    def __init__(self, exc_name, node=None):
        super().__init__(exc_name)
        self.exc_name = exc_name
        self.node = node


class Obligation:
    __slots__ = ("name", "hyps", "goal", "path", "kind", "meta", "smt2", "verdict", "time", "backend",
                 "values", "getvals")

    def __init__(self, name, hyps, goal, path, kind="ensures", meta=None, getvals=None):
        self.name = name
        self.hyps = hyps
        self.goal = goal
        self.path = path
        self.kind = kind
        self.meta = meta or {}
        self.smt2 = None
        self.verdict = None
        self.time = 0.0
        self.backend = None
        self.values = None
        self.getvals = getvals or []


class Ctx:
    """One exploration of one contract: path condition, definitions, decision prefix."""

    current: "Ctx" = None

    def __init__(self, concrete=False):
        self.concrete = concrete
        self.reset_run([])
        self.worklist = []
        self.obligations = []
        self.paths = 0
        self.feas_timeout_ms = 1500
        self.path_records = []

    # -- per path ---------------------------------------------------------------------------
    def reset_run(self, prefix):
        self.prefix = list(prefix)
        self.cursor = 0
        self.ob_seq = -1
        self.pc = []  # decisions taken (z3 Bool)
        self.defs = list(PI_AXIOMS)  # definitions of fresh symbols / assumed preconditions / axiom instances
        self.foralls = []  # (arity, extents, closure) universally quantified facts
        self.index_terms = []  # z3 Int terms used to instantiate foralls
        self._index_keys = set()
        self._instantiating = False
        self.counter = itertools.count()
        self.names = {}
        self.floordiv_cache = {}
        self.uf_cache = {}
        self.trace = []  # ghost trace (posterior evaluations, draws, writes ...)
        self.writes = []  # in-place writes: (target object, description)
        self.sigma_table = {}  # z3 const id -> SigmaInfo
        self.sigma_atoms = []
        self.ax_done = set()
        self.notes = []
        self.bound_stack = []  # z3 Int consts bound by an enclosing Sigma / generic evaluation
        # opt-in (set by a contract): separate arguments of uninterpreted functions by exact evaluation before
        # asking the solver.  Only for contracts without equational hypotheses between uninterpreted terms, since
        # the evaluation ignores the hypotheses.
        self.numeric_filter = False
        self.bound_guards = []  # range facts of the bound indices on the stack (parallel to bound_stack)
        self.nonneg = {}  # z3 term id -> bool: integer terms known to be >= 0 (no negative-index wrap)

    def fresh(self, base, sort="Real"):
        k = self.names.get(base, 0)
        self.names[base] = k + 1
        name = base if k == 0 else f"{base}!{k}"
        if self.bound_stack:
            # a symbol created while evaluating the body of a reduction depends on the bound index
            rs = {"Real": z3.RealSort(), "Int": z3.IntSort(), "Bool": z3.BoolSort()}[sort]
            f = z3.Function(name, *([z3.IntSort()] * len(self.bound_stack)), rs)
            return f(*self.bound_stack)
        if sort == "Real":
            return z3.Real(name)
        if sort == "Int":
            return z3.Int(name)
        if sort == "Bool":
            return z3.Bool(name)
        raise ValueError(sort)

    def assume(self, f):
        f = unwrap(f)
        if f is True:
            return
        if f is False:
            raise PathAbort("assumed false")
        self.defs.append(f)

    def add_forall(self, extents, closure, name=""):
        """closure(*idx) -> z3 Bool; holds for all 0 <= idx_k < extents[k]"""
        self.foralls.append({"extents": tuple(extents), "closure": closure, "name": name, "inst": {}})

    def add_index_term(self, t, ext=None):
        """register an integer term at which universal facts are instantiated; `ext` (an extent term)
        restricts it to quantifier positions ranging over that extent"""
        if self._instantiating:
            return
        t = unwrap(t)
        if isinstance(t, int):
            t = z3.IntVal(t)
        ext = unwrap(ext)
        if isinstance(ext, int):
            ext = z3.IntVal(ext)
        key = (eid(t), None if ext is None else eid(ext))
        if key in self._index_keys:
            return
        self._index_keys.add(key)
        self.index_terms.append((t, ext))

    def hypotheses(self, extra_terms=()):
        """pc + defs + instances of the universal facts at the registered index terms (quantifier-free;
        instances are cached and instantiation itself does not register new terms)"""
        hyps = list(self.defs) + list(self.pc)
        for g in self.bound_guards:
            hyps.extend(g)
        terms = list(self.index_terms)
        for t in extra_terms:
            t = unwrap(t)
            if isinstance(t, int):
                t = z3.IntVal(t)
            if not any(u.eq(t) and e is None for u, e in terms):
                terms.append((t, None))
        if self._instantiating:
            # re-entered from inside a closure being instantiated (a closure whose body asks the solver something):
            # the instances made so far are used, no new ones are made (fewer hypotheses is always sound)
            for fa in self.foralls:
                hyps.extend(f for f in fa["inst"].values() if f is not None)
            return hyps
        self._instantiating = True
        try:
            for fa in self.foralls:
                extents, closure, inst = fa["extents"], fa["closure"], fa["inst"]
                pools = []
                for n in extents:
                    zn = unwrap(n)
                    if isinstance(zn, int):
                        zn = z3.IntVal(zn)
                    if not z3.is_expr(zn):
                        raise Unsupported(f"universal fact '{fa.get('name')}' over a non-integer extent {zn!r}")
                    pool = [u for u, e in terms if e is None or e.eq(zn)]
                    if z3.is_int_value(zn) and zn.as_long() <= 4:
                        # small concrete extents are instantiated exhaustively
                        have = {u.as_long() for u in pool if z3.is_int_value(u)}
                        pool = [u for u in pool if not z3.is_int_value(u) or u.as_long() < zn.as_long()]
                        pool += [z3.IntVal(v) for v in range(zn.as_long()) if v not in have]
                    pools.append(pool)
                for combo in itertools.product(*pools):
                    key = tuple(t.get_id() for t in combo)
                    if key in inst:
                        if inst[key] is not None:
                            hyps.append(inst[key])
                        continue
                    guard = []
                    for t, n in zip(combo, extents):
                        guard.append(t >= 0)
                        guard.append(t < unwrap(n))
                    try:
                        body = unwrap(closure(*[Sym(t) for t in combo]))
                    except PathAbort:
                        inst[key] = None
                        continue
                    if body is True:
                        inst[key] = None
                        continue
                    f = z3.Implies(z3.And(*guard), body if not isinstance(body, bool) else z3.BoolVal(body))
                    inst[key] = f
                    hyps.append(f)
        finally:
            self._instantiating = False
        return hyps

    def sigma_pointwise(self, goal):
        """an equality whose two sides differ by a linear combination of sums over ONE index range holds when the
        summands agree pointwise (congruence of finite sums).  Tried when the monomial-wise normal form did not
        already identify the sums: e.g. E/(1+E) - 1/(1+E) versus (E-1)/(1+E)."""
        try:
            ant = None
            g = goal
            if z3.is_app(g) and g.decl().kind() == z3.Z3_OP_IMPLIES:
                ant, g = g.children()
            if not (z3.is_app(g) and g.decl().kind() == z3.Z3_OP_EQ and z3.is_real(g.arg(0))):
                return goal
            atoms = [a for a in self.sigma_atoms if _contains_term(g, a.sym)]
            if len(atoms) < 2:
                return goal
            a0 = atoms[0]
            if any(a.depth != 0 for a in atoms):
                return goal
            if any(not a.extent.eq(a0.extent) or not a.lo.eq(a0.lo) for a in atoms):
                # ranges that are equal only under the hypotheses (and this goal's antecedent): one query
                sol0 = z3.Solver()
                sol0.set("timeout", 4000)
                for h in self.hypotheses():
                    sol0.add(h)
                if ant is not None:
                    sol0.add(ant)
                sol0.add(z3.Or(*[z3.Or(a.extent != a0.extent, a.lo != a0.lo) for a in atoms[1:]]))
                r0 = sol0.check()
                if os.environ.get("SIGMA_DEBUG"):
                    print("SIGMA-PW extents", r0, [str(a.extent)[:80] for a in atoms])
                if r0 != z3.unsat:
                    return goal
            diff = g.arg(0) - g.arg(1)
            zero = [(a.sym, z3.RealVal(0)) for a in atoms]
            resid = z3.simplify(z3.substitute(diff, *zero), som=True)
            if not (z3.is_rational_value(resid) and resid.as_fraction() == 0):
                # the part outside the sums must vanish on its own (under the hypotheses and this goal's antecedent)
                solr = z3.Solver()
                solr.set("timeout", 3000)
                for h in self.hypotheses():
                    solr.add(h)
                if ant is not None:
                    solr.add(ant)
                solr.add(resid != 0)
                if solr.check() != z3.unsat:
                    return goal           # something other than the sums is involved
                diff = diff - resid
            k = z3.Int("sk0")
            point = z3.substitute(diff, *[(a.sym, a.core) for a in atoms])
            sol = z3.Solver()
            sol.set("timeout", 1500)
            for h in self.hypotheses():
                sol.add(h)
            if ant is not None:
                sol.add(ant)
            sol.add(k >= a0.lo, k < a0.extent)
            sol.add(point != 0)
            rr = sol.check()
            exact_sat = rr == z3.sat        # the summands really differ at some index for some input: the goal stays as it is
            if rr == z3.unknown:
                # congruence usually suffices: retry with every non-linear product replaced by an uninterpreted function
                # of its (sorted) factors -- any proof found for arbitrary `mul` holds for the real product (a `sat` answer of
                # this abstraction means nothing)
                sol2 = z3.Solver()
                for h in self.hypotheses():
                    sol2.add(h)
                if ant is not None:
                    sol2.add(ant)
                sol2.add(k >= a0.lo, k < a0.extent)
                sol2.add(_abstract_products(point) != 0)
                import time as _t
                _t0 = _t.time()
                sol2.set("timeout", 1500)
                rr = sol2.check()
                if rr != z3.unsat:
                    # a fresh solver process on the same text is often far quicker than the long-lived in-process
                    # context (observed: 0.1 s against a 4 s timeout); then the exact (non-abstracted) query, which alone can
                    # also REFUTE pointwise equality
                    import subprocess, tempfile

                    def _ext(text, tools=("z3-new", "z3")):
                        with tempfile.NamedTemporaryFile("w", suffix=".smt2", prefix="pw_", delete=False) as tf:
                            tf.write(text)
                        try:
                            for tool in tools:
                                out = subprocess.run([tool, "-T:30", tf.name], capture_output=True, text=True).stdout.strip()
                                first = out.splitlines()[:1]
                                if first in (["unsat"], ["sat"]):
                                    return first[0]
                            return "unknown"
                        finally:
                            os.unlink(tf.name)
                    r_abs = _ext(sol2.to_smt2())
                    if r_abs == "unsat":
                        rr = z3.unsat
                    else:
                        r_ex = _ext(sol.to_smt2())
                        if r_ex == "unsat":
                            rr = z3.unsat
                        elif r_ex == "sat":
                            rr, exact_sat = z3.sat, True
                        else:
                            rr = z3.unknown
                if os.environ.get("SIGMA_DEBUG"):
                    print("SIGMA-PW abstracted", rr, round(_t.time() - _t0, 2))
            if rr != z3.unsat and not exact_sat:
                # neither proved nor refuted: a `sat` answer for the goal, in which the sums are unrelated constants, would be
                # spurious -- the driver reports UNDECIDED for it, never a violation
                self.pointwise_inconclusive = True
            if os.environ.get("SIGMA_DEBUG"):
                print("SIGMA-PW point", rr, str(point)[:600])
                open("/verif/scratch/pw_point.txt", "a").write(str(rr) + "\n" + str(z3.simplify(point)) + "\n\n" + sol.to_smt2() + "\n=====\n")
            if rr == z3.unsat:
                self.notes.append("sum equality discharged by pointwise congruence")
                return z3.BoolVal(True) if ant is None else z3.Implies(ant, z3.BoolVal(True))
        except z3.Z3Exception:
            pass
        return goal

    def mark_nonneg(self, t):
        t = unwrap(t)
        if z3.is_expr(t):
            self.nonneg[eid(t)] = True

    def is_nonneg(self, t):
        """is the integer term provably >= 0 under the current hypotheses? (cached)"""
        t = unwrap(t)
        if isinstance(t, int):
            return t >= 0
        i = eid(t)
        if i in self.nonneg:
            return self.nonneg[i]
        if self._instantiating:
            # instances are guarded by 0 <= index < extent: inside the guard the index is non-negative
            return True
        r = not self._feasible(t < 0)
        self.nonneg[i] = r
        return r

    # -- branching ---------------------------------------------------------------------------
    def decide(self, cond):
        """cond: z3 Bool. Returns the branch taken on this run, forking when both are feasible."""
        cond = z3.simplify(cond)
        if z3.is_true(cond):
            return True
        if z3.is_false(cond):
            return False
        if self.bound_stack:
            raise Unsupported("control flow depends on an element inside a reduction body")
        if self.cursor < len(self.prefix):
            b = self.prefix[self.cursor]
            self.cursor += 1
            self.pc.append(cond if b else z3.Not(cond))
            return b
        t_ok = self._feasible(cond)
        f_ok = self._feasible(z3.Not(cond))
        if t_ok and f_ok:
            self.worklist.append(self.prefix + [False])
            b = True
        elif t_ok:
            b = True
        elif f_ok:
            b = False
        else:
            raise PathAbort("infeasible path")
        self.prefix.append(b)
        self.cursor += 1
        self.pc.append(cond if b else z3.Not(cond))
        return b

    def _feasible(self, cond):
        s = z3.Solver()
        s.set("timeout", self.feas_timeout_ms)
        for h in self.hypotheses():
            s.add(h)
        s.add(cond)
        r = s.check()
        return r != z3.unsat

    def oblige(self, name, goal, kind="ensures", meta=None, extra_terms=(), getvals=None):
        goal = unwrap(goal)
        if isinstance(goal, bool):
            goal = z3.BoolVal(goal)
        goal = poly_normalise(goal)
        self.pointwise_inconclusive = False
        goal = self.sigma_pointwise(goal)
        if self.pointwise_inconclusive:
            # the sums in this goal could not be compared (solver budget): a `sat` answer for the remaining goal, in which
            # they are unrelated constants, would be spurious -- the driver reports UNDECIDED for it, never a violation
            meta = dict(meta or {})
            meta["sum_congruence"] = "inconclusive"
        hyps = relevant(self.hypotheses(extra_terms), goal)
        meta = dict(meta or {})
        meta["seq"] = self.ob_seq = getattr(self, "ob_seq", -1) + 1
        if getattr(self, "matrix_compare", False) or "matalg" in self.uf_cache:
            # the path works with abstract matrices (normal forms; elements of product words are uninterpreted element functions,
            # also inside summands): a `sat` answer says two of them were not IDENTIFIED by the rewriting laws, not that they differ
            meta["matrix_layer"] = True
        self.matrix_compare = False
        tgt = getattr(self, "validate_target", None)
        if tgt is not None and tgt == (name, meta["seq"]):
            self.validation_result = self._validate_here(hyps, goal)
        sig = self._sigma_export(hyps, goal)
        if sig is not None:
            meta["sigma_smt2"], meta["sigma_n"], meta["sigma_nested"] = sig
        self.obligations.append(
            Obligation(name, hyps, goal, list(self.prefix[: self.cursor]), kind, meta, getvals)
        )

    def _validate_here(self, hyps, goal, rounds=6, timeout_ms=20000, max_terms=300, max_instances=4000):
        """called while this path is being re-explored for ONE obligation the solvers answered `sat` to.  The obligation that was
        solved is quantifier-free: finite sums are unrelated constants in it and every universal fact is present only at the index
        terms that occurred.  Here the counter-model is confronted with what was left out: each sum is evaluated term by term, each
        universal fact at EVERY index of its (model-sized) range.  Whatever the model violates is a valid lemma: added, and the
        query repeated.  'genuine': a counter-model that respects all of it; 'refuted': none exists; 'unknown': no verdict."""
        import itertools as _it
        from fractions import Fraction
        try:
            sol = z3.Solver()
            sol.set("timeout", timeout_ms)
            for h in hyps:
                sol.add(h)
            sol.add(z3.Not(goal))
            names, seen, stack = set(), set(), [goal] + list(hyps)
            while stack:
                t = stack.pop()
                i = t.get_id()
                if i in seen:
                    continue
                seen.add(i)
                if z3.is_app(t):
                    if t.decl().kind() == z3.Z3_OP_UNINTERPRETED:
                        names.add(t.decl().name())
                    stack.extend(t.children())
            atoms = [a for a in self.sigma_atoms if a.sym.decl().name() in names]

            def num(m, e):
                v = z3.simplify(m.eval(e, model_completion=True))
                if z3.is_int_value(v):
                    return Fraction(v.as_long())
                if z3.is_rational_value(v):
                    return Fraction(v.numerator_as_long(), v.denominator_as_long())
                return None
            tried = 0
            all_ext = {}
            for a in atoms:
                for e in (a.extent,):
                    if z3.is_expr(e) and not z3.is_int_value(e):
                        all_ext[e.get_id()] = e
            for fa in self.foralls:
                for n in fa["extents"]:
                    e = unwrap(n)
                    if z3.is_expr(e) and not z3.is_int_value(e):
                        all_ext[e.get_id()] = e
            for _ in range(rounds):
                # small counter-models first: they are the ones that can be completed
                r, m = None, None
                for cap in (3, 6, 12, None):
                    sol.push()
                    if cap is not None:
                        for e in all_ext.values():
                            sol.add(e <= cap)
                    r = sol.check()
                    if r == z3.sat:
                        m = sol.model()
                    sol.pop()
                    if r == z3.sat or (cap is None):
                        break
                if r == z3.unsat:
                    return "refuted" if tried else "unknown"
                if r != z3.sat:
                    if os.environ.get("VERIF_DEBUG"):
                        print("_validate_here: solver", r, sol.reason_unknown())
                    return "unknown"
                # the SIZES of this counter-model (ranges of the sums, extents of the universal facts) are kept; within them every
                # sum is written out and every universal fact instantiated at every index: a finite, complete query
                complete, facts, sizes = True, [], {}

                def size_of(e):
                    e = unwrap(e)
                    if isinstance(e, int):
                        return Fraction(e)
                    v = num(m, e)
                    if v is not None:
                        sizes[e.get_id()] = (e, int(v))
                    return v
                k0 = z3.Int("sk0")
                for a in atoms:
                    if a.depth != 0 or a.bound:
                        complete = False
                        continue
                    n0, l0 = size_of(a.extent), size_of(a.lo)
                    if n0 is None or l0 is None or n0 - l0 > max_terms:
                        complete = False
                        continue
                    terms = [z3.substitute(to_real(a.core), (k0, z3.IntVal(i))) for i in range(int(l0), int(n0))]
                    facts.append(a.sym == (z3.Sum(terms) if terms else z3.RealVal(0)))
                budget = max_instances
                self._instantiating = True
                try:
                    for fa in self.foralls:
                        ext = [size_of(n) for n in fa["extents"]]
                        if any(v is None for v in ext):
                            complete = False
                            continue
                        size = 1
                        for v in ext:
                            size *= max(int(v), 0)
                        if size > budget:
                            complete = False
                            continue
                        budget -= size
                        for combo in _it.product(*[range(int(v)) for v in ext]):
                            try:
                                body = unwrap(fa["closure"](*[Sym(z3.IntVal(i)) for i in combo]))
                            except PathAbort:
                                continue
                            except Unsupported:
                                complete = False
                                continue
                            if isinstance(body, bool):
                                if not body:
                                    return "unknown"      # (an instance that is literally False: inconsistent hypotheses)
                                continue
                            facts.append(body)
                finally:
                    self._instantiating = False
                fix = [e == v for e, v in sizes.values()]
                tried += 1
                sol.push()
                for f_ in fix + facts:
                    sol.add(f_)
                r2 = sol.check()
                sol.pop()
                if os.environ.get("VERIF_DEBUG"):
                    print(f"_validate_here: sizes={[v for _, v in sizes.values()]} facts={len(facts)} complete={complete} -> {r2}")
                if r2 == z3.sat:
                    return "genuine" if complete else "unknown"
                if r2 != z3.unsat:
                    return "unknown"
                if not fix:
                    return "refuted"
                sol.add(z3.Not(z3.And(*fix)))          # no counter-model of these sizes: look at others
            return "refuted"
        except Exception:
            if os.environ.get("VERIF_DEBUG"):
                import traceback
                traceback.print_exc()
            return "unknown"

    def _sigma_export(self, hyps, goal):
        """the finite sums this obligation talks about (symbol, summand, range), as SMT-LIB text: a `sat` answer treats each
        sum as an unrelated constant, so the driver re-evaluates the sums under the counter-model before believing it"""
        try:
            if not self.sigma_atoms:
                return None
            names, seen, stack = set(), set(), [goal] + list(hyps)
            while stack:
                t = stack.pop()
                i = t.get_id()
                if i in seen:
                    continue
                seen.add(i)
                if z3.is_app(t):
                    if t.decl().kind() == z3.Z3_OP_UNINTERPRETED:
                        names.add(t.decl().name())
                    stack.extend(t.children())
                elif z3.is_quantifier(t):
                    stack.append(t.body())
            used = [a for a in self.sigma_atoms if a.sym.decl().name() in names]
            if not used:
                return None
            nested = any(a.depth != 0 or a.bound for a in used)
            flat = [a for a in used if a.depth == 0 and not a.bound]
            sol = z3.Solver()
            for j, a in enumerate(flat):
                sol.add(z3.Real(f"sigv!sym!{j}") == a.sym)
                sol.add(z3.Real(f"sigv!core!{j}") == to_real(a.core))
                sol.add(z3.Int(f"sigv!ext!{j}") == a.extent)
                sol.add(z3.Int(f"sigv!lo!{j}") == a.lo)
            return sol.to_smt2(), len(flat), nested
        except Exception:
            return None


_DEF_FAMILIES = ("fd_s", "fd_q", "ti")
_sym_cache = {}


def _def_symbols(e):
    """names of the definitional fresh symbols (floor-division quotients/fractions, truncations) in e"""
    k = eid(e)
    if k in _sym_cache:
        return _sym_cache[k]
    out = set()
    seen = set()
    stack = [e]
    while stack:
        t = stack.pop()
        i = t.get_id()
        if i in seen:
            continue
        seen.add(i)
        if z3.is_app(t):
            if t.decl().kind() == z3.Z3_OP_UNINTERPRETED:
                nm = t.decl().name()
                if nm.split("!")[0] in _DEF_FAMILIES:
                    out.add(nm)
            stack.extend(t.children())
        elif z3.is_quantifier(t):
            stack.append(t.body())
    _sym_cache[k] = out
    return out


def _abstract_products(e, memo=None):
    memo = {} if memo is None else memo
    i = e.get_id()
    if i in memo:
        return memo[i]
    if not z3.is_app(e) or e.num_args() == 0:
        memo[i] = e
        return e
    ch = [_abstract_products(c, memo) for c in e.children()]
    if e.decl().kind() == z3.Z3_OP_MUL:
        nums = [c for c in ch if z3.is_rational_value(c) or z3.is_int_value(c)]
        rest = [c for c in ch if not (z3.is_rational_value(c) or z3.is_int_value(c))]
        if len(rest) >= 2:
            rest = sorted([z3.ToReal(c) if z3.is_int(c) else c for c in rest], key=lambda t: str(t))
            f = z3.Function(f"mul{len(rest)}", *([z3.RealSort()] * len(rest)), z3.RealSort())
            r = f(*rest)
            for c in nums:
                r = (z3.ToReal(c) if z3.is_int(c) else c) * r
            memo[i] = r
            return r
    r = e.decl()(*ch)
    memo[i] = r
    return r


def relevant(hyps, goal):
    """cone of influence over the definitional symbols: the defining constraints of a quotient/truncation
    symbol that is connected to the goal neither directly nor through other kept constraints cannot matter
    for validity and only distract the non-linear solver.  Dropping hypotheses is always sound."""
    cone = set(_def_symbols(goal))
    infos = [(h, _def_symbols(h)) for h in hyps]
    base = [h for h, syms in infos if not syms]
    for h in base:
        pass
    pending = [(h, syms) for h, syms in infos if syms]
    kept = []
    changed = True
    while changed:
        changed = False
        rest = []
        for h, syms in pending:
            if syms & cone:
                kept.append(h)
                if not syms <= cone:
                    cone |= syms
                changed = True
            else:
                rest.append((h, syms))
        pending = rest
    return base + kept


def _contains_term(e, v):
    vid = v.get_id()
    seen = set()
    stack = [e]
    while stack:
        t = stack.pop()
        i = t.get_id()
        if i in seen:
            continue
        seen.add(i)
        if i == vid:
            return True
        stack.extend(t.children())
    return False


def poly_normalise(goal):
    """an equality a == b (possibly under an implication) whose difference cancels in the sum-of-monomials
    normal form is valid by polynomial arithmetic alone; it is replaced by `true` under the same antecedent so
    that the non-linear solver does not have to rediscover the cancellation (everything else is left alone)"""
    try:
        if z3.is_app(goal) and goal.decl().kind() == z3.Z3_OP_IMPLIES:
            ant, con = goal.children()
            # literals of the antecedent decide the matching if-then-else conditions inside the consequent
            lits = []
            stack = [ant]
            while stack:
                t = stack.pop()
                if z3.is_app(t) and t.decl().kind() == z3.Z3_OP_AND:
                    stack.extend(t.children())
                elif z3.is_app(t) and t.decl().kind() == z3.Z3_OP_NOT:
                    lits.append((t.arg(0), z3.BoolVal(False)))
                elif z3.is_bool(t) and not z3.is_true(t):
                    lits.append((t, z3.BoolVal(True)))
            con_s = z3.simplify(z3.substitute(con, *lits)) if lits else con
            con2 = poly_normalise(con_s)
            return z3.Implies(ant, con2) if lits or con2 is not con_s else goal
        if z3.is_app(goal) and goal.decl().kind() == z3.Z3_OP_AND:
            ch = [poly_normalise(c) for c in goal.children()]
            return z3.And(*ch)
        if z3.is_app(goal) and goal.decl().kind() == z3.Z3_OP_EQ:
            a, b = goal.children()
            if z3.is_real(a) or z3.is_int(a):
                dlt = z3.simplify(a - b, som=True)
                if (z3.is_rational_value(dlt) or z3.is_int_value(dlt)) and dlt.as_fraction() == 0:
                    return z3.BoolVal(True)
    except z3.Z3Exception:
        pass
    return goal


def ctx() -> Ctx:
    return Ctx.current


# --------------------------------------------------------------------------------------------
# scalars
# --------------------------------------------------------------------------------------------



def realval(x):
    if isinstance(x, bool):
        return z3.BoolVal(x)
    if isinstance(x, int):
        return z3.IntVal(x)
    if isinstance(x, float):
        if x == math.pi:
            return _PI
        if x != x or x in (math.inf, -math.inf):
            raise Unsupported("non-finite float constant")
        fr = Fraction(repr(x))
        return z3.RealVal(f"{fr.numerator}/{fr.denominator}")
    if isinstance(x, Fraction):
        return z3.RealVal(f"{x.numerator}/{x.denominator}")
    raise Unsupported(f"cannot lift {type(x)} to z3")


class Sym:
    """symbolic scalar"""

    __slots__ = ("e",)
    __array_priority__ = 1000

    def __init__(self, e):
        assert z3.is_expr(e), e
        self.e = e

    # sorts
    @property
    def is_bool(self):
        return z3.is_bool(self.e)

    @property
    def is_int(self):
        return z3.is_int(self.e)

    def __repr__(self):
        return f"Sym({self.e})"

    def __hash__(self):
        return hash(self.e)

    # arithmetic
    def __add__(self, o):
        if hasattr(o, '_fn'):
            return NotImplemented
        return add(self, o)

    def __radd__(self, o):
        if hasattr(o, '_fn'):
            return NotImplemented
        return add(o, self)

    def __sub__(self, o):
        if hasattr(o, '_fn'):
            return NotImplemented
        return sub(self, o)

    def __rsub__(self, o):
        if hasattr(o, '_fn'):
            return NotImplemented
        return sub(o, self)

    def __mul__(self, o):
        if hasattr(o, '_fn'):
            return NotImplemented
        return mul(self, o)

    def __rmul__(self, o):
        if hasattr(o, '_fn'):
            return NotImplemented
        return mul(o, self)

    def __truediv__(self, o):
        if hasattr(o, '_fn'):
            return NotImplemented
        return div(self, o)

    def __rtruediv__(self, o):
        if hasattr(o, '_fn'):
            return NotImplemented
        return div(o, self)

    def __floordiv__(self, o):
        if hasattr(o, '_fn'):
            return NotImplemented
        return floordiv(self, o)

    def __rfloordiv__(self, o):
        if hasattr(o, '_fn'):
            return NotImplemented
        return floordiv(o, self)

    def __mod__(self, o):
        if hasattr(o, '_fn'):
            return NotImplemented
        return mod(self, o)

    def __rmod__(self, o):
        if hasattr(o, '_fn'):
            return NotImplemented
        return mod(o, self)

    def __pow__(self, o):
        if hasattr(o, '_fn'):
            return NotImplemented
        return power(self, o)

    def __rpow__(self, o):
        if hasattr(o, '_fn'):
            return NotImplemented
        return power(o, self)

    def __neg__(self):
        return neg(self)

    def __pos__(self):
        return self

    def __abs__(self):
        return absval(self)

    # comparisons
    def __lt__(self, o):
        if hasattr(o, '_fn'):
            return NotImplemented
        return cmp("<", self, o)

    def __le__(self, o):
        if hasattr(o, '_fn'):
            return NotImplemented
        return cmp("<=", self, o)

    def __gt__(self, o):
        if hasattr(o, '_fn'):
            return NotImplemented
        return cmp(">", self, o)

    def __ge__(self, o):
        if hasattr(o, '_fn'):
            return NotImplemented
        return cmp(">=", self, o)

    def __eq__(self, o):
        if hasattr(o, '_fn'):
            return NotImplemented
        return cmp("==", self, o)

    def __ne__(self, o):
        if hasattr(o, '_fn'):
            return NotImplemented
        return cmp("!=", self, o)

    # boolean
    def __and__(self, o):
        if hasattr(o, '_fn'):
            return NotImplemented
        return land(self, o)

    def __rand__(self, o):
        if hasattr(o, '_fn'):
            return NotImplemented
        return land(o, self)

    def __or__(self, o):
        if hasattr(o, '_fn'):
            return NotImplemented
        return lor(self, o)

    def __ror__(self, o):
        if hasattr(o, '_fn'):
            return NotImplemented
        return lor(o, self)

    def __invert__(self):
        return lnot(self)

    def __bool__(self):
        if not self.is_bool:
            # truthiness of a number
            return bool(cmp("!=", self, 0))
        return ctx().decide(self.e)

    def __int__(self):
        raise Unsupported("int() of symbolic value outside the interpreter")

    def __float__(self):
        raise Unsupported("float() of symbolic value outside the interpreter")

    def __index__(self):
        raise Unsupported("symbolic value used as a Python index")


def is_sym(x):
    return isinstance(x, Sym)


def is_num(x):
    return isinstance(x, (int, float, bool, Fraction)) or _is_npnum(x)


def _is_npnum(x):
    t = type(x).__module__
    return t == "numpy" and hasattr(x, "item") and getattr(x, "ndim", 1) == 0


def pynum(x):
    if _is_npnum(x):
        return x.item()
    return x


def unwrap(x):
    """-> z3 term or Python number/bool"""
    if isinstance(x, Sym):
        return x.e
    if _is_npnum(x):
        return x.item()
    return x


def z(x):
    """-> z3 term"""
    if isinstance(x, Sym):
        return x.e
    if z3.is_expr(x):
        return x
    return realval(pynum(x))


def wrap(e):
    if z3.is_expr(e):
        e2 = e
        if z3.is_int_value(e2):
            return e2.as_long()
        if z3.is_true(e2):
            return True
        if z3.is_false(e2):
            return False
        return Sym(e)
    return e


def _both_conc(a, b):
    return not isinstance(a, Sym) and not isinstance(b, Sym)


def _num2(a, b):
    za, zb = z(a), z(b)
    if z3.is_bool(za):
        za = z3.If(za, z3.IntVal(1), z3.IntVal(0))
    if z3.is_bool(zb):
        zb = z3.If(zb, z3.IntVal(1), z3.IntVal(0))
    if z3.is_int(za) and z3.is_real(zb):
        za = z3.ToReal(za)
    elif z3.is_real(za) and z3.is_int(zb):
        zb = z3.ToReal(zb)
    return za, zb


def add(a, b):
    if _both_conc(a, b):
        return pynum(a) + pynum(b)
    if not isinstance(b, Sym) and is_num(b) and pynum(b) == 0 and not isinstance(pynum(b), float):
        return a
    if not isinstance(a, Sym) and is_num(a) and pynum(a) == 0 and not isinstance(pynum(a), float):
        return b
    za, zb = _num2(a, b)
    return Sym(za + zb)


def sub(a, b):
    if _both_conc(a, b):
        return pynum(a) - pynum(b)
    za, zb = _num2(a, b)
    return Sym(za - zb)


def mul(a, b):
    if _both_conc(a, b):
        return pynum(a) * pynum(b)
    if not isinstance(a, Sym) and isinstance(pynum(a), int) and not isinstance(pynum(a), bool) and pynum(a) == 1:
        return b
    if not isinstance(b, Sym) and isinstance(pynum(b), int) and not isinstance(pynum(b), bool) and pynum(b) == 1:
        return a
    za, zb = _num2(a, b)
    return Sym(za * zb)


def neg(a):
    if not isinstance(a, Sym):
        return -pynum(a)
    return Sym(-a.e)


def to_real(e):
    return z3.ToReal(e) if z3.is_int(e) else e


def div(a, b):
    if _both_conc(a, b):
        return pynum(a) / pynum(b)
    za, zb = _num2(a, b)
    za, zb = to_real(za), to_real(zb)
    c = ctx()
    if c is not None:
        c.trace.append(("division", zb))
    return Sym(za / zb)


def absval(a):
    if not isinstance(a, Sym):
        return abs(pynum(a))
    return Sym(z3.If(a.e >= 0, a.e, -a.e))


def _is_atom(e):
    return z3.is_const(e) or (z3.is_app(e) and e.decl().kind() == z3.Z3_OP_UNINTERPRETED)


def exact_div(za, zb):
    """za / zb when zb is an atomic term dividing every monomial of za syntactically (else None)"""
    zb_s = z3.simplify(zb)
    if z3.is_rational_value(zb_s) or z3.is_int_value(zb_s):
        return None
    if not _is_atom(zb_s):
        return None
    za_s = z3.simplify(za, som=True)
    if z3.is_rational_value(za_s) and za_s.as_fraction() == 0:
        return z3.RealVal(0)
    terms = za_s.children() if (z3.is_app(za_s) and za_s.decl().kind() == z3.Z3_OP_ADD) else [za_s]
    out = []
    def factors(t):
        if z3.is_app(t) and t.decl().kind() == z3.Z3_OP_MUL:
            out_ = []
            for ch in t.children():
                out_.extend(factors(ch))
            return out_
        return [t]

    for t in terms:
        fs = factors(t)
        k = next((i for i, f in enumerate(fs) if f.eq(zb_s)), None)
        if k is None:
            return None
        rest = fs[:k] + fs[k + 1:]
        if not rest:
            out.append(z3.RealVal(1))
        else:
            r = rest[0]
            for f in rest[1:]:
                r = r * f
            out.append(to_real(r))
    return z3.simplify(z3.Sum(out)) if len(out) > 1 else out[0]


def _floor_parts(a, b):
    """(q, rem) with a = (q + frac)*b, q integer: the normalised encoding of numpy.divmod / // / %"""
    c = ctx()
    za, zb = _num2(a, b)
    key = (eid(za), eid(zb))
    if key in c.floordiv_cache:
        return c.floordiv_cache[key]
    if z3.is_int(za) and z3.is_int(zb):
        # python floor semantics from z3's euclidean div/mod
        # z3's integer division is euclidean (= floor for a positive divisor);
        # for b<0: floor(a/b) = floor((-a)/(-b)) and -b>0
        q = z3.If(zb > 0, za / zb, (-za) / (-zb))
        r = za - q * zb
        res = (Sym(q), Sym(r))
        c.floordiv_cache[key] = res
        c.trace.append(("division", zb))
        return res
    za, zb = to_real(za), to_real(zb)
    q = c.fresh("fd_q", "Int")
    s = exact_div(za, zb)
    exact = s is not None
    if s is None:
        s = c.fresh("fd_s", "Real")
        c.defs.append(za == s * zb)
    zb = z3.simplify(zb)
    c.defs.append(z3.ToReal(q) <= s)
    c.defs.append(s < z3.ToReal(q) + 1)
    c.trace.append(("division", zb))
    rem = (s - z3.ToReal(q)) * zb
    # redundant but linear consequences of the definition (0 <= s-q < 1): the remainder has the sign of the
    # divisor and is smaller in magnitude -- spares the solver a non-linear derivation
    if not exact:
        c.defs.append(z3.Implies(zb > 0, z3.And(rem >= 0, rem < zb)))
        c.defs.append(z3.Implies(zb < 0, z3.And(rem <= 0, rem > zb)))
    res = (Sym(z3.ToReal(q)), Sym(rem))
    c.floordiv_cache[key] = res
    c.floordiv_cache[("q", eid(res[0].e))] = q
    return res


def floordiv(a, b):
    if _both_conc(a, b):
        return pynum(a) // pynum(b)
    return _floor_parts(a, b)[0]


def mod(a, b):
    if _both_conc(a, b):
        return pynum(a) % pynum(b)
    za, zb = _num2(a, b)
    # q % 2 where q is an integer-valued real from a floor division
    if z3.is_real(za) and (is_num(b) and float(pynum(b)).is_integer()):
        c = ctx()
        qi = c.floordiv_cache.get(("q", eid(za)))
        if qi is not None:
            return Sym(z3.ToReal(qi % int(pynum(b))))
    return _floor_parts(a, b)[1]


def divmod_(a, b):
    if _both_conc(a, b):
        return divmod(pynum(a), pynum(b))
    return _floor_parts(a, b)


def uf(name, *args, sort="Real"):
    """application of an uninterpreted real function"""
    zs = [to_real(z(a)) for a in args]
    rs = z3.RealSort() if sort == "Real" else z3.IntSort()
    f = z3.Function(name, *([z3.RealSort()] * len(zs)), rs)
    return f(*zs)


def power(a, b):
    if _both_conc(a, b):
        return pynum(a) ** pynum(b)
    if not isinstance(b, Sym):
        pb = pynum(b)
        if isinstance(pb, float) and pb.is_integer():
            pb = int(pb)
        if isinstance(pb, int):
            if pb == 0:
                return 1
            za = z(a)
            if pb > 0 and pb <= 8:
                r = za
                for _ in range(pb - 1):
                    r = r * za
                return Sym(r)
            if pb < 0 and pb >= -8:
                r = to_real(za)
                for _ in range(-pb - 1):
                    r = r * to_real(za)
                ctx().trace.append(("division", r))
                return Sym(1 / r)
        if pb == 0.5:
            return sqrt_(a)
    # integer base, integer exponent >= 0: an INTEGER (array extents such as 2**n + 1), tied to the real power
    if isinstance(a, int) and not isinstance(a, bool) and a >= 2 and isinstance(b, Sym) and b.is_int:
        c = ctx()
        if c is not None and not c.concrete and c.is_nonneg(b.e):
            from . import npmodel as _N
            f = z3.Function("ipow", z3.IntSort(), z3.IntSort(), z3.IntSort())
            e = f(z3.IntVal(a), b.e)
            key = ("ipow", a, eid(b.e))
            if key not in c.uf_cache:
                c.uf_cache[key] = True
                c.defs.append(e >= 1)
                c.defs.append(z3.Implies(b.e == 0, e == 1))
                c.defs.append(z3.Implies(b.e >= 1, e >= a))
                c.defs.append(z3.ToReal(e) == z(_N.exp_scalar(mul(b, _N.log_scalar(a)))))
                c.mark_nonneg(e)
            return Sym(e)
    # general real power of a positive base: a**b = exp(b*log(a))  (the base is recorded; numpy gives nan for a
    # negative base with a non-integer exponent)
    from . import npmodel as _N
    c = ctx()
    if c is not None:
        c.trace.append(("pow_base", z(a)))
    return _N.exp_scalar(mul(b, _N.log_scalar(a)))


def sqrt_(a):
    if not isinstance(a, Sym):
        v = pynum(a)
        c0 = ctx()
        if c0 is None or c0.concrete or v < 0 or not getattr(c0, "exact_surds", False):
            return math.sqrt(v)
        r = math.sqrt(v)
        if r == int(r) or (v != 0 and 1 / r == int(1 / r) and (1 / r) ** 2 == 1 / v):
            return r                      # exact roots stay numbers
        from fractions import Fraction
        a = Sym(z3.RealVal(str(Fraction(v).limit_denominator(10 ** 9)) if v != int(v) else int(v)))
    c = ctx()
    key = ("sqrt", eid(a.e))
    if key in c.uf_cache:
        return c.uf_cache[key]
    # sqrt(k * t) = sqrt(k) sqrt(t) for a positive rational constant k: one surd per constant and one per term
    ae = z3.simplify(a.e) if getattr(c, "exact_surds", False) else a.e
    if getattr(c, "exact_surds", False) and z3.is_app(ae) and ae.decl().kind() == z3.Z3_OP_MUL and len(ae.children()) == 2 \
            and z3.is_rational_value(ae.arg(0)) and ae.arg(0).as_fraction() > 0 and not z3.is_rational_value(ae.arg(1)):
        fr = ae.arg(0).as_fraction()
        r = mul(sqrt_(float(fr) if fr.denominator != 1 else int(fr)), sqrt_(Sym(ae.arg(1))))
        c.uf_cache[key] = r
        return r
    e = uf("sqrt", a)
    # defining axioms (argument assumed >= 0; recorded for the `defined` obligations)
    c.trace.append(("sqrt_arg", a.e))
    c.defs.append(z3.Implies(to_real(a.e) >= 0, z3.And(e >= 0, e * e == to_real(a.e))))
    r = Sym(e)
    c.uf_cache[key] = r
    return r


_CMP = {
    "<": lambda a, b: a < b,
    "<=": lambda a, b: a <= b,
    ">": lambda a, b: a > b,
    ">=": lambda a, b: a >= b,
    "==": lambda a, b: a == b,
    "!=": lambda a, b: a != b,
}


def cmp(op, a, b):
    if _both_conc(a, b):
        return _CMP[op](pynum(a), pynum(b))
    if b is None or a is None or isinstance(a, str) or isinstance(b, str):
        return op == "!="
    za, zb = z(a), z(b)
    if z3.is_bool(za) and z3.is_bool(zb):
        if op == "==":
            return Sym(za == zb)
        if op == "!=":
            return Sym(za != zb)
    za, zb = _num2(a, b)
    return wrap(z3.simplify(_CMP[op](za, zb)))


def _b(x):
    x = unwrap(x)
    if isinstance(x, bool):
        return z3.BoolVal(x)
    if z3.is_expr(x) and z3.is_bool(x):
        return x
    if isinstance(x, (int, float)):
        return z3.BoolVal(bool(x))
    raise Unsupported(f"not a boolean: {x!r}")


def land(a, b):
    if _both_conc(a, b):
        return pynum(a) & pynum(b)
    return wrap(z3.simplify(z3.And(_b(a), _b(b))))


def lor(a, b):
    if _both_conc(a, b):
        return pynum(a) | pynum(b)
    return wrap(z3.simplify(z3.Or(_b(a), _b(b))))


def lnot(a):
    if not isinstance(a, Sym):
        a = pynum(a)
        return (not a) if isinstance(a, bool) else ~a
    return wrap(z3.simplify(z3.Not(_b(a))))


def ite(c, a, b):
    if not isinstance(c, Sym):
        return a if c else b
    za, zb = _num2(a, b) if not (z3.is_bool(z(a)) and z3.is_bool(z(b))) else (z(a), z(b))
    return wrap(z3.If(c.e, za, zb))


def And(*xs):
    xs = [unwrap(x) for x in xs]
    if all(isinstance(x, bool) for x in xs):
        return all(xs)
    return Sym(z3.And(*[_b(x) for x in xs]))


def Or(*xs):
    xs = [unwrap(x) for x in xs]
    if all(isinstance(x, bool) for x in xs):
        return any(xs)
    return Sym(z3.Or(*[_b(x) for x in xs]))


def Not(x):
    return lnot(x)


def Implies(a, b):
    a, b = unwrap(a), unwrap(b)
    if isinstance(a, bool) and isinstance(b, bool):
        return (not a) or b
    return Sym(z3.Implies(_b(a), _b(b)))


def to_int_trunc(a):
    """Python int(x): truncation toward zero (a fresh integer with its defining inequalities)"""
    if not isinstance(a, Sym):
        return int(pynum(a))
    if a.is_int:
        return a
    if a.is_bool:
        return Sym(z3.If(a.e, z3.IntVal(1), z3.IntVal(0)))
    e = z3.simplify(a.e)
    c = ctx()
    key = ("trunc", eid(e))
    if key in c.floordiv_cache:
        return c.floordiv_cache[key]
    q = c.fresh("ti", "Int")
    qr = z3.ToReal(q)
    c.defs.append(z3.If(e >= 0, z3.And(qr <= e, e < qr + 1), z3.And(qr - 1 < e, e <= qr)))
    r = Sym(q)
    c.floordiv_cache[key] = r
    return r


def to_float(a):
    if not isinstance(a, Sym):
        return float(pynum(a))
    if a.is_int:
        return Sym(z3.ToReal(a.e))
    if a.is_bool:
        return Sym(z3.If(a.e, z3.RealVal(1), z3.RealVal(0)))
    return a


def smin(a, b):
    if _both_conc(a, b):
        return min(pynum(a), pynum(b))
    za, zb = _num2(a, b)
    return Sym(z3.If(zb < za, zb, za))


def smax(a, b):
    if _both_conc(a, b):
        return max(pynum(a), pynum(b))
    za, zb = _num2(a, b)
    return Sym(z3.If(zb > za, zb, za))
