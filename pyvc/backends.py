"""SMT back ends: every obligation is one SMT-LIB query run by an external solver process under a hard
wall-clock kill.  z3 5.1 (z3-new) is the primary prover; the thorough tier re-checks with cvc5 (linear /
EUF queries) or the z3 4.8.12 CLI (non-linear real queries)."""
from __future__ import annotations
import os
import re
import shutil
import subprocess
import tempfile
import time
import json
from concurrent.futures import ThreadPoolExecutor
import z3
from .sym import PI_AXIOMS

Z3_NEW = shutil.which("z3-new") or shutil.which("z3")
Z3_OLD = "/usr/bin/z3" if os.path.exists("/usr/bin/z3") else None
CVC5 = shutil.which("cvc5")


def to_smt2(hyps, goal):
    s = z3.Solver()
    for h in hyps:
        s.add(h)
    s.add(z3.Not(goal))
    return s.to_smt2()


def is_nonlinear(smt2):
    # crude: a product of two non-literal terms or a division by a non-literal
    return bool(re.search(r"\(\* [^0-9(\-]", smt2) or re.search(r"\(\* \([^)]*\) [^0-9]", smt2)
                or re.search(r"\(/ [^ ]+ [^0-9(]", smt2) or "(/ " in smt2 and re.search(r"\(/ .* [a-zA-Z(]", smt2))


def run_cli(cmd, text, timeout_s):
    fd, path = tempfile.mkstemp(suffix=".smt2", prefix="vc_")
    try:
        with os.fdopen(fd, "w") as f:
            f.write(text)
        t0 = time.time()
        try:
            p = subprocess.run(cmd + [path], capture_output=True, text=True, timeout=timeout_s + 2)
            out = (p.stdout or "").strip()
            err = (p.stderr or "").strip()
        except subprocess.TimeoutExpired:
            return "timeout", time.time() - t0, ""
        dt = time.time() - t0
        first = out.splitlines()[0].strip() if out else ""
        if first in ("sat", "unsat", "unknown"):
            return first, dt, out
        if "timeout" in out or "timeout" in err:
            return "timeout", dt, out + err
        return "error", dt, (out + "\n" + err)[:2000]
    finally:
        try:
            os.unlink(path)
        except OSError:
            pass


def solve_z3new(text, timeout_s):
    return run_cli([Z3_NEW, f"-T:{int(timeout_s)}", f"-t:{int(timeout_s * 1000)}"], text, timeout_s)


def solve_z3old(text, timeout_s):
    return run_cli([Z3_OLD, f"-T:{int(timeout_s)}"], text, timeout_s)


def solve_cvc5(text, timeout_s):
    t = text
    if "(lambda" in t:
        return "skipped", 0.0, "lambda not supported"
    t = "(set-logic ALL)\n" + t
    return run_cli([CVC5, f"--tlimit={int(timeout_s * 1000)}", "--lang=smt2"], t, timeout_s)


def extract_model(text, getvals, timeout_s=20):
    """Re-solve in-process (python API) to read a counter-model.  getvals: list of dicts
    {"name":..., "kind": "int"|"real"|"bool"|"vec"|"mat"|"fun", "len": name-of-int or int, ...}"""
    s = z3.Solver()
    s.set("timeout", int(timeout_s * 1000))
    try:
        s.from_string(text)
    except z3.Z3Exception as e:
        return None
    if s.check() != z3.sat:
        return None
    m = s.model()
    decls = {d.name(): d for d in m.decls()}
    out = {}

    def val(e):
        v = m.eval(e, model_completion=True)
        if z3.is_int_value(v):
            return v.as_long()
        if z3.is_rational_value(v):
            fr = v.as_fraction()
            return float(fr)
        if z3.is_algebraic_value(v):
            return float(v.approx(12).as_fraction())
        if z3.is_true(v):
            return True
        if z3.is_false(v):
            return False
        return str(v)

    def getint(x):
        if isinstance(x, int):
            return x
        if x in out and isinstance(out[x], int):
            return out[x]
        return int(val(z3.Int(x)))

    for g in getvals:
        try:
            k = g["kind"]
            nm = g["name"]
            if k == "int":
                out[nm] = val(z3.Int(nm))
            elif k == "real":
                out[nm] = val(z3.Real(nm))
            elif k == "bool":
                out[nm] = val(z3.Bool(nm))
            elif k == "vec":
                n = max(0, min(getint(g["len"]), 12))
                f = z3.Function(nm, z3.IntSort(), z3.RealSort() if g.get("sort", "Real") == "Real" else z3.IntSort())
                out[nm] = [val(f(z3.IntVal(i))) for i in range(n)]
            elif k == "mat":
                n = max(0, min(getint(g["rows"]), 8))
                mm = max(0, min(getint(g["cols"]), 8))
                f = z3.Function(nm, z3.IntSort(), z3.IntSort(), z3.RealSort())
                out[nm] = [[val(f(z3.IntVal(i), z3.IntVal(j))) for j in range(mm)] for i in range(n)]
        except Exception as e:  # noqa
            out[g["name"]] = None
    return out


def race(text, timeout_s, stagger=0.7):
    """z3 5.1 first; if it has not answered after `stagger` seconds the z3 4.8.12 CLI is started alongside on
    the same query; the first definite answer (sat/unsat) wins and the other process is killed"""
    fd, path = tempfile.mkstemp(suffix=".smt2", prefix="vc_")
    with os.fdopen(fd, "w") as f:
        f.write(text)
    procs = []
    t0 = time.time()

    def start(cmd, name):
        p = subprocess.Popen(cmd + [path], stdout=subprocess.PIPE, stderr=subprocess.STDOUT, text=True)
        procs.append((name, p, time.time()))

    start([Z3_NEW, f"-T:{int(timeout_s)}", f"-t:{int(timeout_s * 1000)}"], "z3-5.1")
    started_old = False
    verdicts = {}
    result = None
    try:
        while True:
            now = time.time()
            for name, p, ts in procs:
                if name in verdicts:
                    continue
                if p.poll() is not None:
                    out = (p.stdout.read() or "").strip()
                    first = out.splitlines()[0].strip() if out else ""
                    verdicts[name] = first if first in ("sat", "unsat", "unknown") else ("timeout" if "timeout" in out else "error")
                    if verdicts[name] in ("sat", "unsat"):
                        result = (verdicts[name], name, out)
                        break
            if result:
                break
            if not started_old and Z3_OLD and now - t0 >= stagger:
                start([Z3_OLD, f"-T:{int(timeout_s)}"], "z3-4.8.12")
                started_old = True
            if len(verdicts) == len(procs) and (started_old or not Z3_OLD):
                break
            if now - t0 > timeout_s + stagger + 3:
                break
            time.sleep(0.01)
    finally:
        for _, p, _ in procs:
            if p.poll() is None:
                p.kill()
            try:
                p.stdout.close()
            except Exception:
                pass
        try:
            os.unlink(path)
        except OSError:
            pass
    dt = time.time() - t0
    if result:
        return result[0], dt, result[2], result[1], verdicts
    v = "unknown" if "unknown" in verdicts.values() else "timeout"
    return v, dt, "", "z3-5.1", verdicts


class Pool:
    def __init__(self, workers=None):
        self.workers = workers or min(16, (os.cpu_count() or 4))

    def discharge(self, obligations, timeout_s=10, second=False):
        """fills verdict/time/backend on every obligation"""
        def work(ob):
            text = ob.smt2
            v, dt, out, who, verdicts = race(text, timeout_s)
            ob.verdict, ob.time, ob.backend = v, dt, who
            ob.meta["solver_output"] = out[:500]
            ob.meta["raced"] = verdicts
            if v in ("unknown", "timeout") and ob.verdict not in ("sat", "unsat") and CVC5:
                v3, dt3, _ = solve_cvc5(text, timeout_s)
                ob.meta["cvc5"] = v3
                ob.time += dt3
                if v3 in ("sat", "unsat"):
                    ob.verdict, ob.backend = v3, "cvc5-1.0.3"
            if second and ob.verdict == "unsat":
                if is_nonlinear(text) or "(lambda" in text:
                    v2, dt2, _ = solve_z3old(text, timeout_s) if Z3_OLD else ("skipped", 0, "")
                    ob.meta["second"] = ("z3-4.8.12", v2)
                else:
                    v2, dt2, _ = solve_cvc5(text, timeout_s) if CVC5 else ("skipped", 0, "")
                    ob.meta["second"] = ("cvc5-1.0.3", v2)
                    if v2 not in ("unsat", "sat") and Z3_OLD:
                        v2b, dt2b, _ = solve_z3old(text, timeout_s)
                        ob.meta["second"] = ("z3-4.8.12", v2b)
                        v2 = v2b
                ob.time += dt2
                if v2 == "sat":
                    ob.meta["disagreement"] = True
            return ob

        with ThreadPoolExecutor(self.workers) as ex:
            list(ex.map(work, obligations))
        # counter-model extraction uses the in-process API (not thread safe): sequential, main thread
        for ob in obligations:
            if ob.verdict == "sat" and ob.getvals:
                ob.values = extract_model(ob.smt2, ob.getvals)
        return obligations
