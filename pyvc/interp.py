"""Symbolic interpreter for the Python subset used by inference-tools.

It interprets the `ast` of functions read from /repo's working tree on every run -- there is no
hand-written copy of the code anywhere.  Values are Python numbers, `Sym`, `Tensor`, `SymList`, `SymObj`,
Python lists/tuples/dicts of those, and model callables for numpy/scipy/stdlib functions.
"""
from __future__ import annotations
import ast
import hashlib
import os
import itertools
import z3
from . import sym as S
from .sym import Sym, Unsupported, RaisedInCode, PathAbort, ctx, unwrap
from .tensor import Tensor, SymList, from_nested, _ite_any

REPO = os.environ.get("VERIF_REPO", "/repo")


class ReturnSig(Exception):
    def __init__(self, value):
        self.value = value


class BreakSig(Exception):
    pass


class ContinueSig(Exception):
    pass


_DTYPE_KIND = {"numpy.float64": "f", "numpy.int": "i", "numpy.int64": "i", "numpy.bool": "b"}


class Ext:
    """opaque external name (type markers such as numpy.ndarray, un-modelled functions)"""

    def __init__(self, origin):
        self.origin = origin

    def __repr__(self):
        return f"Ext({self.origin})"

    def __eq__(self, o):
        return isinstance(o, Ext) and o.origin == self.origin

    def __hash__(self):
        return hash(self.origin)


class Module:
    def __init__(self, name, path, tree, src):
        self.name, self.path, self.tree, self.src = name, path, tree, src
        self.env = {}


class FuncVal:
    def __init__(self, node, module, cls=None, closure=None, kind="normal", name=None):
        self.node, self.module, self.cls, self.closure, self.kind = node, module, cls, closure, kind
        self.name = name or getattr(node, "name", "<lambda>")

    @property
    def qualname(self):
        return f"{self.cls.name}.{self.name}" if self.cls else self.name

    def __repr__(self):
        return f"FuncVal({self.qualname})"


class BoundMethod:
    def __init__(self, func, self_obj):
        self.func, self.self_obj = func, self_obj

    def __repr__(self):
        return f"Bound({self.func.qualname})"

    def __eq__(self, o):
        return isinstance(o, BoundMethod) and o.func is self.func and o.self_obj is self.self_obj

    def __hash__(self):
        return hash((id(self.func), id(self.self_obj)))


class PropertyVal:
    def __init__(self, getter, setter=None):
        self.getter, self.setter = getter, setter


class ClassVal:
    def __init__(self, name, module, node):
        self.name, self.module, self.node = name, module, node
        self.bases = []
        self.attrs = {}

    def mro(self):
        out = [self]
        for b in self.bases:
            if isinstance(b, ClassVal):
                for c in b.mro():
                    if c not in out:
                        out.append(c)
        return out

    def lookup(self, name):
        for c in self.mro():
            if name in c.attrs:
                return c.attrs[name], c
        return None, None

    def is_subclass(self, other):
        return other in self.mro()

    def __repr__(self):
        return f"ClassVal({self.name})"


_STORES = {}


def _self_stores(cls):
    """names assigned as `self.<name> = ...` (or augmented / annotated) in any method of the class or its bases"""
    out = set()
    for c in cls.mro():
        if id(c) not in _STORES:
            names = set()
            for fn in ast.walk(c.node) if c.node is not None else ():
                if isinstance(fn, (ast.FunctionDef,)) and fn.args.args:
                    me = fn.args.args[0].arg
                    for n in ast.walk(fn):
                        if isinstance(n, ast.Attribute) and isinstance(n.ctx, ast.Store) and isinstance(n.value, ast.Name) \
                                and n.value.id == me:
                            names.add(n.attr)
            _STORES[id(c)] = (c, names)
        out |= _STORES[id(c)][1]
    return out


class SymObj:
    _ids = itertools.count(1)

    def __init__(self, cls, fields=None, origin=None):
        self.cls = cls
        self.fields = fields if fields is not None else {}
        self.origin = origin
        self.alloc = next(SymObj._ids)

    def __repr__(self):
        return f"SymObj({self.cls.name}#{self.alloc})"


class SuperProxy:
    def __init__(self, obj, after_cls):
        self.obj, self.after_cls = obj, after_cls


class GhostFn:
    """user-supplied callable (posterior, forward model ...) represented by a contract-provided handler"""

    def __init__(self, name, handler):
        self.name, self.handler = name, handler

    def __call__(self, *a, **k):
        return self.handler(*a, **k)

    def __repr__(self):
        return f"GhostFn({self.name})"


class Frame:
    def __init__(self, func, locals_):
        self.func = func
        self.locals = locals_
        self.loop_ordinal = itertools.count()


# ================================================================================================


class Interp:
    def __init__(self, models, repo=REPO):
        self.repo = repo
        self.modules = {}
        self.models = models  # origin string -> python callable / value
        self.call_contracts = {}  # qualname -> handler(interp, func, args, kwargs) (modular calls)
        self.loop_specs = {}  # (qualname, ordinal) -> spec
        self.sources = {}  # qualname -> (file, sha)
        self.dropped = set()
        self.depth = 0
        self.max_depth = 60
        self.on_raise = None
        self.current_frames = []
        self.read_attrs = None  # optional read-set recorder: set of (class, attr)
        self.effect_free_receivers = ("ProgressPrinter",)

    # ---- modules ---------------------------------------------------------------------------------
    def module_path(self, dotted):
        p = os.path.join(self.repo, *dotted.split("."))
        if os.path.isdir(p):
            return os.path.join(p, "__init__.py")
        return p + ".py"

    def load_module(self, dotted):
        if dotted in self.modules:
            return self.modules[dotted]
        path = self.module_path(dotted)
        if not os.path.exists(path):
            raise Unsupported(f"module {dotted} not found in repo")
        src = open(path).read()
        tree = ast.parse(src)
        m = Module(dotted, path, tree, src)
        self.modules[dotted] = m
        for node in tree.body:
            self._module_stmt(m, node)
        return m

    def _module_stmt(self, m, node):
        if isinstance(node, ast.Import):
            for a in node.names:
                nm = a.asname or a.name.split(".")[0]
                m.env[nm] = self._resolve_import(a.name if a.asname else a.name.split(".")[0], None)
        elif isinstance(node, ast.ImportFrom):
            for a in node.names:
                m.env[a.asname or a.name] = self._resolve_import(node.module, a.name)
        elif isinstance(node, ast.FunctionDef):
            m.env[node.name] = FuncVal(node, m)
        elif isinstance(node, ast.ClassDef):
            m.env[node.name] = self._make_class(m, node)
        elif isinstance(node, ast.Assign) and len(node.targets) == 1 and isinstance(node.targets[0], ast.Name):
            name = node.targets[0].id
            try:
                fr = Frame(None, {})
                fr.module = m
                m.env[name] = self.eval_in_module(m, node.value)
            except Unsupported:
                m.env[name] = Ext(f"{m.name}.{name}")
        elif isinstance(node, (ast.Expr, ast.If, ast.AnnAssign)):
            pass

    def eval_in_module(self, m, expr):
        f = FuncVal(ast.Lambda(args=None, body=expr), m, name="<module>")
        fr = Frame(f, {})
        self.current_frames.append(fr)
        try:
            return self.eval(expr, fr)
        finally:
            self.current_frames.pop()

    class LazyName:
        def __init__(self, module, name):
            self.module, self.name = module, name

    def _resolve_import(self, module, name):
        origin = module if name is None else f"{module}.{name}"
        if module.startswith("inference"):
            return Interp.LazyName(module, name)
        if origin in self.models:
            return self.models[origin]
        return Ext(origin)

    def _force(self, v):
        if hasattr(v, "symv") and hasattr(v, "conc"):
            return v.get()
        if isinstance(v, Interp.LazyName):
            m = self.load_module(v.module) if v.name is None or not self._is_pkg_attr(v) else None
            if v.name is None:
                return m
            mod = self.load_module(v.module)
            if v.name in mod.env:
                return self._force(mod.env[v.name])
            # submodule import
            return self.load_module(f"{v.module}.{v.name}")
        return v

    def _is_pkg_attr(self, v):
        return False

    def _make_class(self, m, node):
        c = ClassVal(node.name, m, node)
        for b in node.bases:
            try:
                bv = self._force(self.eval_in_module(m, b))
            except Unsupported:
                bv = Ext("base")
            c.bases.append(bv)
        for st in node.body:
            if isinstance(st, ast.FunctionDef):
                kind = "normal"
                prop = None
                for d in st.decorator_list:
                    dn = ast.unparse(d)
                    if dn == "staticmethod":
                        kind = "static"
                    elif dn == "classmethod":
                        kind = "class"
                    elif dn == "property":
                        prop = "get"
                    elif dn.endswith(".setter"):
                        prop = "set"
                    elif dn == "abstractmethod":
                        kind = "abstract" if kind == "normal" else kind
                f = FuncVal(st, m, cls=c, kind=kind)
                key = st.name
                if key.startswith("__") and not key.endswith("__"):
                    key = f"_{node.name.lstrip('_')}{key}"      # private name mangling
                if prop == "get":
                    c.attrs[key] = PropertyVal(f)
                elif prop == "set":
                    c.attrs[key].setter = f
                else:
                    c.attrs[key] = f
            elif isinstance(st, ast.Assign) and len(st.targets) == 1 and isinstance(st.targets[0], ast.Name):
                try:
                    c.attrs[st.targets[0].id] = self.eval_in_module(m, st.value)
                except Unsupported:
                    pass
        return c

    def get_class(self, dotted_module, name):
        m = self.load_module(dotted_module)
        v = self._force(m.env[name])
        if not isinstance(v, ClassVal):
            raise Unsupported(f"{name} is not a class")
        return v

    def get_function(self, dotted_module, qualname):
        m = self.load_module(dotted_module)
        parts = qualname.split(".")
        v = self._force(m.env[parts[0]])
        for p in parts[1:]:
            v, _ = v.lookup(p)
        return v

    def record_source(self, func):
        node = func.node
        if not hasattr(node, "lineno"):
            return
        seg = ast.get_source_segment(func.module.src, node) or ""
        self.sources[f"{func.module.name}:{func.qualname}"] = {
            "file": os.path.relpath(func.module.path, self.repo),
            "qualname": func.qualname,
            "sha256": hashlib.sha256(seg.encode()).hexdigest()[:16],
            "lines": [node.lineno, getattr(node, "end_lineno", node.lineno)],
        }

    # ---- calls -----------------------------------------------------------------------------------
    def instantiate(self, cls, args, kwargs):
        obj = SymObj(cls)
        init, _ = cls.lookup("__init__")
        if init is not None:
            self.call_function(init, [obj] + list(args), kwargs)
        return obj

    def call(self, fn, args, kwargs=None):
        kwargs = kwargs or {}
        fn = self._force(fn)
        if isinstance(fn, BoundMethod):
            return self.call_function(fn.func, [fn.self_obj] + list(args), kwargs)
        if isinstance(fn, FuncVal):
            return self.call_function(fn, list(args), kwargs)
        if isinstance(fn, ClassVal):
            return self.instantiate(fn, args, kwargs)
        if isinstance(fn, SymObj):
            call, _ = fn.cls.lookup("__call__")
            if call is None:
                raise Unsupported(f"{fn} not callable")
            return self.call_function(call, [fn] + list(args), kwargs)
        if isinstance(fn, Ext):
            raise Unsupported(f"call of un-modelled external {fn.origin}")
        if callable(fn):
            if getattr(fn, "wants_interp", False):
                return fn(self, *args, **kwargs)
            return fn(*args, **kwargs)
        raise Unsupported(f"call of non-callable {fn!r}")

    def call_function(self, func, args, kwargs):
        qn = f"{func.module.name}:{func.qualname}"
        h = self.call_contracts.get(qn) or self.call_contracts.get(func.qualname)
        if h is not None:
            return h(self, func, args, kwargs)
        if func.kind == "abstract":
            raise Unsupported(f"call of abstract method {func.qualname}")
        self.record_source(func)
        node = func.node
        locals_ = dict(func.closure or {})
        self._bind_args(func, node.args, args, kwargs, locals_)
        fr = Frame(func, locals_)
        self.depth += 1
        if self.depth > self.max_depth:
            raise Unsupported("call depth exceeded")
        self.current_frames.append(fr)
        try:
            if isinstance(node, ast.Lambda):
                return self.eval(node.body, fr)
            try:
                self.exec_block(node.body, fr)
            except ReturnSig as r:
                return r.value
            return None
        finally:
            self.current_frames.pop()
            self.depth -= 1

    def _bind_args(self, func, a, args, kwargs, out):
        params = [x.arg for x in a.posonlyargs] + [x.arg for x in a.args]
        defaults = a.defaults
        n_no_default = len(params) - len(defaults)
        args = list(args)
        kwargs = dict(kwargs)
        for i, p in enumerate(params):
            if i < len(args):
                out[p] = args[i]
            elif p in kwargs:
                out[p] = kwargs.pop(p)
            elif i >= n_no_default:
                out[p] = self.eval_default(func, defaults[i - n_no_default])
            else:
                raise Unsupported(f"missing argument {p} calling {func.qualname}")
        extra = args[len(params):]
        if a.vararg:
            out[a.vararg.arg] = tuple(extra)
        elif extra:
            raise Unsupported(f"too many positional args calling {func.qualname}")
        for p, d in zip(a.kwonlyargs, a.kw_defaults):
            if p.arg in kwargs:
                out[p.arg] = kwargs.pop(p.arg)
            elif d is not None:
                out[p.arg] = self.eval_default(func, d)
            else:
                raise Unsupported(f"missing kw-only arg {p.arg}")
        if a.kwarg:
            out[a.kwarg.arg] = kwargs
        elif kwargs:
            raise Unsupported(f"unexpected kwargs {list(kwargs)} calling {func.qualname}")

    def eval_default(self, func, node):
        fr = Frame(func, {})
        return self.eval(node, fr)

    # ---- statements ------------------------------------------------------------------------------
    def exec_block(self, stmts, fr):
        for st in stmts:
            self.exec_stmt(st, fr)

    def exec_stmt(self, st, fr):
        m = getattr(self, "s_" + type(st).__name__, None)
        if m is None:
            raise Unsupported(f"statement {type(st).__name__} at line {st.lineno}")
        return m(st, fr)

    def s_Expr(self, st, fr):
        if isinstance(st.value, ast.Constant):
            return  # docstring
        self.eval(st.value, fr)

    def s_Pass(self, st, fr):
        pass

    def s_Assign(self, st, fr):
        v = self.eval(st.value, fr)
        for t in st.targets:
            self.assign(t, v, fr)

    def s_AnnAssign(self, st, fr):
        if st.value is not None:
            self.assign(st.target, self.eval(st.value, fr), fr)

    def s_AugAssign(self, st, fr):
        cur = self.eval(_as_load(st.target), fr)
        rhs = self.eval(st.value, fr)
        if isinstance(cur, Tensor) and not isinstance(st.op, (ast.BitOr,)):
            opn = {ast.Add: "__iadd__", ast.Sub: "__isub__", ast.Mult: "__imul__", ast.Div: "__itruediv__"}.get(
                type(st.op)
            )
            if opn is None:
                raise Unsupported("in-place tensor op")
            res = getattr(cur, opn)(rhs)
            self.assign(st.target, res, fr)
            return
        if isinstance(cur, dict) and isinstance(st.op, ast.BitOr):
            cur.update(rhs)
            return
        if isinstance(cur, list) and isinstance(st.op, ast.Add):
            cur.extend(rhs)
            return
        res = self.binop(st.op, cur, rhs)
        self.assign(st.target, res, fr)

    def s_Return(self, st, fr):
        raise ReturnSig(None if st.value is None else self.eval(st.value, fr))

    def s_If(self, st, fr):
        c = self.truth(self.eval(st.test, fr))
        self.exec_block(st.body if c else st.orelse, fr)

    def s_Raise(self, st, fr):
        name = "Exception"
        if st.exc is not None:
            e = st.exc
            if isinstance(e, ast.Call):
                e = e.func
            name = ast.unparse(e)
            if isinstance(st.exc, ast.Name) and st.exc.id in fr.locals:
                v = fr.locals[st.exc.id]
                if isinstance(v, ExcVal):
                    name = v.name
        raise RaisedInCode(name, st)

    def s_Assert(self, st, fr):
        c = self.truth(self.eval(st.test, fr))
        if not c:
            raise RaisedInCode("AssertionError", st)

    def s_Break(self, st, fr):
        raise BreakSig()

    def s_Continue(self, st, fr):
        raise ContinueSig()

    def s_Delete(self, st, fr):
        for t in st.targets:
            if isinstance(t, ast.Name):
                fr.locals.pop(t.id, None)

    def s_Import(self, st, fr):
        pass

    def s_ImportFrom(self, st, fr):
        for a in st.names:
            fr.locals[a.asname or a.name] = self._resolve_import(st.module, a.name)

    def s_FunctionDef(self, st, fr):
        fr.locals[st.name] = FuncVal(st, fr.func.module, cls=None, closure=fr.locals)

    def s_Try(self, st, fr):
        try:
            self.exec_block(st.body, fr)
        except RaisedInCode as r:
            for h in st.handlers:
                names = []
                if h.type is None:
                    names = None
                elif isinstance(h.type, ast.Tuple):
                    names = [ast.unparse(e) for e in h.type.elts]
                else:
                    names = [ast.unparse(h.type)]
                if names is None or r.exc_name in names or "Exception" in names:
                    self.exec_block(h.body, fr)
                    break
            else:
                raise
        else:
            self.exec_block(st.orelse, fr)
        finally:
            pass
        self.exec_block(st.finalbody, fr)

    def loop_tag(self, func, node):
        """static tag of a loop inside its function: kind#ordinal in source order"""
        tags = getattr(func, "_loop_tags", None)
        if tags is None:
            tags = {}
            counts = {}
            nodes = [n for n in ast.walk(func.node)
                     if isinstance(n, (ast.For, ast.While, ast.ListComp, ast.GeneratorExp, ast.SetComp, ast.DictComp))]
            nodes.sort(key=lambda n: (n.lineno, n.col_offset))
            for n in nodes:
                kind = "for" if isinstance(n, ast.For) else "while" if isinstance(n, ast.While) else "comp"
                i = counts.get(kind, 0)
                counts[kind] = i + 1
                tags[id(n)] = f"{kind}#{i}"
            func._loop_tags = tags
        return tags.get(id(node))

    def find_spec(self, fr, node):
        if fr.func is None or not self.loop_specs:
            return None
        tag = self.loop_tag(fr.func, node)
        return self.loop_specs.get((fr.func.qualname, tag))

    def s_While(self, st, fr):
        spec = self.find_spec(fr, st)
        if spec is not None:
            return spec(self, st, fr)
        n = 0
        while True:
            c = self.truth(self.eval(st.test, fr))
            if not c:
                break
            n += 1
            if n > 64:
                raise Unsupported(f"while loop without spec did not terminate in 64 unrollings ({fr.func.qualname})")
            try:
                self.exec_block(st.body, fr)
            except BreakSig:
                return
            except ContinueSig:
                continue
        self.exec_block(st.orelse, fr)

    def s_For(self, st, fr):
        spec = self.find_spec(fr, st)
        if spec is not None:
            return spec(self, st, fr)
        it = self.eval(st.iter, fr)
        seq = self.concrete_iter(it, what=f"for loop in {fr.func.qualname} ({self.loop_tag(fr.func, st)})")
        broke = False
        for v in seq:
            self.assign(st.target, v, fr)
            try:
                self.exec_block(st.body, fr)
            except BreakSig:
                broke = True
                break
            except ContinueSig:
                continue
        if not broke:
            self.exec_block(st.orelse, fr)

    def s_With(self, st, fr):
        raise Unsupported("with statement")

    # ---- assignment ------------------------------------------------------------------------------
    def assign(self, t, v, fr):
        if isinstance(t, ast.Name):
            fr.locals[t.id] = v
        elif isinstance(t, (ast.Tuple, ast.List)):
            vals = self.concrete_iter(v, what="tuple unpacking")
            vals = list(vals)
            if len(vals) != len(t.elts):
                raise Unsupported("unpack length mismatch")
            for e, x in zip(t.elts, vals):
                self.assign(e, x, fr)
        elif isinstance(t, ast.Attribute):
            obj = self.eval(t.value, fr)
            self.set_attr(obj, self.mangle(t.attr, fr), v)
        elif isinstance(t, ast.Subscript):
            obj = self.eval(t.value, fr)
            key = self.eval_index(t.slice, fr)
            self.set_item(obj, key, v)
        else:
            raise Unsupported(f"assignment target {type(t).__name__}")

    def set_item(self, obj, key, v):
        if isinstance(obj, Tensor):
            obj[key] = v
        elif isinstance(obj, SymList):
            obj.setitem(key, v)
        elif isinstance(obj, list):
            k = unwrap(key)
            if isinstance(k, int):
                obj[k] = v
                self._note_write(obj, "list setitem")
            elif isinstance(k, slice):
                obj[k] = v
            else:
                for i in range(len(obj)):
                    obj[i] = _ite_any(S.cmp("==", key, i), v, obj[i])
                self._note_write(obj, "list setitem")
        elif isinstance(obj, dict):
            obj[self.dict_key(key)] = v
        elif hasattr(obj, "set_item"):
            obj.set_item(self, key, v)
        else:
            raise Unsupported(f"item assignment on {type(obj).__name__}")

    def _note_write(self, obj, what):
        c = ctx()
        if c is not None:
            c.writes.append((obj, what))

    def dict_key(self, k):
        k = unwrap(k)
        if z3.is_expr(k):
            raise Unsupported("symbolic dict key")
        if isinstance(k, str) and k.startswith("<fstr"):
            raise Unsupported("symbolic f-string used as key")
        return k

    def mangle(self, attr, fr):
        if attr.startswith("__") and not attr.endswith("__") and fr.func is not None and fr.func.cls is not None:
            return f"_{fr.func.cls.name.lstrip('_')}{attr}"
        return attr

    def set_attr(self, obj, name, v):
        if isinstance(obj, SymObj):
            d, _ = obj.cls.lookup(name)
            if isinstance(d, PropertyVal):
                if d.setter is None:
                    raise RaisedInCode("AttributeError")
                self.call_function(d.setter, [obj, v], {})
                return
            obj.fields[name] = v
            c = ctx()
            if c is not None:
                c.writes.append((obj, f"attr {name}"))
        elif hasattr(obj, "set_attr"):
            obj.set_attr(self, name, v)
        elif isinstance(obj, Tensor) and name == "shape":
            obj.resize(*v)
        else:
            raise Unsupported(f"attribute assignment on {type(obj).__name__}.{name}")

    # ---- expressions -----------------------------------------------------------------------------
    def eval(self, e, fr):
        m = getattr(self, "e_" + type(e).__name__, None)
        if m is None:
            raise Unsupported(f"expression {type(e).__name__}")
        return m(e, fr)

    def truth(self, v):
        if isinstance(v, Sym):
            return bool(v)
        if isinstance(v, Tensor):
            return bool(v)
        if isinstance(v, SymList):
            return bool(S.cmp(">", v.length(), 0))
        if isinstance(v, (SymObj, FuncVal, BoundMethod, ClassVal, Ext)):
            return True
        return bool(v)

    def e_Constant(self, e, fr):
        return e.value

    def e_Name(self, e, fr):
        n = e.id
        if n in fr.locals:
            return fr.locals[n]
        f = fr.func
        # enclosing closures are merged into locals at call time; module env next
        m = f.module if f is not None else None
        if m is not None and n in m.env:
            return self._force(m.env[n])
        if n in self.builtins:
            return self.builtins[n]
        raise Unsupported(f"unknown name {n}")

    def e_JoinedStr(self, e, fr):
        parts = []
        ok = True
        for v in e.values:
            if isinstance(v, ast.Constant):
                parts.append(str(v.value))
            else:
                try:
                    x = self.eval(v.value, fr)
                except (Unsupported, RaisedInCode):
                    ok = False
                    break
                x = unwrap(x)
                if isinstance(x, (int, str, float, bool)) and v.format_spec is None and v.conversion == -1:
                    parts.append(str(x))
                else:
                    ok = False
                    break
        if ok:
            return "".join(parts)
        return "<fstr>"

    def e_Tuple(self, e, fr):
        return tuple(self._elts(e.elts, fr))

    def e_List(self, e, fr):
        return list(self._elts(e.elts, fr))

    def e_Set(self, e, fr):
        return set(self._elts(e.elts, fr))

    def _elts(self, elts, fr):
        out = []
        for x in elts:
            if isinstance(x, ast.Starred):
                out.extend(self.concrete_iter(self.eval(x.value, fr), what="starred"))
            else:
                out.append(self.eval(x, fr))
        return out

    def e_Dict(self, e, fr):
        d = {}
        for k, v in zip(e.keys, e.values):
            if k is None:
                d.update(self.eval(v, fr))
            else:
                d[self.dict_key(self.eval(k, fr))] = self.eval(v, fr)
        return d

    def e_Slice(self, e, fr):
        return slice(
            None if e.lower is None else self.eval(e.lower, fr),
            None if e.upper is None else self.eval(e.upper, fr),
            None if e.step is None else self.eval(e.step, fr),
        )

    def e_Lambda(self, e, fr):
        return FuncVal(e, fr.func.module, cls=fr.func.cls, closure=fr.locals, name="<lambda>")

    def e_IfExp(self, e, fr):
        c = self.eval(e.test, fr)
        if isinstance(c, Sym) and c.is_bool:
            # try a pure ite first (avoids forking) when both arms are plain scalars
            pass
        return self.eval(e.body if self.truth(c) else e.orelse, fr)

    def e_UnaryOp(self, e, fr):
        v = self.eval(e.operand, fr)
        if isinstance(e.op, ast.USub):
            return -v if isinstance(v, (Tensor, Sym)) else S.neg(v)
        if isinstance(e.op, ast.UAdd):
            return v
        if isinstance(e.op, ast.Not):
            if isinstance(v, Sym) and v.is_bool:
                return S.lnot(v)
            return not self.truth(v)
        if isinstance(e.op, ast.Invert):
            if isinstance(v, (Tensor, Sym)):
                return ~v
            return S.lnot(v) if isinstance(v, bool) else ~v
        raise Unsupported("unary op")

    def e_BinOp(self, e, fr):
        return self.binop(e.op, self.eval(e.left, fr), self.eval(e.right, fr))

    def binop(self, op, a, b):
        t = type(op)
        if isinstance(a, (str, list, tuple, dict, set)) and not isinstance(b, (Tensor, Sym)):
            if t is ast.Add:
                return a + b
            if t is ast.Mult:
                return a * b
            if t is ast.Mod and isinstance(a, str):
                return "<fmt>"
            if t is ast.BitOr:
                return a | b
        if t is ast.Mult and isinstance(a, list) and isinstance(b, Sym) and b.is_int:
            items = list(a)
            m = len(items)
            if m == 0:
                return []
            return SymList(S.mul(b, m) if m != 1 else b, (lambda i: items[0]) if m == 1 else (lambda i: _select(items, S.mod(i, m))))
        if t is ast.Add and isinstance(a, SymList) and isinstance(b, (SymList, list)):
            bl = b if isinstance(b, SymList) else SymList(len(b), lambda i, _b=list(b): _select(_b, i))
            la = a.length()
            fa, fb = a.copy(), bl.copy()
            return SymList(S.add(la, bl.length()), lambda i: _ite_any(S.cmp("<", i, la), fa.at(i), fb.at(S.sub(i, la))))
        if isinstance(a, (list, tuple)) and isinstance(b, Tensor):
            a = from_nested(a)
        if isinstance(b, (list, tuple)) and isinstance(a, Tensor):
            b = from_nested(b)
        if isinstance(a, Tensor) or isinstance(b, Tensor):
            f = {
                ast.Add: lambda x, y: x + y, ast.Sub: lambda x, y: x - y, ast.Mult: lambda x, y: x * y,
                ast.Div: lambda x, y: x / y, ast.FloorDiv: lambda x, y: x // y, ast.Mod: lambda x, y: x % y,
                ast.Pow: lambda x, y: x ** y, ast.MatMult: lambda x, y: x @ y, ast.BitAnd: lambda x, y: x & y,
                ast.BitOr: lambda x, y: x | y,
            }.get(t)
            if f is None:
                raise Unsupported(f"tensor binop {t.__name__}")
            return f(a, b)
        if hasattr(a, "binop"):
            return a.binop(self, op, b, False)
        if hasattr(b, "binop"):
            return b.binop(self, op, a, True)
        if t is ast.Add:
            return S.add(a, b)
        if t is ast.Sub:
            return S.sub(a, b)
        if t is ast.Mult:
            return S.mul(a, b)
        if t is ast.Div:
            return S.div(a, b)
        if t is ast.FloorDiv:
            return S.floordiv(a, b)
        if t is ast.Mod:
            return S.mod(a, b)
        if t is ast.Pow:
            return S.power(a, b)
        if t is ast.BitAnd:
            return S.land(a, b)
        if t is ast.BitOr:
            return S.lor(a, b)
        raise Unsupported(f"binop {t.__name__}")

    def e_BoolOp(self, e, fr):
        is_and = isinstance(e.op, ast.And)
        v = None
        for x in e.values:
            v = self.eval(x, fr)
            t = self.truth(v)
            if is_and and not t:
                return v
            if not is_and and t:
                return v
        return v

    def e_Compare(self, e, fr):
        left = self.eval(e.left, fr)
        res = True
        for op, rn in zip(e.ops, e.comparators):
            right = self.eval(rn, fr)
            r = self.compare(op, left, right)
            if len(e.ops) == 1:
                return r
            if isinstance(r, (Sym, bool)) and isinstance(res, (Sym, bool)):
                res = S.And(res, r) if res is not True else r
            else:
                raise Unsupported("chained comparison of arrays")
            if res is False:
                return False
            left = right
        return res

    def compare(self, op, a, b):
        t = type(op)
        if t in (ast.Is, ast.IsNot):
            r = self._is(a, b)
            return r if t is ast.Is else S.lnot(r) if isinstance(r, Sym) else (not r)
        if t in (ast.In, ast.NotIn):
            r = self._in(a, b)
            return r if t is ast.In else (S.lnot(r) if isinstance(r, Sym) else (not r))
        if isinstance(a, (list, tuple)) and isinstance(b, Tensor):
            a = from_nested(a)
        if isinstance(b, (list, tuple)) and isinstance(a, Tensor):
            b = from_nested(b)
        sym = {ast.Lt: "<", ast.LtE: "<=", ast.Gt: ">", ast.GtE: ">=", ast.Eq: "==", ast.NotEq: "!="}[t]
        if isinstance(a, Tensor) or isinstance(b, Tensor):
            if a is None or b is None:
                return t is ast.NotEq
            return {"<": lambda: a < b, "<=": lambda: a <= b, ">": lambda: a > b, ">=": lambda: a >= b,
                    "==": lambda: a == b, "!=": lambda: a != b}[sym]()
        if isinstance(a, (Sym,)) or isinstance(b, (Sym,)):
            return S.cmp(sym, a, b)
        if isinstance(a, (list, tuple)) and isinstance(b, (list, tuple)) and sym in ("==", "!="):
            if len(a) != len(b):
                return sym == "!="
            eqs = [self.compare(ast.Eq(), x, y) for x, y in zip(a, b)]
            r = S.And(*eqs) if eqs else True
            return r if sym == "==" else S.Not(r)
        if isinstance(a, (SymObj, BoundMethod, FuncVal, ClassVal, Ext)) or isinstance(
            b, (SymObj, BoundMethod, FuncVal, ClassVal, Ext)
        ):
            if sym == "==":
                return a == b
            if sym == "!=":
                return not (a == b)
            raise Unsupported("ordering of objects")
        if isinstance(a, str) or isinstance(b, str) or a is None or b is None:
            if sym == "==":
                return a == b
            if sym == "!=":
                return a != b
        return S.cmp(sym, a, b)

    def _is(self, a, b):
        for x, y in ((a, b), (b, a)):
            if isinstance(x, Sym) and x.is_bool and isinstance(y, bool):
                return x if y else S.lnot(x)
        if isinstance(a, Ext) and isinstance(b, Ext):
            return a == b
        if isinstance(a, BoundMethod) and isinstance(b, BoundMethod):
            return a == b
        if isinstance(a, Sym) or isinstance(b, Sym):
            if a is None or b is None:
                return False
            raise Unsupported("identity test on symbolic value")
        if isinstance(a, (bool, type(None))) or isinstance(b, (bool, type(None))):
            return a is b
        if isinstance(a, (int, float, str)) and isinstance(b, (int, float, str)):
            return type(a) is type(b) and a == b
        return a is b

    def _in(self, a, b):
        if isinstance(b, dict):
            return self.dict_key(a) in b
        if isinstance(b, str):
            return a in b
        if isinstance(b, (list, tuple, set, frozenset)):
            conc = [x for x in b]
            if not isinstance(a, (Sym, Tensor)) and all(not isinstance(x, (Sym, Tensor)) for x in conc):
                return any(self._eq_conc(a, x) for x in conc)
            rs = [self.compare(ast.Eq(), a, x) for x in conc]
            return S.Or(*rs) if rs else False
        if hasattr(b, "contains"):
            return b.contains(self, a)
        raise Unsupported(f"`in` on {type(b).__name__}")

    def _eq_conc(self, a, x):
        try:
            return a == x
        except Exception:
            return False

    def e_Attribute(self, e, fr):
        obj = self.eval(e.value, fr)
        return self.get_attr(obj, self.mangle(e.attr, fr), fr)

    def get_attr(self, obj, name, fr=None):
        obj = self._force(obj)
        if isinstance(obj, SuperProxy):
            mro = obj.obj.cls.mro()
            i = mro.index(obj.after_cls)
            for c in mro[i + 1:]:
                if name in c.attrs:
                    return BoundMethod(c.attrs[name], obj.obj)
            if name == "__init__":
                return lambda *a, **k: None
            raise Unsupported(f"super().{name} not found")
        if isinstance(obj, SymObj):
            if self.read_attrs is not None:
                self.read_attrs.add((obj.cls.name, name))
            if name in obj.fields:
                return obj.fields[name]
            if name == "__class__":
                return obj.cls
            if name == "__dict__":
                return obj.fields
            d, _ = obj.cls.lookup(name)
            if d is None:
                if obj.origin == "contract" and name in _self_stores(obj.cls):
                    # a pre-state written out by the contract (not produced by the real __init__) that lacks an attribute the
                    # class does assign somewhere: the contract does not say what it holds -- undecided, not a raise of the code
                    raise Unsupported(f"the pre-state built by the contract has no attribute '{name}' of {obj.cls.name} "
                                      f"(attribute added to the class? the contract has to state it)")
                raise RaisedInCode("AttributeError")
            if isinstance(d, PropertyVal):
                return self.call_function(d.getter, [obj], {})
            if isinstance(d, FuncVal):
                if d.kind == "static":
                    return d
                if d.kind == "class":
                    return BoundMethod(d, obj.cls)
                return BoundMethod(d, obj)
            return d
        if isinstance(obj, ClassVal):
            if name == "__name__":
                return obj.name
            d, _ = obj.lookup(name)
            if d is None:
                raise RaisedInCode("AttributeError")
            if isinstance(d, FuncVal) and d.kind == "class":
                return BoundMethod(d, obj)
            return d
        if isinstance(obj, Module):
            return self._force(obj.env[name])
        if isinstance(obj, Tensor):
            if name == "dtype":
                return Ext("numpy.float64") if obj.dtype == "real" else Ext(f"numpy.{obj.dtype}")
            if name == "shape":
                return tuple(S.wrap(S.z(s)) if not isinstance(s, (int, Sym)) else s for s in obj.shape)
            if name == "size":
                sz = obj.size
                return S.wrap(sz) if z3.is_expr(sz) else sz
            if not hasattr(obj, name):
                raise Unsupported(f"ndarray.{name} is not modelled")
            return getattr(obj, name)
        if isinstance(obj, SymList):
            return getattr(self, "_symlist_" + name)(obj)
        if isinstance(obj, list):
            if name == "append":
                return lambda v: (obj.append(v), self._note_write(obj, "append"))[0]
            if name == "extend":
                return lambda v: (obj.extend(self.concrete_iter(v, "extend")), self._note_write(obj, "extend"))[0]
            if name in ("copy", "index", "count", "pop", "insert", "reverse"):
                return getattr(obj, name)
            if name == "sort":
                raise Unsupported("list.sort")
        if isinstance(obj, dict):
            if name in ("items", "keys", "values", "get", "update", "copy", "pop"):
                return getattr(obj, name)
        if isinstance(obj, (str, tuple, set)):
            return getattr(obj, name)
        if isinstance(obj, slice) and name in ("start", "stop", "step"):
            return getattr(obj, name)
        if isinstance(obj, Sym):
            if name in ("real",):
                return obj
            if name == "ndim":
                return 0
            if name == "size":
                return 1
            if name == "shape":
                return ()
            if name == "squeeze" or name == "copy" or name == "item":
                return lambda *a, **k: obj
            if name == "astype":
                return lambda *a, **k: obj
        if isinstance(obj, (int, float)) and name in ("real", "imag", "is_integer"):
            return getattr(obj, name)
        if isinstance(obj, Ext):
            if obj.origin in _DTYPE_KIND and name in ("kind", "name", "itemsize"):
                # the dtype of a modelled array (real tensors stand for float64 arrays, int tensors for int64 ones)
                k = _DTYPE_KIND[obj.origin]
                return {"kind": k, "name": obj.origin.split(".")[-1], "itemsize": 1 if k == "b" else 8}[name]
            key = f"{obj.origin}.{name}"
            if key in self.models:
                return self.models[key]
            return Ext(key)
        if hasattr(obj, "get_attr"):
            return obj.get_attr(self, name)
        if hasattr(obj, "vc_attrs") and name in obj.vc_attrs:
            return getattr(obj, name)
        raise Unsupported(f"attribute {name} on {type(obj).__name__}")

    def _symlist_append(self, L):
        return L.append

    def _symlist_copy(self, L):
        return L.copy

    def e_Subscript(self, e, fr):
        obj = self.eval(e.value, fr)
        key = self.eval_index(e.slice, fr)
        return self.get_item(obj, key)

    def eval_index(self, node, fr):
        if isinstance(node, ast.Tuple):
            return tuple(self.eval(x, fr) for x in node.elts)
        return self.eval(node, fr)

    def get_item(self, obj, key):
        if isinstance(obj, Tensor):
            return obj[key]
        if isinstance(obj, SymList):
            return obj.getitem(key)
        if isinstance(obj, (list, tuple)):
            k = unwrap(key)
            if isinstance(k, int):
                return obj[k]
            if isinstance(k, slice):
                parts = [unwrap(k.start), unwrap(k.stop), unwrap(k.step)]
                if all(p is None or isinstance(p, int) for p in parts):
                    return obj[slice(*parts)]
                # symbolic slice of a concrete list -> SymList over it
                src = list(obj)
                return SymList(len(src), lambda i: _select(src, i)).getitem(key)
            if isinstance(key, Sym):
                return _select(list(obj), key)
            raise Unsupported("list index type")
        if isinstance(obj, dict):
            kk = self.dict_key(key)
            if kk not in obj:
                raise RaisedInCode("KeyError")
            return obj[kk]
        if isinstance(obj, str):
            return obj[unwrap(key)]
        if hasattr(obj, "get_item"):
            return obj.get_item(self, key)
        if isinstance(obj, Ext):
            return obj  # typing subscripts such as list[int]
        raise Unsupported(f"subscript on {type(obj).__name__}")

    def e_Starred(self, e, fr):
        raise Unsupported("starred expression")

    def e_Call(self, e, fr):
        # effect-free receivers (progress printing, stdout, plotting)
        if isinstance(e.func, ast.Attribute):
            chain = ast.unparse(e.func.value)
            if chain.endswith("ProgressPrinter") or chain in ("sys.stdout", "plt") or chain.startswith("plt."):
                self.dropped.add(f"call {chain}.{e.func.attr}(...)")
                return None
        if isinstance(e.func, ast.Name) and e.func.id in ("warn", "print"):
            self.dropped.add(f"call {e.func.id}(...)")
            return None
        if isinstance(e.func, ast.Name) and e.func.id == "super":
            if len(e.args) == 0:
                return SuperProxy(fr.locals.get("self") or list(fr.locals.values())[0], fr.func.cls)
            cls = self.eval(e.args[0], fr)
            return SuperProxy(self.eval(e.args[1], fr), cls)
        fn = self.eval(e.func, fr)
        args = []
        for a in e.args:
            if isinstance(a, ast.Starred):
                args.extend(self.concrete_iter(self.eval(a.value, fr), "star-args"))
            else:
                args.append(self.eval(a, fr))
        kwargs = {}
        for k in e.keywords:
            if k.arg is None:
                kwargs.update(self.eval(k.value, fr))
            else:
                kwargs[k.arg] = self.eval(k.value, fr)
        return self.call(fn, args, kwargs)

    # comprehensions ------------------------------------------------------------------------------
    def e_ListComp(self, e, fr):
        return self._comp(e, fr, list)

    def e_GeneratorExp(self, e, fr):
        return self._comp(e, fr, list)

    def e_SetComp(self, e, fr):
        return self._comp(e, fr, set)

    def e_DictComp(self, e, fr):
        out = {}

        def rec(gens, loc):
            if not gens:
                f2 = Frame(fr.func, loc)
                out[self.dict_key(self.eval(e.key, f2))] = self.eval(e.value, f2)
                return
            g = gens[0]
            f2 = Frame(fr.func, loc)
            for v in self.concrete_iter(self.eval(g.iter, f2), "dict comprehension"):
                loc2 = dict(loc)
                f3 = Frame(fr.func, loc2)
                self.assign(g.target, v, f3)
                if all(self.truth(self.eval(c, f3)) for c in g.ifs):
                    rec(gens[1:], loc2)

        rec(e.generators, dict(fr.locals))
        return out

    def _comp(self, e, fr, ctor):
        gens = e.generators
        # single generator over a symbolic-length iterable: comprehension as map
        if len(gens) == 1 and not gens[0].ifs:
            f2 = Frame(fr.func, dict(fr.locals))
            it = self.eval(gens[0].iter, f2)
            spec = self.find_spec(fr, e)
            if spec is not None:
                return spec(self, e, fr, it)
            symlen = self.symbolic_length(it)
            if symlen is not None:
                return self._comp_map(e, fr, it, symlen)
        out = []

        def rec(gens, loc):
            if not gens:
                out.append(self.eval(e.elt, Frame(fr.func, loc)))
                return
            g = gens[0]
            f2 = Frame(fr.func, loc)
            for v in self.concrete_iter(self.eval(g.iter, f2), f"comprehension in {fr.func.qualname}"):
                loc2 = dict(loc)
                f3 = Frame(fr.func, loc2)
                self.assign(g.target, v, f3)
                if all(self.truth(self.eval(c, f3)) for c in g.ifs):
                    rec(gens[1:], loc2)

        rec(gens, dict(fr.locals))
        return ctor(out)

    def _comp_map(self, e, fr, it, symlen):
        g = e.generators[0]
        c = ctx()

        def elem(i):
            loc = dict(fr.locals)
            f3 = Frame(fr.func, loc)
            self.assign(g.target, self.iter_at(it, i), f3)
            nw = len(c.writes)
            v = self.eval(e.elt, f3)
            if len(c.writes) != nw:
                raise Unsupported("side effect inside a comprehension over a symbolic-length iterable")
            return v

        return SymList(symlen, elem)

    # ---- iteration helpers -----------------------------------------------------------------------
    def symbolic_length(self, it):
        """None when `it` can be iterated concretely, else its symbolic length"""
        if isinstance(it, SymRange):
            n = unwrap(it.length())
            return None if isinstance(n, int) else it.length()
        if isinstance(it, (SymList,)):
            n = unwrap(it.length())
            return None if isinstance(n, int) else n
        if isinstance(it, Tensor):
            n = unwrap(it.shape[0])
            return None if isinstance(n, int) else n
        if isinstance(it, (ZipVal, EnumVal)):
            return it.symbolic_length(self)
        if hasattr(it, "symbolic_length"):
            return it.symbolic_length(self)
        return None

    def iter_at(self, it, i):
        if isinstance(it, SymRange):
            return it.at(i)
        if isinstance(it, range):
            return S.add(it.start, S.mul(i, it.step))
        if isinstance(it, SymList):
            return it.at(i)
        if isinstance(it, Tensor):
            return it[i]
        if isinstance(it, (list, tuple)):
            return _select(list(it), i)
        if isinstance(it, (ZipVal, EnumVal)):
            return it.at(self, i)
        if hasattr(it, "iter_at"):
            return it.iter_at(self, i)
        raise Unsupported(f"iter_at on {type(it).__name__}")

    def concrete_iter(self, it, what=""):
        if isinstance(it, (list, tuple, set, str)):
            return list(it)
        if isinstance(it, dict):
            return list(it.keys())
        if type(it).__name__ in ("dict_items", "dict_keys", "dict_values", "range", "zip", "enumerate", "map",
                                 "chain", "generator", "filter", "reversed"):
            return list(it)
        if self.symbolic_length(it) is not None:
            raise Unsupported(f"symbolic-length iteration without a loop contract: {what}")
        if isinstance(it, SymRange):
            return [it.at(i) for i in range(unwrap(it.length()))]
        if isinstance(it, SymList):
            return [it.at(i) for i in range(it.length())]
        if isinstance(it, Tensor):
            return [it[i] for i in range(unwrap(it.shape[0]))]
        if isinstance(it, (ZipVal, EnumVal)):
            return it.concrete(self)
        if hasattr(it, "concrete_iter"):
            return it.concrete_iter(self)
        raise Unsupported(f"iteration over {type(it).__name__}: {what}")

    # ---- builtins ----------------------------------------------------------------------------------
    @property
    def builtins(self):
        if not hasattr(self, "_builtins"):
            self._builtins = make_builtins(self)
        return self._builtins


def _as_load(t):
    import copy
    t2 = copy.copy(t)
    t2.ctx = ast.Load()
    return t2


def _select(items, i):
    """items[i] for symbolic i over a concrete list"""
    ui = unwrap(i)
    if isinstance(ui, int):
        return items[ui]
    if not items:
        raise Unsupported("index into empty list")
    n = len(items)
    i2 = S.ite(S.cmp("<", i, 0), S.add(i, n), i)
    r = items[-1]
    for k in range(n - 2, -1, -1):
        r = _ite_any(S.cmp("==", i2, k), items[k], r)
    return r


class ExcVal:
    def __init__(self, name):
        self.name = name


class SymRange:
    def __init__(self, start, stop, step=1):
        self.start, self.stop, self.step = start, stop, step

    def length(self):
        st = unwrap(self.step)
        if not (isinstance(st, int) and st >= 1):
            raise Unsupported("range step")
        span = S.sub(self.stop, self.start)
        if st == 1:
            return S.smax(span, 0)
        return S.ite(S.cmp("<=", span, 0), 0, S.floordiv(S.add(span, st - 1), st))

    def at(self, i):
        return S.add(self.start, S.mul(i, self.step))


class ZipVal:
    def __init__(self, parts):
        self.parts = parts

    def symbolic_length(self, I):
        ls = [I.symbolic_length(p) for p in self.parts]
        syms = [l for l in ls if l is not None]
        if not syms:
            return None
        # all symbolic parts must have provably equal length; concrete parts are not mixed
        if len(syms) != len(ls):
            raise Unsupported("zip of symbolic and concrete lengths")
        from .tensor import dim_eq
        for l in syms[1:]:
            if not dim_eq(l, syms[0]):
                raise Unsupported("zip of iterables with different symbolic lengths")
        return syms[0]

    def at(self, I, i):
        return tuple(I.iter_at(p, i) for p in self.parts)

    def concrete(self, I):
        return list(zip(*[I.concrete_iter(p, "zip") for p in self.parts]))


class EnumVal:
    def __init__(self, inner, start=0):
        self.inner, self.start = inner, start

    def symbolic_length(self, I):
        return I.symbolic_length(self.inner)

    def at(self, I, i):
        return (S.add(i, self.start), I.iter_at(self.inner, i))

    def concrete(self, I):
        return list(enumerate(I.concrete_iter(self.inner, "enumerate"), self.start))


def make_builtins(I: Interp):
    from . import npmodel as N

    def b_len(x):
        if isinstance(x, (list, tuple, dict, str, set)):
            return len(x)
        if isinstance(x, Tensor):
            return x.length()
        if isinstance(x, SymList):
            return x.length()
        if isinstance(x, SymRange):
            return x.length()
        if hasattr(x, "length"):
            return x.length()
        raise Unsupported(f"len of {type(x).__name__}")

    def b_range(*a):
        a = [unwrap(x) for x in a]
        if all(isinstance(x, int) for x in a):
            return range(*a)
        a = [S.wrap(x) if z3.is_expr(x) else x for x in a]
        if len(a) == 1:
            return SymRange(0, a[0])
        if len(a) == 2:
            return SymRange(a[0], a[1])
        return SymRange(a[0], a[1], a[2])

    def b_isinstance(x, t):
        if isinstance(t, tuple):
            r = False
            for tt in t:
                r1 = b_isinstance(x, tt)
                if r1 is True:
                    return True
            return False
        t = I._force(t)
        if isinstance(t, ClassVal):
            return isinstance(x, SymObj) and x.cls.is_subclass(t)
        name = t.origin if isinstance(t, Ext) else getattr(t, "__name__", str(t))
        name = name.split(".")[-1]
        if name.startswith("b_"):
            name = name[2:]          # the interpreter's own int/float/bool/str/list/... builtins
        if name == "ndarray":
            return isinstance(x, Tensor)
        if name == "int":
            return (isinstance(x, int) and not isinstance(x, bool)) or (isinstance(x, Sym) and x.is_int)
        if name == "float":
            return isinstance(x, float) or (isinstance(x, Sym) and not x.is_int and not x.is_bool)
        if name == "bool":
            return isinstance(x, bool) or (isinstance(x, Sym) and x.is_bool)
        if name == "str":
            return isinstance(x, str)
        if name in ("list",):
            return isinstance(x, (list, SymList))
        if name in ("tuple",):
            return isinstance(x, tuple)
        if name in ("dict",):
            return isinstance(x, dict)
        if name in ("Sequence", "Iterable", "Collection"):
            return isinstance(x, (list, tuple, SymList, str)) or (name == "Iterable" and isinstance(x, (Tensor, set, dict)))
        if name == "Number" or name == "Real":
            return isinstance(x, (int, float, Sym))
        if name == "Generator":
            return getattr(x, "is_rng", False)
        if name == "NoneType" or t is type(None):
            return x is None
        raise Unsupported(f"isinstance against {name}")

    def b_int(x=0):
        if isinstance(x, Tensor):
            x = x.item() if x.ndim == 0 else x.at(*([0] * x.ndim))
        return S.to_int_trunc(x)

    def b_float(x=0.0):
        if isinstance(x, Tensor):
            x = x.item() if x.ndim == 0 else x.at(*([0] * x.ndim))
        return S.to_float(x)

    def b_bool(x=False):
        if isinstance(x, Tensor):
            x = x.item() if x.ndim == 0 else x.at(*([0] * x.ndim))
        if isinstance(x, Sym):
            return x if x.is_bool else S.cmp("!=", x, 0)
        return bool(x)

    def b_abs(x):
        return abs(x) if isinstance(x, (Tensor,)) else S.absval(x)

    def b_minmax(kind):
        f = S.smin if kind == "min" else S.smax

        def g(*a, **k):
            if k:
                raise Unsupported("min/max with key")
            if len(a) == 1:
                items = I.concrete_iter(a[0], kind) if not isinstance(a[0], Tensor) else None
                if items is None:
                    return a[0].min() if kind == "min" else a[0].max()
                a = items
            if not a:
                raise RaisedInCode("ValueError")
            r = a[0]
            for x in a[1:]:
                r = f(r, x)
            return r

        return g

    def b_sum(it, start=0):
        if isinstance(it, Tensor):
            return it.sum()
        if isinstance(it, SymList):
            from .sigma import sigma
            return S.add(start, sigma(it.length(), lambda i: it.at(i)))
        r = start
        for x in I.concrete_iter(it, "sum"):
            r = I.binop(ast.Add(), r, x)
        return r

    def b_any(it):
        if isinstance(it, SymList):
            from .sigma import exists_forall
            return exists_forall(it.length(), lambda i: it.at(i), "any")
        for x in I.concrete_iter(it, "any"):
            if I.truth(x):
                return True
        return False

    def b_all(it):
        if isinstance(it, SymList):
            from .sigma import exists_forall
            return exists_forall(it.length(), lambda i: it.at(i), "all")
        for x in I.concrete_iter(it, "all"):
            if not I.truth(x):
                return False
        return True

    def b_zip(*parts):
        zv = ZipVal(list(parts))
        if zv.symbolic_length(I) is None:
            return zv.concrete(I)
        return zv

    def b_enumerate(x, start=0):
        ev = EnumVal(x, start)
        if ev.symbolic_length(I) is None:
            return ev.concrete(I)
        return ev

    def b_list(x=()):
        if isinstance(x, SymList):
            return x.copy()
        if isinstance(x, Tensor):
            n = unwrap(x.shape[0])
            if isinstance(n, int):
                return [x[i] for i in range(n)]
            fz = x
            return SymList(n, lambda i: fz[i])
        if I.symbolic_length(x) is not None:
            n = I.symbolic_length(x)
            return SymList(n, lambda i: I.iter_at(x, i))
        return list(I.concrete_iter(x, "list()"))

    def b_tuple(x=()):
        return tuple(I.concrete_iter(x, "tuple()"))

    def b_sorted(x, key=None, reverse=False):
        return N.py_sorted(I, x, key, reverse)

    def b_hasattr(o, name):
        if isinstance(o, SymObj):
            if name in o.fields:
                return True
            d, _ = o.cls.lookup(name)
            return d is not None
        if isinstance(o, Tensor):
            return hasattr(o, name)
        return hasattr(o, name)

    def b_getattr(o, name, *default):
        try:
            return I.get_attr(o, name)
        except RaisedInCode:
            if default:
                return default[0]
            raise

    def b_setattr(o, name, v):
        I.set_attr(o, name, v)

    def b_callable(x):
        return isinstance(x, (FuncVal, BoundMethod, GhostFn, ClassVal)) or (
            isinstance(x, SymObj) and x.cls.lookup("__call__")[0] is not None
        ) or (callable(x) and not isinstance(x, (Tensor, Sym)))

    def b_type(x):
        if isinstance(x, SymObj):
            return x.cls
        if isinstance(x, Sym):
            return B["bool"] if x.is_bool else B["int"] if x.is_int else B["float"]
        if isinstance(x, Tensor):
            return Ext("numpy.ndarray")
        for py, nm in ((bool, "bool"), (int, "int"), (float, "float"), (str, "str"), (list, "list"),
                       (tuple, "tuple"), (dict, "dict")):
            if type(x) is py:
                return B[nm]
        return type(x)

    def b_divmod(a, b):
        return S.divmod_(a, b)

    def b_round(x, n=None):
        """round(x, k) for a concrete k >= 0: a multiple r of 10**-k with |r - x| <= 10**-k / 2 (which of the two neighbours is
        taken at an exact tie is left open); round(x) likewise with k = 0, as an int"""
        x, k = unwrap(x), unwrap(n)
        if isinstance(x, (int, float)) and (k is None or isinstance(k, int)):
            return round(x, k) if k is not None else round(x)
        if not (k is None or (isinstance(k, int) and 0 <= k <= 12)):
            raise Unsupported("round with a symbolic or negative number of digits")
        c = ctx()
        if c.concrete:
            raise Unsupported("round in the concrete cross-check")
        scale = 10 ** (k or 0)
        m = c.fresh("rnd", "Int")
        zx = S.to_real(S.z(x)) if not z3.is_real(S.z(x)) else S.z(x)
        c.defs.append(z3.And(2 * (z3.ToReal(m) - zx * scale) <= 1, 2 * (zx * scale - z3.ToReal(m)) <= 1))
        if k is None:
            return Sym(m)
        return Sym(z3.ToReal(m) / scale)

    def b_str(x=""):
        x = unwrap(x)
        if isinstance(x, (int, float, str, bool)):
            return str(x)
        return "<str>"

    def exc(name):
        def mk(*a, **k):
            return ExcVal(name)
        mk.exc_name = name
        return mk

    def b_set(x=()):
        if isinstance(x, SymList) and I.symbolic_length(x) is not None:
            return SymSet(None, symlist=x.copy())
        items = I.concrete_iter(x, "set()")
        if any(isinstance(unwrap(i), z3.ExprRef) for i in items):
            return SymSet(items)
        return set(items)

    def b_dict(*a, **k):
        d = {}
        for x in a:
            d.update(x)
        d.update(k)
        return d

    def b_pow(a, b):
        return S.power(a, b)

    def b_id(x):
        return id(x)

    def b_iter(x):
        return iter(I.concrete_iter(x, "iter"))

    def b_reversed(x):
        return list(reversed(I.concrete_iter(x, "reversed")))

    B = {
        "len": b_len, "range": b_range, "isinstance": b_isinstance, "int": b_int, "float": b_float,
        "bool": b_bool, "abs": b_abs, "min": b_minmax("min"), "max": b_minmax("max"), "sum": b_sum,
        "any": b_any, "all": b_all, "zip": b_zip, "enumerate": b_enumerate, "list": b_list, "tuple": b_tuple,
        "sorted": b_sorted, "hasattr": b_hasattr, "getattr": b_getattr, "setattr": b_setattr,
        "callable": b_callable, "type": b_type, "divmod": b_divmod, "round": b_round, "str": b_str,
        "slice": slice, "set": b_set, "frozenset": lambda x=(): frozenset(I.concrete_iter(x, "frozenset")), "dict": b_dict, "pow": b_pow, "id": b_id, "iter": b_iter, "reversed": b_reversed,
        "issubclass": lambda a, b: isinstance(a, ClassVal) and isinstance(I._force(b), ClassVal) and a.is_subclass(I._force(b)),
        "True": True, "False": False, "None": None, "object": Ext("object"), "callable_": None,
        "NotImplementedError": exc("NotImplementedError"), "ValueError": exc("ValueError"),
        "TypeError": exc("TypeError"), "AttributeError": exc("AttributeError"),
        "AssertionError": exc("AssertionError"), "KeyError": exc("KeyError"), "IndexError": exc("IndexError"),
        "Exception": exc("Exception"), "RuntimeError": exc("RuntimeError"),
        "staticmethod": lambda f: f, "classmethod": lambda f: f, "property": lambda f: f,
        "print": lambda *a, **k: None,
    }
    return B


class SymSet:
    """set of possibly-symbolic integers: only len() is supported (all-distinct test)"""

    def __init__(self, items, symlist=None):
        self.items = list(items) if items is not None else None
        self.symlist = symlist

    def length(self):
        if self.symlist is not None:
            # symbolic-length list: the count equals the length exactly when all entries are pairwise distinct
            L = self.symlist
            n = L.length()
            c = ctx()
            cnt = c.fresh("setlen", "Int")
            c.defs.append(z3.And(cnt >= 0, cnt <= S.z(n), z3.Implies(S.z(n) > 0, cnt >= 1)))
            c.add_forall((n, n), lambda i, j: z3.Implies(z3.And(cnt == S.z(n), S.z(i) != S.z(j)),
                                                        S.z(L.at(i)) != S.z(L.at(j))), "set-distinct")
            # conversely a smaller count has a witness pair of equal entries
            w1, w2 = c.fresh("dup_a", "Int"), c.fresh("dup_b", "Int")
            c.mark_nonneg(w1)
            c.mark_nonneg(w2)
            c.add_index_term(w1)
            c.add_index_term(w2)
            c.defs.append(z3.Implies(cnt != S.z(n), z3.And(w1 >= 0, w1 < S.z(n), w2 >= 0, w2 < S.z(n), w1 != w2,
                                                           S.z(L.at(Sym(w1))) == S.z(L.at(Sym(w2))))))
            return Sym(cnt)
        return self._length_concrete()

    def _length_concrete(self):
        # number of distinct values: len(items) iff pairwise distinct; otherwise smaller.  We return a
        # symbolic count defined by pairwise-distinctness.
        n = len(self.items)
        c = ctx()
        cnt = c.fresh("setlen", "Int")
        distinct = z3.Distinct(*[S.z(x) for x in self.items]) if n > 1 else z3.BoolVal(True)
        c.defs.append(z3.And(cnt >= (1 if n else 0), cnt <= n, (cnt == n) == distinct))
        return Sym(cnt)
