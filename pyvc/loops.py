"""Loops with carried state: cut at the loop head with a sidecar invariant (init / preservation / use).

A `LoopSpec` is registered by a contract for (function qualname, loop tag) where the tag is the static
ordinal of the loop in the function body ("for#0", "while#1", "comp#0" ...).  The engine

  1. proves the invariant on entry                                   -> obligation  <name>.inv.init
  2. on one path: havocs the loop's write set, assumes the invariant at an arbitrary iteration k,
     executes the REAL body once and proves the invariant at k+1      -> obligation  <name>.inv.preserved
     (obligations emitted by hooks on the break / retry edges are proved on this path too)
  3. on another path: havocs, assumes the invariant at the exit count and continues after the loop.

Termination is not proved here (only where a variant is given).
"""
from __future__ import annotations
import ast
import z3
from . import sym as S
from .sym import Sym, ctx, PathAbort, Unsupported, unwrap
from .tensor import Tensor, SymList


def assigned_names(stmts):
    out = []

    def tgt(t):
        if isinstance(t, ast.Name):
            if t.id not in out:
                out.append(t.id)
        elif isinstance(t, (ast.Tuple, ast.List)):
            for e in t.elts:
                tgt(e)

    class V(ast.NodeVisitor):
        def visit_Assign(self, n):
            for t in n.targets:
                tgt(t)
            self.generic_visit(n)

        def visit_AugAssign(self, n):
            tgt(n.target)
            self.generic_visit(n)

        def visit_AnnAssign(self, n):
            tgt(n.target)
            self.generic_visit(n)

        def visit_For(self, n):
            tgt(n.target)
            self.generic_visit(n)

        def visit_ListComp(self, n):
            pass

        def visit_GeneratorExp(self, n):
            pass

        def visit_FunctionDef(self, n):
            pass

        def visit_Lambda(self, n):
            pass

    for s in stmts:
        V().visit(s)
    return out


def fresh_like(v, name):
    """a fresh symbolic value of the same kind/shape as v"""
    c = ctx()
    if isinstance(v, bool):
        return Sym(c.fresh(name, "Bool"))
    if isinstance(v, int):
        return Sym(c.fresh(name, "Int"))
    if isinstance(v, float):
        return Sym(c.fresh(name, "Real"))
    if isinstance(v, Sym):
        return Sym(c.fresh(name, "Bool" if v.is_bool else "Int" if v.is_int else "Real"))
    if isinstance(v, Tensor):
        stem = str(c.fresh(name, "Int"))
        f = z3.Function(stem + "_h", *([z3.IntSort()] * v.ndim), z3.RealSort() if v.dtype != "int" else z3.IntSort())
        return Tensor(v.shape, lambda *idx: Sym(f(*[S.z(i) for i in idx])), dtype=v.dtype)
    return v  # objects keep their identity; their fields are havocked by the spec


class LoopSpec:
    """override what is needed; `name` prefixes the obligations"""

    name = "loop"
    # structural invariants describe HOW the code counts (e.g. "after j groups, j*(m//100) steps"); when the code is
    # restructured they stop being inductive although the property may still hold, so their failure (and the failure
    # of anything proved under them) is reported as UNDECIDED, never as a violation.  Semantic invariants state the
    # property itself (e.g. "the value compared against is beta*F(current point)") and do count as violations.
    structural = False
    fresh_locals = {}  # locals first assigned inside the body but used after the loop: name -> "real"|"int"
    keep_locals = ()   # assigned in the body but to be left alone by the automatic havoc

    def __init__(self, vc):
        self.vc = vc

    def setup(self, I, fr):
        pass

    def invariant(self, I, fr, k):
        return True

    def havoc(self, I, fr, k):
        """havoc heap state modified by the body (locals are havocked automatically)"""

    def on_break(self, I, fr, k):
        pass

    def on_iteration_end(self, I, fr, k):
        pass

    def on_exit(self, I, fr, n):
        pass

    # invariants with universally quantified parts override these two instead of `invariant`
    def assume_inv(self, I, fr, k):
        ctx().assume(self.invariant(I, fr, k))

    def oblige_inv(self, what, I, fr, k):
        self._oblige(what, self.invariant(I, fr, k))

    # ---- engine -------------------------------------------------------------------------------------
    def _havoc_locals(self, st, fr):
        body = st.body if hasattr(st, "body") else []
        names = assigned_names(body)
        for nme in names:
            if nme in self.keep_locals:
                continue
            if nme in fr.locals:
                fr.locals[nme] = fresh_like(fr.locals[nme], nme + "_h")
        c = ctx()
        for nme, kind in self.fresh_locals.items():
            if nme not in fr.locals:
                fr.locals[nme] = Sym(c.fresh(nme + "_h", "Real" if kind == "real" else "Int"))

    def _oblige(self, what, cond):
        self.vc.ensures(f"{self.name}.{what}", cond,
                        kind="structural-invariant" if (self.structural and what.startswith("inv.")) else "ensures")

    def run_for(self, I, st, fr, iterable=None, body_exec=None, assign_target=None):
        c = ctx()
        it = I.eval(st.iter, fr) if iterable is None else iterable
        n = I.symbolic_length(it)
        if n is None:
            n = len(I.concrete_iter(it, "loop with spec"))
        self.setup(I, fr)
        self.oblige_inv("inv.init", I, fr, 0)
        phase = c.fresh(f"phase_{self.name}", "Bool")
        if c.decide(phase):
            # arbitrary iteration
            k = c.fresh("k_" + self.name.replace(".", "_"), "Int")
            c.defs.append(z3.And(k >= 0, k < S.z(n)))
            c.mark_nonneg(k)
            c.add_index_term(k)
            ks = Sym(k)
            self._havoc_locals(st, fr)
            self.havoc(I, fr, ks)
            self.assume_inv(I, fr, ks)
            if assign_target is not None:
                assign_target(I.iter_at(it, ks))
            else:
                I.assign(st.target, I.iter_at(it, ks), fr)
            from .interp import BreakSig, ContinueSig
            try:
                if body_exec is not None:
                    body_exec()
                else:
                    I.exec_block(st.body, fr)
            except BreakSig:
                self.on_break(I, fr, ks)
                return "break"
            except ContinueSig:
                pass
            self.on_iteration_end(I, fr, ks)
            self.oblige_inv("inv.preserved", I, fr, S.add(ks, 1))
            self.vc.path_end_checks()
            raise PathAbort("loop body path")
        # exit path
        self._havoc_locals(st, fr)
        self.havoc(I, fr, n)
        c.assume(S.cmp(">=", n, 0))
        self.assume_inv(I, fr, n)
        self.on_exit(I, fr, n)
        return "exit"

    def __call__(self, I, st, fr, *extra):
        if isinstance(st, ast.For):
            r = self.run_for(I, st, fr)
            if r == "exit":
                I.exec_block(st.orelse, fr)
            return
        if isinstance(st, ast.While):
            return self.run_while(I, st, fr)
        if isinstance(st, (ast.ListComp, ast.GeneratorExp)):
            # side-effecting comprehension over a symbolic range: a loop whose value is not used
            it = extra[0]
            g = st.generators[0]

            def body():
                I.eval(st.elt, fr)

            def assign(v):
                I.assign(g.target, v, fr)

            fake = ast.For(target=g.target, iter=g.iter, body=[ast.Expr(value=st.elt)], orelse=[])
            self.run_for(I, fake, fr, iterable=it, body_exec=body, assign_target=assign)
            return None
        raise Unsupported("loop spec on unsupported node")

    def run_while(self, I, st, fr):
        """while loops: k counts completed iterations (an arbitrary non-negative integer)"""
        c = ctx()
        from .interp import BreakSig, ContinueSig
        self.setup(I, fr)
        self.oblige_inv("inv.init", I, fr, 0)
        k = c.fresh("k_" + self.name.replace(".", "_"), "Int")
        c.defs.append(k >= 0)
        ks = Sym(k)
        self._havoc_locals(st, fr)
        self.havoc(I, fr, ks)
        self.assume_inv(I, fr, ks)
        cond = I.truth(I.eval(st.test, fr))
        if not cond:
            self.on_exit(I, fr, ks)
            I.exec_block(st.orelse, fr)
            return
        try:
            I.exec_block(st.body, fr)
        except BreakSig:
            self.on_break(I, fr, ks)
            return
        except ContinueSig:
            pass
        self.on_iteration_end(I, fr, ks)
        self.oblige_inv("inv.preserved", I, fr, S.add(ks, 1))
        self.vc.path_end_checks()
        raise PathAbort("loop body path")
