"""Assumed contracts of numpy / scipy / stdlib calls (the "A table").

Each model states the documented input/output relation of the library function over the engine's value
domains.  They are *assumptions* about dependencies (listed in every evidence file) and are exercised
against the installed libraries by the concrete cross-check on every run.
"""
from __future__ import annotations
import math
import z3
from . import sym as S
from .sym import Sym, Unsupported, RaisedInCode, ctx, unwrap
from .tensor import Tensor, SymList, from_nested, dim_is, dim_eq, _ite_any
from .sigma import sigma, exists_forall

USED = set()  # names of models used on this run (reported as assumptions)


def model(origin):
    def deco(f):
        def g(*a, **k):
            USED.add(origin)
            return f(*a, **k)
        g.__name__ = f.__name__
        g.origin = origin
        MODELS[origin] = g
        return g
    return deco


MODELS = {}

# ---- uninterpreted transcendental functions with axiom instances ------------------------------------


def _uf1(name, x, axioms=None):
    """application of an uninterpreted function; the argument is first identified with an earlier argument
    of the same function when the solver proves them equal (congruence needs provable, not syntactic,
    equality of arguments -- nonlinear rearrangements of the same quantity are common)"""
    c = ctx()
    zx = S.to_real(S.z(x))
    apps = c.uf_cache.setdefault(("apps", name, tuple(b.get_id() for b in c.bound_stack),
                                  tuple(g.get_id() for gs in c.bound_guards for g in gs)), [])
    for arg, app in apps:
        if arg.eq(zx):
            return Sym(app)
    from .sigma import _prove_eq

    def same(a, b):
        # polynomial normal form first (cheap); the solver only when a quotient is involved and a random
        # exact-rational evaluation does not already separate the two terms (never merging is always sound)
        dlt = z3.simplify(a - b, som=True)
        if z3.is_rational_value(dlt):
            return dlt.as_fraction() == 0
        nf = getattr(c, "numeric_filter", False)
        if nf == "float":
            if _float_different(c, a, b):
                return False
        elif nf:
            if not (_has_div(a) or _has_div(b)):
                return False
            if _numerically_different(c, dlt):
                return False
        return _prove_eq(c, a, b, [], timeout=1500)

    for arg, app in apps:
        if same(arg, zx):
            apps.append((zx, app))
            return Sym(app)
    e = S.uf(name, zx)
    if name == "exp":
        # exp(a)*exp(-a) = 1 for every pair of applications with provably opposite arguments
        for arg, app in apps:
            if same(arg, -zx):
                c.defs.append(e * app == 1)
                break
    apps.append((zx, e))
    if axioms:
        for a in axioms(zx, e):
            c.defs.append(a)
    return Sym(e)


def _numeric(e, memo):
    """exact rational value of a term under a deterministic pseudo-random assignment of its atoms.  Applications of
    uninterpreted functions get a value that is a function of the function name and of the VALUES of their
    arguments, so congruent applications evaluate alike.  Returns None when the value is undefined (division by
    zero) or the term contains a construct that is not evaluated."""
    import zlib
    from fractions import Fraction
    k = e.get_id()
    if k in memo:
        return memo[k]

    def pseudo(text):
        h = zlib.crc32(text.encode())
        return Fraction(3 + h % 991, 3 + (h // 991) % 89)

    r = None
    if z3.is_int_value(e):
        r = Fraction(e.as_long())
    elif z3.is_rational_value(e):
        r = e.as_fraction()
        r = Fraction(r.numerator, r.denominator)
    elif z3.is_app(e):
        kind = e.decl().kind()
        ch = e.children()
        if kind == z3.Z3_OP_UNINTERPRETED:
            vals = [_numeric(c, memo) for c in ch]
            if all(v is not None for v in vals):
                r = pseudo(e.decl().name() + "|" + ",".join(f"{v.numerator}/{v.denominator}" for v in vals))
                if z3.is_int(e):
                    r = Fraction(2 + r.numerator % 37)
        elif kind in (z3.Z3_OP_ADD, z3.Z3_OP_MUL, z3.Z3_OP_SUB, z3.Z3_OP_UMINUS, z3.Z3_OP_DIV, z3.Z3_OP_TO_REAL):
            vals = [_numeric(c, memo) for c in ch]
            if all(v is not None for v in vals):
                if kind == z3.Z3_OP_ADD:
                    r = sum(vals, Fraction(0))
                elif kind == z3.Z3_OP_MUL:
                    r = Fraction(1)
                    for v in vals:
                        r *= v
                elif kind == z3.Z3_OP_SUB:
                    r = vals[0] - sum(vals[1:], Fraction(0))
                elif kind == z3.Z3_OP_UMINUS:
                    r = -vals[0]
                elif kind == z3.Z3_OP_TO_REAL:
                    r = vals[0]
                elif vals[1] != 0:
                    r = vals[0] / vals[1]
        else:
            r = None
    memo[k] = r
    return r


def _numerically_different(c, dlt):
    """the difference of two terms evaluates to a non-zero exact rational under the deterministic assignment: the
    terms are certainly not identical as functions of their atoms (never merging them is sound)"""
    memo = c.uf_cache.setdefault("numeric_memo", {})
    S.PIN.append(dlt)
    v = _numeric(dlt, memo)
    return v is not None and v != 0


def _float_eval(e, seed, memo):
    """floating-point value of a real term under the TRUE meaning of sqrt / exp / log / erf / erfcx / pi and a
    deterministic pseudo-random value for every other symbol; None when something is not understood"""
    import zlib
    k = (e.get_id(), seed)
    if k in memo:
        return memo[k]

    def rnd(tag, lo=0.3, hi=2.5):
        h = zlib.crc32((tag + "#" + str(seed)).encode()) / 2 ** 32
        return lo + (hi - lo) * h

    def ev(t):
        kk = (t.get_id(), seed)
        if kk in memo:
            return memo[kk]
        r = ev1(t)
        memo[kk] = r
        return r

    def ev1(t):
        if z3.is_rational_value(t):
            f = t.as_fraction()
            return f.numerator / f.denominator
        if z3.is_int_value(t):
            return float(t.as_long())
        if not z3.is_app(t):
            return None
        kd = t.decl().kind()
        ch = [ev(c_) for c_ in t.children()] if kd != z3.Z3_OP_ITE else None
        if ch is not None and any(v is None for v in ch):
            return None
        try:
            if kd == z3.Z3_OP_ADD:
                return sum(ch)
            if kd == z3.Z3_OP_SUB:
                return ch[0] - sum(ch[1:])
            if kd == z3.Z3_OP_UMINUS:
                return -ch[0]
            if kd == z3.Z3_OP_MUL:
                r = 1.0
                for v in ch:
                    r *= v
                return r
            if kd == z3.Z3_OP_DIV:
                return ch[0] / ch[1]
            if kd == z3.Z3_OP_POWER:
                return ch[0] ** ch[1]
            if kd == z3.Z3_OP_TO_REAL:
                return ch[0]
            if kd == z3.Z3_OP_UNINTERPRETED:
                nm = t.decl().name()
                if t.num_args() == 0:
                    if nm == "pi":
                        return math.pi
                    return float(int(rnd(nm, 1, 6))) if z3.is_int(t) else rnd(nm)
                if z3.is_int(t):
                    return None
                if nm == "sqrt":
                    return math.sqrt(ch[0])
                if nm == "exp":
                    return math.exp(ch[0])
                if nm == "log":
                    return math.log(ch[0])
                if nm in ("erf", "erfcx"):
                    from scipy import special as _sp
                    return float(getattr(_sp, nm)(ch[0]))
                return rnd(nm + "(" + ",".join(f"{v:.9g}" for v in ch) + ")", -1.5, 1.5)
        except (ValueError, ZeroDivisionError, OverflowError):
            return None
        return None

    return ev(e)


def _float_different(c, a, b):
    """two real terms take clearly different values under the true meaning of the special functions for some
    deterministic assignment of the other symbols: they are not the same function (not merging is always sound);
    equalities that hold only because of hypotheses about ghost functions are not seen by this filter"""
    memo = c.uf_cache.setdefault("float_memo", {})
    S.PIN.extend([a, b])
    for seed in (1, 2, 3):
        va, vb = _float_eval(a, seed, memo), _float_eval(b, seed, memo)
        if va is None or vb is None or va != va or vb != vb:
            continue
        if abs(va - vb) > 1e-6 * max(1.0, abs(va), abs(vb)):
            return True
    return False


def _has_div(e):
    seen = set()
    stack = [e]
    while stack:
        t = stack.pop()
        i = t.get_id()
        if i in seen:
            continue
        seen.add(i)
        if z3.is_app(t):
            if t.decl().kind() in (z3.Z3_OP_DIV, z3.Z3_OP_IDIV, z3.Z3_OP_MOD, z3.Z3_OP_ITE):
                return True
            stack.extend(t.children())
    return False


def _map(x, f):
    if isinstance(x, (list, tuple)):
        x = from_nested(x)
    if isinstance(x, Tensor):
        return x.map(f)
    return f(x)


def _provably_pos(c, e):
    sol = z3.Solver()
    sol.set("timeout", 1500)
    for h in c.hypotheses():
        sol.add(h)
    sol.add(z3.Not(e > 0))
    return sol.check() == z3.unsat


def log_scalar(x):
    if isinstance(x, Sym) and z3.is_app(x.e):
        # log of a quotient / product of provably positive terms is expanded (normal form for sums of logs)
        c = ctx()
        k = x.e.decl().kind()
        ch = x.e.children()
        if k == z3.Z3_OP_DIV and all(_provably_pos(c, S.to_real(t)) for t in ch):
            num = S.wrap(ch[0])
            if z3.is_rational_value(ch[0]) or z3.is_int_value(ch[0]):
                num = S.pynum(num) if not isinstance(num, Sym) else (num.e.as_fraction() if z3.is_rational_value(num.e) else num.e.as_long())
                num = float(num) if num != 1 else 1
            return S.sub(log_scalar(num), log_scalar(S.wrap(ch[1])))
        if k == z3.Z3_OP_MUL and len(ch) <= 4 and all(_provably_pos(c, S.to_real(t)) for t in ch):
            r = log_scalar(S.wrap(ch[0]))
            for t in ch[1:]:
                r = S.add(r, log_scalar(S.wrap(t)))
            return r
    if not isinstance(x, Sym):
        if S.pynum(x) == 1 and ctx() is not None and not ctx().concrete:
            return 0.0
        x = S.pynum(x)
        if not ctx() or ctx().concrete:
            if x != x or x < 0:
                return float("nan")
            return math.log(x) if x > 0 else float("-inf")
        if x <= 0:
            raise Unsupported("log of non-positive constant")
        return _uf1("log", x, _log_ax)
    return _uf1("log", x, _log_ax)


def _log_ax(x, e):
    # products/quotients/powers inside the argument: log(a*b) = log a + log b for positive a,b
    out = []
    if z3.is_app(x):
        k = x.decl().kind()
        ch = x.children()
        if k == z3.Z3_OP_MUL and len(ch) >= 2:
            parts = [S.uf("log", c) for c in ch]
            pos = z3.And(*[c > 0 for c in ch])
            out.append(z3.Implies(pos, e == z3.Sum(parts)))
            for c in ch:
                out.extend(_log_ax(c, S.uf("log", c)))
        elif k == z3.Z3_OP_DIV:
            a, b = ch
            out.append(z3.Implies(z3.And(a > 0, b > 0), e == S.uf("log", a) - S.uf("log", b)))
            out.extend(_log_ax(a, S.uf("log", a)))
            out.extend(_log_ax(b, S.uf("log", b)))
        elif k == z3.Z3_OP_UNINTERPRETED and x.decl().name() == "sqrt":
            a = ch[0]
            out.append(z3.Implies(a > 0, e == S.uf("log", a) / 2))
        elif k == z3.Z3_OP_UNINTERPRETED and x.decl().name() == "exp":
            out.append(e == ch[0])
    if z3.is_rational_value(x) and x.as_fraction() == 1:
        out.append(e == 0)
    return out


def exp_scalar(x):
    if not isinstance(x, Sym):
        x = S.pynum(x)
        if not ctx() or ctx().concrete:
            try:
                return math.exp(x)
            except OverflowError:
                return float("inf")
        if x == 0:
            return 1.0
    return _uf1("exp", x, _exp_ax)


def _exp_ax(x, e):
    out = [e > 0]
    laws = getattr(ctx(), "exact_surds", False)       # opt-in: exp(a+b) = exp(a) exp(b), exp(+-1/2 log u) = sqrt(u)^+-1
    if laws and z3.is_app(x) and x.decl().kind() in (z3.Z3_OP_ADD, z3.Z3_OP_MUL, z3.Z3_OP_SUB, z3.Z3_OP_UMINUS):
        # the sum-of-monomials form of the argument is the one the laws below are stated for
        xs = z3.simplify(x, som=True)
        if not xs.eq(x) and len(str(xs)) < 4000:
            x = xs          # (x and xs are the same real number: the laws below may be stated for either form)
    if z3.is_app(x):
        k = x.decl().kind()
        ch = x.children()
        if laws and k == z3.Z3_OP_ADD and len(ch) <= 6:
            # exp(a + b) = exp(a) exp(b)
            prod = None
            for t in ch:
                et = S.z(exp_scalar(S.wrap(t)))
                prod = et if prod is None else prod * et
            out.append(e == prod)
        if laws and k == z3.Z3_OP_MUL and len(ch) == 2 and z3.is_rational_value(z3.simplify(ch[0])) and z3.is_app(ch[1]) \
                and ch[1].decl().kind() == z3.Z3_OP_UNINTERPRETED and ch[1].decl().name() == "log":
            u = ch[1].arg(0)
            fr = z3.simplify(ch[0]).as_fraction()
            if fr == -1:
                out.append(z3.Implies(u > 0, e * u == 1))
            elif abs(fr) * 2 == 1:
                sq = S.z(S.sqrt_(S.wrap(u)))
                out.append(z3.Implies(u > 0, e == sq if fr > 0 else e * sq == 1))
        if k == z3.Z3_OP_UNINTERPRETED and x.decl().name() == "log":
            out.append(z3.Implies(ch[0] > 0, e == ch[0]))
        if k == z3.Z3_OP_UMINUS:
            out.append(e * S.uf("exp", ch[0]) == 1)
    return out


@model("numpy.log")
def np_log(x):
    if hasattr(x, "log_hook"):          # log(diagonal(cholesky factor)) of the abstract matrix layer
        return x.log_hook()
    return _map(x, log_scalar)


@model("numpy.exp")
def np_exp(x):
    return _map(x, exp_scalar)


@model("numpy.log1p")
def np_log1p(x):
    return _map(x, lambda v: log_scalar(S.add(1, v)))


@model("numpy.expm1")
def np_expm1(x):
    return _map(x, lambda v: S.sub(exp_scalar(v), 1))


@model("numpy.sqrt")
def np_sqrt(x):
    return _map(x, S.sqrt_)


@model("scipy.special.erf")
def sp_erf(x):
    """erf: odd, strictly between -1 and 1 (facts used); its derivative 2/sqrt(pi) exp(-x^2) is in the rule table"""
    if ctx() is None or ctx().concrete:
        from scipy.special import erf as _erf
        return _map(x, lambda v: float(_erf(S.pynum(v))))

    def ax(z_, e):
        return [e > -1, e < 1, S.uf("erf", -z_) == -e]
    return _map(x, lambda v: _uf1("erf", v, ax))


@model("scipy.special.erfcx")
def sp_erfcx(x):
    """scaled complementary error function: erfcx(x) = exp(x^2) (1 - erf(x)) > 0"""
    if ctx() is None or ctx().concrete:
        from scipy.special import erfcx as _e
        return _map(x, lambda v: float(_e(S.pynum(v))))

    def ax(z_, e):
        ex = S.z(exp_scalar(S.wrap(z_ * z_)))
        er = S.z(sp_erf(S.wrap(z_)))
        return [e > 0, e == ex * (1 - er)]
    return _map(x, lambda v: _uf1("erfcx", v, ax))


@model("numpy.logaddexp")
def np_logaddexp(a, b):
    # documented: log(exp(a) + exp(b))
    def f(x, y):
        return log_scalar(S.add(exp_scalar(x), exp_scalar(y)))
    return Tensor.broadcast(a, b, f)


@model("numpy.abs")
def np_abs(x):
    return _map(x, S.absval)


MODELS["numpy.absolute"] = np_abs
class ModeConst:
    """a constant that is a symbol in proof mode and a float in the concrete cross-check (pi)"""

    def __init__(self, symv, conc):
        self.symv, self.conc = symv, conc

    def get(self):
        c = ctx()
        return self.conc if (c is None or c.concrete) else self.symv


MODELS["numpy.pi"] = ModeConst(Sym(S._PI), math.pi)
MODELS["numpy.inf"] = math.inf
MODELS["math.pi"] = MODELS["numpy.pi"]
MODELS["numpy.float64"] = S  # placeholder replaced below
MODELS["numpy.e"] = math.e


class _F64:
    origin = "numpy.float64"

    def __call__(self, x):
        return S.to_float(x)


def _mk_type(origin):
    from .interp import Ext
    return Ext(origin)


def install_types():
    from .interp import Ext
    for o in ("numpy.ndarray", "numpy.float64", "numpy.int64", "typing.Sequence", "typing.Iterable",
              "typing.Union", "collections.abc.Sequence", "collections.abc.Iterable", "abc.ABC",
              "numpy.random.Generator", "numbers.Number", "numpy.integer", "numpy.floating"):
        MODELS[o] = Ext(o)
    MODELS["abc.abstractmethod"] = lambda f: f


@model("numpy.isfinite")
def np_isfinite(x):
    # reals are always finite (NaN/inf are not modelled; stated in the evidence)
    if isinstance(x, Tensor):
        return x.map(lambda v: True, "bool")
    return True


@model("numpy.isscalar")
def np_isscalar(x):
    return isinstance(x, (int, float, Sym)) and not isinstance(x, Tensor)


@model("numpy.array")
def np_array(x, dtype=None, copy=True):
    return to_tensor(x, fresh=True)


@model("numpy.asarray")
def np_asarray(x, dtype=None):
    return to_tensor(x, fresh=False)


MODELS["numpy.ascontiguousarray"] = np_asarray


def to_tensor(x, fresh=True):
    if isinstance(x, Tensor):
        return x.copy() if fresh else x
    if isinstance(x, SymList):
        n = x.length()
        if not isinstance(unwrap(n), int):
            # numpy: array([]) of an empty list is 1-d with shape (0,) whatever the elements would have been
            if bool(S.cmp("==", n, 0)):
                return Tensor((0,), lambda i: 0.0)
        first = x.at(0) if not isinstance(unwrap(n), int) or unwrap(n) > 0 else None
        if isinstance(first, Tensor):
            sub = first.shape
            snap = x.copy()
            return Tensor((n,) + tuple(sub), lambda i, *rest: snap.at(i).at(*rest))
        if isinstance(first, SymList):
            # rows of equal length (numpy would build a ragged object array otherwise: outside the subset)
            m = first.length()
            snap = x.copy()
            return Tensor((n, m), lambda i, j: snap.at(i).at(j))
        if isinstance(first, (list, tuple)):
            raise Unsupported("array() of symbolic list of lists")
        snap = x.copy()
        return Tensor((n,), lambda i: snap.at(i))
    if isinstance(x, (list, tuple)):
        if any(isinstance(e, SymList) for e in x):
            # list of symbolic-length lists -> 2-d
            ls = [e for e in x]
            n = ls[0].length()
            for e in ls:
                if not isinstance(e, SymList) or not dim_eq(e.length(), n):
                    raise Unsupported("ragged array()")
            snaps = [e.copy() for e in ls]
            from .interp import _select
            return Tensor((len(ls), n), lambda i, j: _select([s.at(j) for s in snaps], i))
        return from_nested([_scal(e) for e in x] if not any(isinstance(e, (list, tuple, Tensor)) for e in x) else x)
    if isinstance(x, (int, float, Sym)):
        return Tensor((), lambda: x)
    if hasattr(x, "to_tensor"):
        return x.to_tensor()
    raise Unsupported(f"array() of {type(x).__name__}")


def _scal(e):
    if isinstance(e, Tensor) and e.ndim == 0:
        return e.at()
    return e


@model("numpy.zeros")
def np_zeros(shape, dtype=None):
    if isinstance(shape, (list, tuple)):
        return Tensor(tuple(shape), lambda *idx: 0.0)
    return Tensor((shape,), lambda *idx: 0.0)


@model("numpy.ones")
def np_ones(shape, dtype=None):
    if isinstance(shape, (list, tuple)):
        return Tensor(tuple(shape), lambda *idx: 1.0)
    return Tensor((shape,), lambda *idx: 1.0)


@model("numpy.full")
def np_full(shape, v, dtype=None):
    if isinstance(shape, (list, tuple)):
        return Tensor(tuple(shape), lambda *idx: v)
    return Tensor((shape,), lambda *idx: v)


@model("numpy.zeros_like")
def np_zeros_like(x):
    return Tensor(x.shape, lambda *idx: 0.0)


@model("numpy.eye")
def np_eye(n, dtype=None):
    t = Tensor((n, n), lambda i, j: S.ite(S.cmp("==", i, j), 1.0, 0.0))
    t.is_identity = True
    return t


MODELS["numpy.identity"] = np_eye


@model("numpy.arange")
def np_arange(*a):
    if len(a) == 1:
        return Tensor((S.smax(a[0], 0),), lambda i: i, dtype="int")
    if len(a) == 2:
        return Tensor((S.smax(S.sub(a[1], a[0]), 0),), lambda i: S.add(a[0], i), dtype="int")
    raise Unsupported("arange with step")


@model("numpy.linspace")
def np_linspace(a, b, n=50):
    un = unwrap(n)
    return Tensor((n,), lambda i: S.add(a, S.div(S.mul(S.sub(b, a), i), S.sub(n, 1))))


@model("numpy.searchsorted")
def np_searchsorted(a, v, side="left"):
    """side='left' on an ascending 1-d array: the index k with a[j] < v for j < k and a[j] >= v for j >= k (assumed
    contract of numpy's binary search; the array must be sorted, which the contracts using it establish)"""
    if side != "left":
        raise Unsupported("searchsorted side != left")
    a = to_tensor(a, fresh=False)
    if a.ndim != 1:
        raise Unsupported("searchsorted on a non 1-d array")
    fa = a.frozen()
    n = a.shape[0]
    c = ctx()
    if c.concrete:
        import bisect
        vals = [float(fa.at(i)) for i in range(int(unwrap(n)))]
        one = lambda x: bisect.bisect_left(vals, float(S.pynum(x)))
        if isinstance(v, Tensor):
            return v.map(one, dtype="int")
        return one(v)
    f = z3.Function(f"ssort{a.alloc}", z3.RealSort(), z3.IntSort())
    seen = c.uf_cache.setdefault(("searchsorted", a.alloc), {})

    def one(x):
        zx = S.to_real(S.z(x))
        k = f(zx)
        if S.eid(zx) not in seen:
            seen[S.eid(zx)] = True
            S.PIN.append(zx)
            c.defs.append(z3.And(k >= 0, k <= S.z(n)))
            c.mark_nonneg(k)
            c.add_index_term(k)
            c.add_index_term(k - 1)
            c.add_index_term(z3.IntVal(0))
            c.add_index_term(S.z(n) - 1)
            c.add_forall((n,), lambda j, zx=zx, k=k: z3.And(z3.Implies(S.z(j) < k, S.to_real(S.z(fa.at(j))) < zx),
                                                            z3.Implies(S.z(j) >= k, S.to_real(S.z(fa.at(j))) >= zx)),
                         "searchsorted")
        return Sym(k)

    if isinstance(v, Tensor):
        return v.map(one, dtype="int")
    return one(v)


@model("numpy.divmod")
def np_divmod(a, b):
    q = Tensor.broadcast(a, b, S.floordiv)
    r = Tensor.broadcast(a, b, S.mod)
    return q, r


@model("numpy.where")
def np_where(c, a, b):
    ct = Tensor.lift(c)
    if ct is None:
        return _ite_any(c, a, b) if isinstance(c, Sym) else (a if c else b)
    ab = Tensor.broadcast(a, b, lambda x, y: (x, y))
    if not isinstance(ab, Tensor):
        ab = Tensor((), lambda: (a, b))
    return Tensor.broadcast(ct, ab, lambda cc, xy: S.ite(cc, xy[0], xy[1]) if isinstance(cc, Sym) else (xy[0] if cc else xy[1]))


@model("numpy.squeeze")
def np_squeeze(x, axis=None):
    return x.squeeze() if isinstance(x, Tensor) else x


@model("numpy.expand_dims")
def np_expand_dims(x, axis):
    if axis < 0:
        axis += x.ndim + 1
    key = tuple([slice(None)] * axis + [None])
    return x[key]


@model("numpy.take_along_axis")
def np_take_along_axis(arr, indices, axis):
    if arr.ndim != indices.ndim:
        raise RaisedInCode("ValueError")
    fa, fi = arr.frozen(), indices.frozen()
    shape = list(indices.shape)

    def fn(*idx):
        ii = tuple(0 if dim_is(s, 1) else i for s, i in zip(fi.shape, idx))
        full = list(idx)
        full[axis] = fi.at(*ii)
        return fa.at(*full)

    # broadcast non-axis dims of indices against arr
    for k in range(arr.ndim):
        if k != axis and dim_is(shape[k], 1):
            shape[k] = arr.shape[k]
    return Tensor(shape, fn)


@model("numpy.copy")
def np_copy(x):
    return x.copy() if isinstance(x, Tensor) else x


@model("copy.copy")
def py_copy(x):
    if isinstance(x, Tensor):
        return x.copy()
    if isinstance(x, SymList):
        return x.copy()
    if isinstance(x, list):
        return list(x)
    if isinstance(x, dict):
        return dict(x)
    if isinstance(x, (int, float, Sym, str, tuple, type(None), bool)):
        return x
    raise Unsupported(f"copy of {type(x).__name__}")


@model("copy.deepcopy")
def py_deepcopy(x):
    if isinstance(x, (list, tuple)):
        return type(x)(py_deepcopy(e) for e in x)
    return py_copy(x)


@model("numpy.concatenate")
def np_concatenate(parts, axis=0):
    from .interp import Interp
    if isinstance(parts, SymList):
        raise Unsupported("concatenate of symbolic-length list")
    parts = [to_tensor(p, fresh=False) for p in parts]
    if not parts:
        raise RaisedInCode("ValueError")
    nd = parts[0].ndim
    if axis != 0:
        raise Unsupported("concatenate axis != 0")
    froz = [p.frozen() for p in parts]
    offs = [0]
    for p in parts:
        offs.append(S.add(offs[-1], p.shape[0]))
    shape = (offs[-1],) + tuple(parts[0].shape[1:])

    def fn(i, *rest):
        r = None
        for k in range(len(froz) - 1, -1, -1):
            v = froz[k].at(S.sub(i, offs[k]), *rest)
            r = v if r is None else S.ite(S.cmp("<", i, offs[k + 1]), v, r)
        return r

    return Tensor(shape, fn)


@model("numpy.append")
def np_append(a, b, axis=None):
    a = to_tensor(a, fresh=False)
    b = to_tensor(b, fresh=False)
    if axis is not None:
        # documented: concatenate((a, b), axis) -- both must have the same number of dimensions
        if unwrap(axis) != 0:
            raise Unsupported("np.append along an axis other than 0")
        if a.ndim != b.ndim:
            raise RaisedInCode("ValueError")
        from .tensor import dim_eq
        if not all(dim_eq(p, q) for p, q in zip(a.shape[1:], b.shape[1:])):
            raise Unsupported("np.append: trailing dimensions not provably equal")
        return np_concatenate([a, b])
    if b.ndim == 0:
        b = b.reshape(1)
    if a.ndim == 0:
        a = a.reshape(1)
    if a.ndim != 1 or b.ndim != 1:
        raise Unsupported("np.append of non 1-d")
    return np_concatenate([a, b])


@model("numpy.atleast_2d")
def np_atleast_2d(x):
    t = to_tensor(x, fresh=False)
    if t.ndim == 0:
        return t.reshape(1, 1)
    if t.ndim == 1:
        fz = t.frozen()
        return Tensor((1, t.shape[0]), lambda i, j: fz.at(j), dtype=t.dtype)
    return t


@model("numpy.atleast_1d")
def np_atleast_1d(x):
    t = to_tensor(x, fresh=False)
    if t.ndim == 0:
        return t.reshape(1)
    return t


@model("numpy.diag")
def np_diag(x):
    if hasattr(x, "nf"):
        from . import matalg
        r = matalg.mat_diag(x)
        if r is not None:
            return r
        r = matalg.diagonal(x)
        if r is not None:
            return r
    x = to_tensor(x, fresh=False).frozen()
    if x.ndim == 1:
        n = x.shape[0]
        return Tensor((n, n), lambda i, j: S.ite(S.cmp("==", i, j), x.at(i), 0.0))
    if x.ndim == 2:
        return Tensor((x.shape[0],), lambda i: x.at(i, i))
    raise Unsupported("diag rank")


@model("numpy.diagonal")
def np_diagonal(x):
    if hasattr(x, "nf"):
        from . import matalg
        r = matalg.diagonal(x)
        if r is not None:
            return r
    x = to_tensor(x, fresh=False).frozen()
    return Tensor((x.shape[0],), lambda i: x.at(i, i))


@model("numpy.prod")
def np_prod(x, axis=None):
    return to_tensor(x, fresh=False).prod(axis=axis)


@model("numpy.sum")
def np_sum(x, axis=None):
    return to_tensor(x, fresh=False).sum(axis=axis)


@model("numpy.dot")
def np_dot(a, b):
    from .tensor import matmul
    if not isinstance(a, Tensor) and not isinstance(b, Tensor):
        return S.mul(a, b)
    return matmul(a, b)


@model("numpy.mean")
def np_mean(x, axis=None):
    return to_tensor(x, fresh=False).mean(axis=axis)


@model("numpy.std")
def np_std(x, axis=None, ddof=0):
    """population standard deviation (ddof = 0 only): sqrt(mean((x - mean(x))**2)), built from the modelled reductions"""
    if axis is not None or ddof != 0:
        raise Unsupported("numpy.std with axis / ddof")
    xt = to_tensor(x, fresh=False)
    d = xt - xt.mean()
    return np_sqrt((d * d).mean())


@model("numpy.maximum")
def np_maximum(a, b):
    return Tensor.broadcast(a, b, S.smax)


@model("numpy.minimum")
def np_minimum(a, b):
    return Tensor.broadcast(a, b, S.smin)


@model("numpy.clip")
def np_clip(x, lo, hi):
    return np_minimum(np_maximum(x, lo), hi)


@model("numpy.tanh")
def np_tanh(x):
    return _map(x, lambda v: _uf1("tanh", v) if isinstance(v, Sym) or (ctx() and not ctx().concrete) else math.tanh(v))


# ---- sorting / extremes ------------------------------------------------------------------------------


def _content_key(old, axis):
    """canonical name for 'the sorted rearrangement of this content along axis': two sorts of the same
    content (one inside the code, one stated in the contract) denote the same sequence.  Returns the name
    and the list of non-sorted axes the content actually depends on (the parameters of the sequence)."""
    import hashlib
    from .sigma import contains
    nd = old.ndim
    canon = [z3.Int("P_sort") if d == axis else z3.Int(f"Q_sort{d}") for d in range(nd)]
    c = ctx()
    c._instantiating = True  # reading at the canonical indices must not register instantiation terms
    try:
        e = S.z(old.at(*[Sym(v) for v in canon]))
    finally:
        c._instantiating = False
    e = z3.simplify(e)
    params = [d for d in range(nd) if d != axis and contains(e, canon[d])]
    ren = [(canon[d], z3.Int(f"Q{k}")) for k, d in enumerate(params)]
    text = z3.substitute(e, *ren).sexpr() if ren else e.sexpr()
    return hashlib.sha1(text.encode()).hexdigest()[:10], params


def sort_inplace(t, axis=-1):
    """ndarray.sort(axis): in-place; returns None.  Result is a non-decreasing permutation along `axis`."""
    USED.add("numpy.ndarray.sort")
    if axis < 0:
        axis += t.ndim
    c = ctx()
    old = t.frozen()
    n = t.shape[axis]
    un = unwrap(n)
    nd = t.ndim
    if c.concrete:
        if nd == 1:
            vals = sorted(old.at(i) for i in range(un))
            t.set_fn(lambda i: vals[i], "sort")
            return None
        if nd == 2 and axis == 0:
            m = unwrap(t.shape[1])
            cols = [sorted(old.at(i, j) for i in range(un)) for j in range(m)]
            t.set_fn(lambda i, j: cols[j][i], "sort")
            return None
        raise Unsupported("concrete sort shape")
    key, params = _content_key(old, axis)
    stem = "srt_" + key
    # sorted values as a function of (position along axis, the other indices the content depends on)
    ar = 1 + len(params)
    is_int = (t.dtype == "int")
    if is_int:
        stem += "_i"
    srt = z3.Function(stem, *([z3.IntSort()] * ar), z3.IntSort() if is_int else z3.RealSort())
    perm = z3.Function(stem + "_perm", *([z3.IntSort()] * ar), z3.IntSort())
    inv = z3.Function(stem + "_inv", *([z3.IntSort()] * ar), z3.IntSort())
    other_axes = [k for k in range(nd) if k != axis]
    others = [t.shape[k] for k in other_axes]
    ppos = [other_axes.index(d) for d in params]  # positions of the parameters among `rest`

    def full(i, rest):
        idx = list(rest)
        idx.insert(axis, i)
        return idx

    def canon(i, rest):
        return [i] + [rest[p] for p in ppos]

    if ("sortfacts", stem) not in c.uf_cache:
        c.uf_cache[("sortfacts", stem)] = True

        # sorted: for a <= b: srt[a] <= srt[b]
        def f_sorted(a, b, *rest):
            za, zb = S.z(a), S.z(b)
            r = [S.z(x) for x in rest]
            return z3.Implies(za <= zb, srt(*canon(za, r)) <= srt(*canon(zb, r)))

        c.add_forall((n, n) + tuple(others), f_sorted, "sorted")

        # permutation: srt[a] = old[perm[a]], perm maps into range and inv is its inverse
        def f_perm(a, *rest):
            za = S.z(a)
            r = [S.z(x) for x in rest]
            p = perm(*canon(za, r))
            oldv = S.z(old.at(*[Sym(x) if z3.is_expr(x) else x for x in full(p, r)]))
            q = inv(*canon(za, r))
            return z3.And(p >= 0, p < S.z(n), srt(*canon(za, r)) == (oldv if is_int else S.to_real(oldv)), inv(*canon(p, r)) == za,
                          q >= 0, q < S.z(n), perm(*canon(q, r)) == za)

        c.add_forall((n,) + tuple(others), f_perm, "perm")

    def elem(*idx):
        zi = [S.z(i) for i in idx]
        a = zi.pop(axis)
        c.add_index_term(a, n)
        return Sym(srt(*canon(a, zi)))

    t.set_fn(elem, "sort")
    t.sort_info = {"perm": perm, "inv": inv, "srt": srt, "old": old, "axis": axis}
    c.trace.append(("call", "sort", old, t))
    return None


@model("numpy.sort")
def np_sort(x, axis=-1):
    t = to_tensor(x, fresh=True)
    sort_inplace(t, axis)
    return t


def argextreme(t, axis, kind):
    """argmin/argmax: FIRST index attaining the extreme along `axis` (or of the flattened 1-d array)"""
    USED.add(f"numpy.arg{kind}")
    c = ctx()
    t0 = t
    t = t.frozen()
    le = (lambda a, b: S.cmp("<=", a, b)) if kind == "min" else (lambda a, b: S.cmp(">=", a, b))
    lt = (lambda a, b: S.cmp("<", a, b)) if kind == "min" else (lambda a, b: S.cmp(">", a, b))
    if t.ndim == 1 and axis in (None, 0, -1):
        n = t.shape[0]
        un = unwrap(n)
        if isinstance(un, int):
            if un == 0:
                raise RaisedInCode("ValueError")
            best_i, best_v = 0, t.at(0)
            for i in range(1, un):
                v = t.at(i)
                better = lt(v, best_v)
                best_i = S.ite(better, i, best_i) if isinstance(better, Sym) else (i if better else best_i)
                best_v = S.ite(better, v, best_v) if isinstance(better, Sym) else (v if better else best_v)
            return best_i
        k = c.fresh(f"arg{kind}", "Int")
        c.defs.append(z3.And(k >= 0, k < S.z(n)))
        c.add_index_term(k, n)
        vk = t.at(Sym(k))
        c.add_forall((n,), lambda a: S.And(le(vk, t.at(a)), S.Implies(S.cmp("<", a, Sym(k)), lt(vk, t.at(a)))),
                     f"arg{kind}")
        return Sym(k)
    if t.ndim == 2 and axis == 0:
        n, m = t.shape
        if c.concrete:
            un, um = unwrap(n), unwrap(m)
            res = []
            for j in range(um):
                col = Tensor((un,), lambda i, j=j: t.at(i, j))
                res.append(argextreme(col, None, kind))
            return from_nested(res)
        tag = str(c.fresh(f"arg{kind}v", "Int"))
        kf = z3.Function(tag, z3.IntSort(), z3.IntSort())

        def f_rng(j):
            zj = S.z(j)
            return z3.And(kf(zj) >= 0, kf(zj) < S.z(n))

        c.add_forall((m,), f_rng, "argrange")

        def f_ext(a, j):
            zj = S.z(j)
            vk = t.at(Sym(kf(zj)), j)
            return S.And(le(vk, t.at(a, j)), S.Implies(S.cmp("<", a, Sym(kf(zj))), lt(vk, t.at(a, j))))

        c.add_forall((n, m), f_ext, f"arg{kind}")

        def elem(j):
            c.add_index_term(kf(S.z(j)), n)
            return Sym(kf(S.z(j)))

        return Tensor((m,), elem, dtype="int")
    raise Unsupported(f"arg{kind} shape/axis")


@model("numpy.argmax")
def np_argmax(x, axis=None):
    return argextreme(to_tensor(x, fresh=False), axis, "max")


@model("numpy.argmin")
def np_argmin(x, axis=None):
    return argextreme(to_tensor(x, fresh=False), axis, "min")


def extreme(t, axis, kind):
    if axis is not None or t.ndim != 1:
        if t.ndim == 0:
            return t.at()
        raise Unsupported("max/min over axis")
    k = argextreme(t, None, kind)
    return t.at(k)


@model("numpy.max")
def np_max(x, axis=None):
    return extreme(to_tensor(x, fresh=False), axis, "max")


@model("numpy.min")
def np_min(x, axis=None):
    return extreme(to_tensor(x, fresh=False), axis, "min")


MODELS["numpy.amax"] = np_max
MODELS["numpy.amin"] = np_min


def argsort(t):
    """1-d argsort: a permutation p with t[p[a]] non-decreasing (named canonically by the content, so the
    contract can refer to the same arrangement the code computed)"""
    USED.add("numpy.argsort")
    c = ctx()
    if t.ndim != 1:
        raise Unsupported("argsort rank")
    n = t.shape[0]
    t = t.frozen()
    if c.concrete:
        un = unwrap(n)
        vals = [(t.at(i), i) for i in range(un)]
        vals.sort(key=lambda p: p[0])
        order = [i for _, i in vals]
        return from_nested(order) if order else Tensor((0,), lambda i: 0, dtype="int")
    key, _ = _content_key(t, 0)
    tag = "argsort_" + key
    p = z3.Function(tag, z3.IntSort(), z3.IntSort())
    pinv = z3.Function(tag + "_inv", z3.IntSort(), z3.IntSort())
    if ("argsortfacts", tag) not in c.uf_cache:
        c.uf_cache[("argsortfacts", tag)] = True

        def f_perm(a):
            za = S.z(a)
            return z3.And(p(za) >= 0, p(za) < S.z(n), pinv(p(za)) == za, pinv(za) >= 0, pinv(za) < S.z(n),
                          p(pinv(za)) == za)

        c.add_forall((n,), f_perm, "argsort-perm")

        def f_sorted(a, b):
            za, zb = S.z(a), S.z(b)
            return z3.Implies(za <= zb, S.z(t.at(Sym(p(za)))) <= S.z(t.at(Sym(p(zb)))))

        c.add_forall((n, n), f_sorted, "argsort-sorted")

    def elem(i):
        zi = S.z(i)
        c.add_index_term(zi, n)
        c.add_index_term(p(zi), n)
        c.mark_nonneg(p(zi))
        return Sym(p(zi))

    out = Tensor((n,), elem, dtype="int")
    out.perm_info = {"p": p, "inv": pinv}
    c.trace.append(("call", "argsort", t, out))
    return out


@model("numpy.argsort")
def np_argsort(x):
    return argsort(to_tensor(x, fresh=False))


@model("numpy.random.random")
def np_random_random(size=None):
    """module-level numpy.random.random: uniform on [0, 1); every call and every element a fresh value"""
    c = ctx()
    if c.concrete:
        import numpy as _np
        r = _np.random.random(size=None if size is None else int(unwrap(size)))
        return float(r) if size is None else to_tensor([float(v) for v in r])
    if size is None:
        u = c.fresh("u01", "Real")
        c.defs.append(z3.And(u >= 0, u < 1))
        c.trace.append(("draw", "module_random", u))
        return Sym(u)
    f = z3.Function(str(c.fresh("u01v", "Int")), z3.IntSort(), z3.RealSort())
    c.add_forall((size,), lambda i: z3.And(f(S.z(i)) >= 0, f(S.z(i)) < 1), "u01")
    n_ = unwrap(size)
    if isinstance(n_, int):
        for i in range(n_):
            c.defs.append(z3.And(f(z3.IntVal(i)) >= 0, f(z3.IntVal(i)) < 1))
    c.trace.append(("draw", "module_random_vector", f))
    return Tensor((size,), lambda i: Sym(f(S.z(i))))


@model("numpy.random.permutation")
def np_permutation(n):
    """a uniformly random permutation of 0..n-1: here any permutation"""
    c = ctx()
    if isinstance(n, Tensor):
        raise Unsupported("permutation of an array")
    if c.concrete:
        import numpy as _np
        return from_nested([int(v) for v in _np.random.permutation(int(n))])
    tag = str(c.fresh("rperm", "Int"))
    p = z3.Function(tag, z3.IntSort(), z3.IntSort())
    pinv = z3.Function(tag + "_inv", z3.IntSort(), z3.IntSort())

    def f_perm(a):
        za = S.z(a)
        return z3.And(p(za) >= 0, p(za) < S.z(n), pinv(p(za)) == za, pinv(za) >= 0, pinv(za) < S.z(n), p(pinv(za)) == za)

    c.add_forall((n,), f_perm, "random-permutation")
    c.trace.append(("draw", "permutation", tag, n))
    return Tensor((n,), lambda i: Sym(p(S.z(i))), dtype="int")


def py_sorted(I, x, key, reverse):
    """sorted(): stable; with symbolic keys the order is decided by case split on the comparisons"""
    if reverse:
        raise Unsupported("sorted reverse")
    if I.symbolic_length(x) is not None:
        return sorted_symbolic(I, x, key)
    items = I.concrete_iter(x, "sorted")
    keys = [I.call(key, [it]) if key is not None else it for it in items]
    if all(not isinstance(unwrap(k), z3.ExprRef) for k in keys):
        order = sorted(range(len(items)), key=lambda i: unwrap(keys[i]))
        return [items[i] for i in order]
    if len(items) > 5:
        # too many items for a case split on the comparisons: the permutation contract of the built-in instead
        from .interp import _select
        snap = list(items)
        return sorted_symbolic(I, SymList(len(snap), lambda i: _select(snap, i)), key)
    order = []
    for i in range(len(items)):          # stable insertion sort, forking on each comparison
        pos = len(order)
        while pos > 0 and I.truth(S.cmp("<", keys[i], keys[order[pos - 1]])):
            pos -= 1
        order.insert(pos, i)
    return [items[i] for i in order]


def sorted_symbolic(I, x, key):
    """sorted() of a symbolic-length list: a permutation of the items with non-decreasing keys (assumed
    contract of the built-in; stability is not modelled)"""
    c = ctx()
    n = I.symbolic_length(x)
    if n is None and isinstance(x, SymList):
        n = x.length()                   # (a concrete length: too many items for the case split)
    src = x.copy() if isinstance(x, SymList) else SymList(n, lambda i: I.iter_at(x, i))
    tag = str(c.fresh("sortedp", "Int"))
    p = z3.Function(tag, z3.IntSort(), z3.IntSort())
    pinv = z3.Function(tag + "_inv", z3.IntSort(), z3.IntSort())
    c.add_forall((n,), lambda a: z3.And(p(S.z(a)) >= 0, p(S.z(a)) < S.z(n), pinv(p(S.z(a))) == S.z(a),
                                        pinv(S.z(a)) >= 0, pinv(S.z(a)) < S.z(n), p(pinv(S.z(a))) == S.z(a)), "sorted-perm")
    keyf = (lambda it: I.call(key, [it])) if key is not None else (lambda it: it)
    c.add_forall((n, n), lambda a, b: z3.Implies(S.z(a) <= S.z(b),
                                                 S.z(keyf(src.at(Sym(p(S.z(a)))))) <= S.z(keyf(src.at(Sym(p(S.z(b))))))),
                 "sorted-keys")
    out = SymList(n, lambda i: src.at(Sym(p(S.z(i)))))
    c.trace.append(("call", "sorted", src, out))
    out.perm = p
    return out


@model("numpy.random.default_rng")
def np_default_rng(seed=None):
    from .objlist import RngModel
    if ctx().concrete:
        import numpy as _np
        return _np.random.default_rng(seed)
    return RngModel("default_rng")


@model("itertools.chain")
def it_chain(*parts):
    out = []
    for p in parts:
        if isinstance(p, SymList):
            n = unwrap(p.length())
            if not isinstance(n, int):
                raise Unsupported("itertools.chain over a symbolic-length list")
            out.extend(p.at(i) for i in range(n))
        elif isinstance(p, Tensor):
            out.extend(p[i] if p.ndim > 1 else p.at(i) for i in range(len(p)))
        else:
            out.extend(list(p))
    return out


def _opaque_matrix(stem, shape):
    c = ctx()
    f = z3.Function(str(c.fresh(stem, "Int")), *([z3.IntSort()] * len(shape)), z3.RealSort())
    return Tensor(shape, lambda *idx: Sym(f(*[S.z(i) for i in idx])))


@model("numpy.linalg.cholesky")
def np_cholesky(K):
    """abstract matrix layer when the argument is in normal form (pyvc.matalg); otherwise an element-level stand-in:
    some lower-triangular factor"""
    if ctx().concrete:
        raise Unsupported("cholesky in the concrete cross-check")
    if hasattr(K, "nf"):
        from . import matalg
        return matalg.cholesky(K)
    return _opaque_matrix("chol", K.shape)


@model("scipy.linalg.solve_triangular")
def sp_solve_triangular(A, b, lower=False, trans=0):
    if ctx().concrete:
        raise Unsupported("solve_triangular in the concrete cross-check")
    if hasattr(A, "nf"):
        from . import matalg
        return matalg.solve_triangular(A, b, lower=lower, trans=trans)
    return _opaque_matrix("trisolve", b.shape)


@model("scipy.linalg.solve")
def sp_solve(A, b, **kw):
    if ctx().concrete:
        raise Unsupported("solve in the concrete cross-check")
    if hasattr(A, "nf"):
        from . import matalg
        return matalg.solve(A, b)
    return _opaque_matrix("solve", b.shape)


MODELS["numpy.linalg.solve"] = sp_solve


@model("scipy.linalg.cho_solve")
def sp_cho_solve(c_and_lower, b, **kw):
    """cho_solve((L, True), b) with L the lower Cholesky factor of X: X^-1 b, i.e. the two triangular solves L^-T (L^-1 b)"""
    if ctx().concrete:
        raise Unsupported("cho_solve in the concrete cross-check")
    try:
        Lm, lower = c_and_lower
    except Exception:
        raise Unsupported("cho_solve argument")
    if not (isinstance(unwrap(lower), bool) and unwrap(lower)) or not hasattr(Lm, "nf"):
        raise Unsupported("cho_solve with an upper factor / outside the abstract matrix layer")
    from . import matalg
    return matalg.solve_triangular(Lm.T, matalg.solve_triangular(Lm, b, lower=True), lower=False)


def _it_chain_from_iterable(parts):
    return it_chain(*list(parts))


it_chain.from_iterable = _it_chain_from_iterable
it_chain.vc_attrs = ("from_iterable",)


@model("inspect.isclass")
def py_isclass(x):
    from .interp import ClassVal
    return isinstance(x, ClassVal)


def simpson_weights(x):
    """the quadrature weights scipy.integrate.simpson uses on the grid `x` (composite Simpson rule, a fixed linear functional of the
    integrand for a given grid): an uninterpreted function of the position, one per grid object"""
    c = ctx()
    key = ("simpson_weights", x.alloc)
    if key not in c.uf_cache:
        c.uf_cache[key] = z3.Function(str(c.fresh("simpson_w", "Int")), z3.IntSort(), z3.RealSort())
    W = c.uf_cache[key]
    return lambda i: Sym(W(S.z(i)))


@model("scipy.integrate.simpson")
def sp_simpson(y, x=None, dx=1.0, axis=-1, **kw):
    """simpson(y, x=x) = sum_i w_i(x) y_i (ASSUMED: linear in the integrand with weights depending on the grid only)"""
    c = ctx()
    if c.concrete:
        raise Unsupported("simpson in the concrete cross-check")
    ty, tx = Tensor.lift(y), Tensor.lift(x)
    if tx is None or ty is None or ty.ndim != 1 or tx.ndim != 1:
        raise Unsupported("simpson without a 1-d grid")
    USED.add("scipy.integrate.simpson(y, x=x) = sum_i w_i(x) y_i: linear in the integrand, weights depend on the grid only (assumed)")
    W = simpson_weights(tx)
    fz = ty.frozen()
    return sigma(ty.shape[0], lambda i: S.mul(W(i), fz.at(i)))


@model("numpy.array_equal")
def np_array_equal(a, b, equal_nan=False):
    """array_equal(a, b): same shape and all elements equal (shapes compared concretely where both are concrete, else
    taken from the first operand when the extents are provably the same objects; otherwise outside the subset)"""
    if a is None or b is None:
        return a is None and b is None          # (array(None) is a 0-d object array: equal to nothing but itself)
    ta, tb = Tensor.lift(a), Tensor.lift(b)
    if ta is None or tb is None:
        raise Unsupported("array_equal of non-arrays")
    if ta.ndim != tb.ndim:
        return False
    for x, y in zip(ta.shape, tb.shape):
        x, y = unwrap(x), unwrap(y)
        if isinstance(x, int) and isinstance(y, int):
            if x != y:
                return False
        elif not (x is y or (z3.is_expr(x) and z3.is_expr(y) and x.eq(y))):
            raise Unsupported("array_equal of arrays whose extents are not syntactically the same")
    if ta.ndim == 0:
        return S.cmp("==", ta.at(), tb.at())
    return (ta == tb).all()


@model("numpy.ptp")
def np_ptp(x):
    return S.sub(np_max(x), np_min(x))


@model("time.time")
def py_time():
    """time(): an arbitrary non-decreasing clock"""
    c = ctx()
    if c.concrete:
        import time as _t
        return _t.time()
    t = c.fresh("clock", "Real")
    last = c.uf_cache.get("clock_last")
    if last is not None:
        c.defs.append(t >= last)
    c.uf_cache["clock_last"] = t
    c.trace.append(("clock", t))
    return Sym(t)


install_types()
