"""Symbolic differentiation of z3 real terms (rule table).  `dleaf(e)` gives the derivative of an atomic
term with respect to the differentiation variable (None = does not depend on it)."""
from __future__ import annotations
import z3
from . import sym as S
from .sym import ctx, to_real
from .sigma import split_linear, _atom, bound_var

ZERO = z3.RealVal(0)


def _is0(e):
    return z3.is_rational_value(e) and e.as_fraction() == 0


def _mul(a, b):
    if _is0(a) or _is0(b):
        return ZERO
    return a * b


def _add(a, b):
    if _is0(a):
        return b
    if _is0(b):
        return a
    return a + b


class Diff:
    def __init__(self, dleaf):
        self.dleaf = dleaf
        self.memo = {}
        self.c = ctx()

    def __call__(self, e):
        e = to_real(e) if z3.is_int(e) else e
        k = S.eid(e)
        if k in self.memo:
            return self.memo[k]
        r = self._d(e)
        self.memo[k] = r
        return r

    def _d(self, e):
        if z3.is_rational_value(e) or z3.is_int_value(e) or z3.is_algebraic_value(e):
            return ZERO
        if not z3.is_app(e):
            raise S.Unsupported("differentiation of non-application term")
        kind = e.decl().kind()
        ch = e.children()
        if kind == z3.Z3_OP_ADD:
            r = ZERO
            for c in ch:
                r = _add(r, self(c))
            return r
        if kind == z3.Z3_OP_SUB:
            r = self(ch[0])
            for c in ch[1:]:
                d = self(c)
                if not _is0(d):
                    r = r - d
            return r
        if kind == z3.Z3_OP_UMINUS:
            d = self(ch[0])
            return ZERO if _is0(d) else -d
        if kind == z3.Z3_OP_MUL:
            r = ZERO
            for i, c in enumerate(ch):
                d = self(c)
                if _is0(d):
                    continue
                term = d
                for j, o in enumerate(ch):
                    if j != i:
                        term = term * to_real(o)
                r = _add(r, term)
            return r
        if kind == z3.Z3_OP_DIV:
            a, b = ch
            da, db = self(a), self(b)
            if _is0(db):
                return ZERO if _is0(da) else da / b
            return (_add(_mul(da, b), -_mul(a, db))) / (b * b)
        if kind == z3.Z3_OP_POWER:
            a, p = ch
            if not (z3.is_rational_value(p) or z3.is_int_value(p)):
                raise S.Unsupported("derivative of general power")
            da = self(a)
            if _is0(da):
                return ZERO
            return p * (a ** (p - 1)) * da
        if kind == z3.Z3_OP_TO_REAL:
            inner = ch[0]
            if z3.is_app(inner) and inner.decl().kind() == z3.Z3_OP_ITE:
                return self(z3.If(inner.arg(0), z3.ToReal(inner.arg(1)), z3.ToReal(inner.arg(2))))
            return ZERO
        if kind == z3.Z3_OP_ITE:
            c, a, b = ch
            da, db = self(a), self(b)
            if _is0(da) and _is0(db):
                return ZERO
            return z3.If(c, da, db)
        if kind == z3.Z3_OP_UNINTERPRETED:
            name = e.decl().name()
            atom = self.c.sigma_table.get(e.get_id())
            if atom is not None:
                return self._d_sigma(atom)
            if name in ("log", "exp", "sqrt", "tanh", "erf", "erfc", "erfcx", "pow", "npdf", "ncdf", "mills") and ch:
                x = ch[0]
                dx = self(x)
                if name == "pow":
                    p = ch[1]
                    dp = self(p)
                    if not _is0(dp):
                        raise S.Unsupported("derivative wrt exponent")
                    if _is0(dx):
                        return ZERO
                    return p * S.uf("pow", x, p - 1) * dx
                if _is0(dx):
                    return ZERO
                if name == "log":
                    return dx / x
                if name == "exp":
                    return e * dx
                if name == "sqrt":
                    return dx / (2 * e)
                if name == "tanh":
                    return (1 - e * e) * dx
                if name == "erf":
                    return (2 / S.z(S.sqrt_(S.Sym(S._PI)))) * S.uf("exp", -(x * x)) * dx
                if name == "mills":            # Phi(x)/phi(x): derivative x*mills(x) + 1 (proved for the real code in C18)
                    return (x * e + 1) * dx
                if name == "erfcx":
                    return (2 * x * e - 2 / S.z(S.sqrt_(S.Sym(S._PI)))) * dx
                if name == "npdf":
                    return -x * e * dx
                if name == "ncdf":
                    return S.uf("npdf", x) * dx
                raise S.Unsupported(f"derivative of {name}")
            d = self.dleaf(e)
            return ZERO if d is None else d
        raise S.Unsupported(f"differentiation of {e.decl().name()}")

    def _d_sigma(self, atom):
        c = self.c
        k = bound_var(atom.depth)
        saved = c.bound_stack
        c.bound_stack = [bound_var(i) for i in range(atom.depth)]
        try:
            dcore = self(atom.core)
            if _is0(dcore):
                return ZERO
            total = ZERO
            for coef, core in split_linear(z3.simplify(dcore), k):
                if core is None:
                    term = to_real(coef) * to_real(atom.extent - atom.lo)
                else:
                    term = to_real(coef) * _atom(c, core, atom.extent, atom.lo, atom.depth, k)
                total = _add(total, term)
            return total
        finally:
            c.bound_stack = saved


def derivative(value, dleaf):
    e = S.z(value)
    return S.wrap(Diff(dleaf)(e))
