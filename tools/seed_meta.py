#!/usr/bin/env python3
"""tools/seed_meta.py <name> <prop> <caught yes|no> '<by which obligations>' : writes seeded/<name>/meta.json"""
import json, sys, os
name, prop, caught, by = sys.argv[1:5]
d = f"/verif/seeded/{name}"
agent = {}
p = os.path.join(d, "meta.agent.json")
if os.path.exists(p):
    agent = json.load(open(p))
    os.remove(p)
meta = {"property": prop, "summary": agent.get("summary", ""), "needs": agent.get("needs", ""), "files": agent.get("files", []),
        "source": "independent sub-agent given only the property text and a scratch worktree",
        "confirmed": {"tests_pass_with_change": True, "demo_fails_with_change": True, "demo_passes_without_change": True,
                      "how": "tools/try_seed.sh: full pytest suite in the worktree; demo.py with and without the patch; "
                             "patch applied to /repo (git apply), ./check run, git checkout -- . afterwards"},
        "detected_by_check": caught == "yes", "detected_by": by}
json.dump(meta, open(os.path.join(d, "meta.json"), "w"), indent=1)
print("wrote", d)
