#!/bin/bash
# tools/triage_seed.sh <PROP> <worktree> <name>: copy the agent's files to seeded/<name>, confirm tests + demo in the
# worktree, then run ./check PROP against a scratch copy of the CURRENT /repo source with the patch applied (VERIF_REPO);
# /repo itself is not touched (tools/run_seeds.sh does the apply-to-/repo confirmation for all seeds afterwards)
PROP=$1; WT=$2; NAME=$3
D=/verif/seeded/$NAME; mkdir -p $D
cp $WT/_seed/patch.diff $WT/_seed/demo.py $D/ 2>/dev/null; cp $WT/_seed/meta.json $D/meta.agent.json 2>/dev/null
cd $WT
echo "--- tests with change: $(PYTHONPATH=$WT MPLBACKEND=Agg /venv/bin/python -m pytest -q -p no:cacheprovider -x tests 2>&1 | tail -1)"
PYTHONPATH=$WT MPLBACKEND=Agg timeout 600 /venv/bin/python _seed/demo.py > /tmp/demo_with_$PROP.out 2>&1; echo "--- demo with change: exit=$? $(tail -1 /tmp/demo_with_$PROP.out | cut -c1-120)"
git apply -R _seed/patch.diff
PYTHONPATH=$WT MPLBACKEND=Agg timeout 600 /venv/bin/python _seed/demo.py > /tmp/demo_wo_$PROP.out 2>&1; echo "--- demo without change: exit=$? $(tail -1 /tmp/demo_wo_$PROP.out | cut -c1-120)"
git apply _seed/patch.diff
T=$(mktemp -d /tmp/triXXXX); cp -r /repo/inference $T/; (cd $T && patch -s -p1 < $D/patch.diff) || echo "PATCH DOES NOT APPLY TO CURRENT /repo"
cd /verif
VERIF_REPO=$T ./check $PROP > /tmp/check_seed_$PROP.out 2>&1; echo "--- our check: exit=$?"
grep -E "^(VIOLATION|UNDECIDED|CHECKER|OK)" /tmp/check_seed_$PROP.out | sed -E 's/replay=[^ ]* //' | cut -c1-190 | head -8
rm -rf $T
