#!/usr/bin/env python3
"""Regenerates MANIFEST.json from the table below (kept valid at all times)."""
import json, os
HERE = os.path.dirname(os.path.dirname(os.path.abspath(__file__)))
ALL = [f"C{i:02d}" for i in range(1, 21)]

CLAIMED = {
    "C04": dict(
        text="Proof: VCs generated from the AST of the real Bounds/Parameter code are discharged by z3 for all "
             "lengths, bounds and overshoots; every sampler step evaluates the posterior only inside the limits in force and stores "
             "only such points; the finite-difference gradient of HamiltonianChain takes non-zero steps that stay inside the bounds; "
             "the same contracts are evaluated as run-time postconditions on a bounded adversarial input family (boxes far from zero, "
             "tiny, all-negative; huge proposals). The fold-with-parity map reflect_momenta and its use after every drift of the real "
             "bounded_leapfrog loop (C07 contracts) are obligations of this property too; bounded: trajectories drifting up to 12.5 box "
             "widths per step against a mirror-by-mirror reference (position folded, momentum reversed for odd fold counts).",
        note="floats idealised as reals (float-level behaviour only in the bounded layer); numpy divmod/% contracts assumed; "
             "pyvc VC generator trusted (cross-checked against CPython every run)",
        ref="3/C04"),
    "C05": dict(
        text="Proof: for every data length and parameter count, the value returned by the real _log_likelihood code equals the "
             "sum of the named log-densities written in the contract, the gradient equals both the chain-rule formula and "
             "the symbolic derivative of the returned value term, and cost/cost_gradient are exact negatives; the object is the likelihood of "
             "the data given to the constructor (the caller changing its y / uncertainty arrays in place afterwards changes nothing). "
             "Bounded run-time evaluation of the same contracts stands in for float behaviour.",
        note="log/exp uninterpreted with the axiom instances listed in the evidence; reductions via linearity/congruence of "
             "finite sums; normalisation of the named densities (integrate to one) is a textbook fact, assumed; floats as reals",
        ref="3/C05"),
    "C01": dict(
        text="Proof of the property's concrete clause for every sampler step: on every accept and every retry edge of the real "
             "take_step / __advance_walker code, the value compared against is beta*F(current point), the candidate value is "
             "beta*F of the very point proposed, the proposal has the stated symmetric form (one folded coordinate move, folded "
             "step along a direction, leapfrog end point from the current state, Goodman-Weare stretch about another walker) and "
             "the decision is exactly the Metropolis-Hastings rule, for all dimensions, chain lengths, temperatures and bounds. "
             "The ensemble's stretch limits sqrt(2/alpha), sqrt(2 alpha) are established by the real constructor. The step from "
             "per-decision correctness to the limit law is a meta-theorem and is assumed; bounded: long runs of every sampler (plain, "
             "tempered, bounded, stretch parameters 1.5-3.5) reproduce the exact moments of a known target within batch-means error.",
        note="KNOWN FINDING (recorded, printed on every run): all samplers record the jump chain (re-draw until acceptance), so the "
             "limit law of the recorded samples is pi(x) * acceptance-rate(x), not pi(x); the claim proved is the per-decision clause. "
             "F (user log-density) uninterpreted; random draws are fresh symbols; exp/log uninterpreted; detailed balance => "
             "invariance and the jump-chain effect of re-drawing until acceptance are outside per-call contracts (DESIGN 6); "
             "modular contracts: Parameter tuning methods, update_directions, run_leapfrog (C07), mass (C07)",
        ref="3/C01"),
    "C03": dict(
        text="Proof: each sampler step preserves the class invariant 'k-th stored log-probability = beta*F(k-th stored sample)': the "
             "appended value is beta*F of the appended point, history is unchanged, an ensemble update rewrites exactly one walker "
             "consistently; for all dimensions, lengths, temperatures, bounds; every constructor establishes the invariant from exactly "
             "one evaluation at the start point (per walker for the ensemble); a tempering exchange installs the received value at the "
             "receiving chain's temperature. Bounded: random operation sequences on the real samplers, real tempering processes.",
        note="F uninterpreted; frames of modular callees assumed; constructors proved for d in {1,2,3} (ensemble: any number of walkers, "
             "start-position validation replaced by its contract); a point installed by a parallel-tempering exchange is covered by the "
             "C08 worker contract, registered under this property too; MetropolisChain (undocumented base class) is out of scope",
        ref="3/C03"),
    "C15": dict(
        text="Proof: advance(m) takes exactly m steps for every m >= 0 (loop invariants over the 100-group split and the remainder), "
             "each sampler's take_step adds exactly one entry to every store, run_for takes at least one whole step per pass, "
             "never divides by zero and exits only when the clock passes the budget (arbitrary non-decreasing clock, arbitrary "
             "step cost); ChainPool.advance hands every chain to the pool once, advances each copy by exactly n and keeps the order. "
             "Bounded: real samplers advanced by m in {0,1,7,99,100,101,150}, a scripted slow clock, and ChainPool on real worker "
             "processes against one deep copy of the chain list advanced sequentially.",
        note="take_step is modular inside advance/run_for (its +1 contract is proved per sampler); that the copies pickled to the pool's "
             "workers are independent of one another (pooled = sequential) is assumed in the proof layer and decided by the bounded layer",
        ref="3/C15"),
    "C14": dict(
        text="Proof: for every chain length, burn >= 0 and thin >= 1 the parameter / sample / log-probability read-outs of the "
             "Gibbs/PCA, Hamiltonian and ensemble samplers have the documented number of rows and entry k is chain entry "
             "burn + k*thin; get_interval ranks exactly the burned/thinned log-probabilities, returns every row of the top fraction "
             "with its own log-probability, and with a requested count returns min(count, available) rows as a 2-D array. "
             "Bounded: element-wise comparison on the real samplers incl. membership of counted rows and get_marginal's argument.",
        note="Python slicing and numpy argsort/sort/permutation/fancy-indexing contracts assumed; requested count proved for the listed values {1,3,50}; "
             "membership of each counted row in the top fraction is bounded only",
        ref="3/C14"),
    "C06": dict(
        text="Proof: for every number of variables and every assignment of distinct indices, each prior's value is the sum of the "
             "named log-densities on its support (and the -1e100 stand-in outside), its gradient is the formula and the symbolic "
             "derivative of the log-density, its draw is the numpy law with matching parameters, its bounds are its support; for every "
             "listed component configuration with symbolic distinct indices the joint value is the component sum and gradient and bounds "
             "are routed to the component's own indices; Posterior is likelihood+prior with exact negatives; initial guesses are the "
             "first n of all prior draws ranked by cost. Bounded: scipy.stats comparison, quadrature normalisation, random layouts, draws.",
        note="numpy Generator parametrisations assumed (normal(loc,scale), exponential(scale), uniform(low,high)); named densities are "
             "normalised (textbook; numerically checked in the bounded layer); joint configurations: the 9 listed class sequences with "
             "component sizes <= 2; sorted() contract assumed; draws' sample routing is bounded only",
        ref="3/C06"),
    "C07": dict(
        text="Proof of the integrator's structure for every dimension and step count: the real standard/bounded leapfrog bodies "
             "perform exactly half-kick, (drift, [fold, matching momentum flip], kick)*, drift, [fold, flip], half-kick with "
             "h = inv_temp*epsilon, every gradient taken at the current position and every velocity at the current momentum; "
             "scalar/vector masses are linear, commute with sign flips, draw momenta with variance = mass and the kinetic energy "
             "is r.M^-1.r/2; the wall map returns the symmetric fold and reverses the momentum iff the fold count is odd; the "
             "finite-difference gradient is a difference quotient with non-zero step taken inside the bounds. Bounded: numeric "
             "reversibility, Jacobian determinant, energy order, momentum law, gradient accuracy on the real chains.",
        note="palindromic composition of shear maps => reversible, volume preserving, O(eps^2) energy error is a meta-theorem (assumed); "
             "MatrixMass momentum law (Cholesky algebra) and the O(eps^2) energy claim are bounded only; matrix mass with bounds is a "
             "documented finding candidate (sign flips do not commute with a full inverse mass) and is excluded from the bounded family",
        ref="3/C07"),
    "C08": dict(
        text="Proof: for every number of chains, temperature ladder and proposed pair, the real swap() code exchanges iff "
             "u <= exp((1/T_i-1/T_j)(L_j-L_i)) with L the untempered log-densities, hands chain i exactly (x_j, L_j) and chain j (x_i, L_i), "
             "contacts no other chain and counts exactly that pair; the worker installs a received point with its log-probability "
             "re-expressed at its own temperature and reports its current point; advance(n, swap_interval) requests exactly n steps "
             "from every chain; the parent only performs blocking receives in connection order. Bounded: every outcome of the pairing "
             "choices for N<=7 (exhaustive), real worker processes under injected delays.",
        note="schedule independence = structural contract + Kahn determinacy (assumed) + bounded delay exploration; tight_pairs "
             "disjointness is bounded-exhaustive (N<=7), assumed as contract inside swap(); swap_interval proved for {1,2,3,10,64}; "
             "pipes are FIFO (assumed)",
        ref="3/C08"),
    "C09": dict(
        text="Proof for every sampler class (d in {1,2}; any history: every attribute that some method other than __init__ assigns "
             "is an arbitrary value of its kind, list lengths symbolic): after the real save() and load() -- numpy's .npz round trip "
             "modelled as 'what is stored is read back as arrays' -- every instance attribute in the statically computed read set of "
             "take_step / the read-outs / update_directions (every self.<attr> load reachable through method calls in the real AST) is "
             "present on the reloaded object and equal element-wise: Gibbs/PCA chain fields and all 19 Parameter fields incl. the "
             "proposal method selected by the limits in force, PCA directions / schedule / history / covariance-if-present / bounds, "
             "HMC samples / log-probs / step counts / temperature / mass object / every step-size-selector field / bounds / leapfrog "
             "variant, ensemble walkers / counters / proposal statistics / stretch parameter / retained sample / bounds. Bounded: every "
             "sampler x configuration x save point, state comparison and 30 identical further steps with copied generator states.",
        note="the .npz round trip contract is assumed (and exercised for real in the bounded layer); random-generator state is by design "
             "not persisted (the bounded layer copies it); constants assigned only by the constructor are compared as constructed; "
             "matrix masses and ChainPool / ParallelTempering persistence are bounded only; floats as reals",
        ref="3/C09"),
    "C10": dict(
        text="Proof, for every number of points: squared-exponential and rational-quadratic kernels equal their documented formula, are "
             "symmetric in their arguments, the fast builder equals the pairwise evaluation plus the documented jitter, and every returned "
             "hyper-parameter gradient matrix is the symbolic partial derivative of the built covariance (d in {1,2,3}); noise kernels, "
             "sums (value, gradients, labels, bounds, slices concatenated in order), change-points of 2-4 kernels (weighted sum and exact "
             "gradients, logistic weights under their own contract) and the three mean functions likewise. Bounded: eigenvalues (PSD), "
             "builder vs pairwise, 4th-order finite differences on random kernels/compositions in d<=3.",
        note="exp/log uninterpreted with axiom instances; real power a**b = exp(b log a) for positive base; positive-definiteness of SE/RQ, "
             "closure under sums and Schur products are assumed lemmas applied to the proved formulas (PSD itself is bounded only); "
             "spatial dimension proved per listed value; change-point kernels are SE with d=1 in the proof layer",
        ref="3/C10"),
    "C20": dict(
        text="Proof: trapezium_full inverts the CDF of the linear density 1+dh(2t-1) on [0,1] and stays in [0,1] for all x in [0,1], "
             "dh in [-1,1]\\{0}; the near-zero branch has CDF error <= dh^2; for every ascending grid and non-negative table the cell "
             "probabilities handed to the generator are the masses of the piecewise-linear interpolant, the slope parameter is the "
             "normalised slope of the drawn cell, every sample lies in its cell (hence in the grid range); Conditional evaluates the "
             "posterior at the point with one coordinate replaced without mutating it; binary_search stays inside its bracket. "
             "Bounded: intercepted generator on (non-)uniform grids, six posterior families for normalisation/coverage/match.",
        note="trapezium_transform's mask dispatch, evaluate_conditional's adaptive search and Simpson normalisation are bounded only; "
             "total positive mass lemma assumed; sqrt with defining axioms; grid sortedness for all pairs from consecutive (induction, assumed)",
        ref="3/C20"),
    "C13": dict(
        text="Proof: for every sample length, column count and fraction, the interval returned by the real sample_hdi code has "
             "two sorted sample values L=floor(f*n) positions apart as end points (so it holds L+1 > f*n points), no window of "
             "L+1 sorted points is shorter, every column of a 2-D input satisfies the same contract on its own sorted values, "
             "lists are treated like arrays and the caller's array is not written. Bounded layer: element-wise run-time "
             "evaluation incl. column-vs-1-D agreement.",
        note="assumed contracts of ndarray.sort (non-decreasing permutation) and argmin (first minimiser); permutation "
             "invariance / affine covariance follow from the contract depending on the sorted values only (meta step, bounded check only)",
        ref="3/C13"),
}

BOUNDED_TECH = "bounded run-time contract evaluation on the real code (labelled bounded; stand-in for the deductive obligations of DESIGN section 3, never counted as proved)"
for _pid, _text, _note in [
    ("C02", "Bounded stand-in: GpRegressor with random kernels/means/noise/correlated errors in d<=3 against an independent dense-algebra "
            "reference (posterior mean, covariance, marginal likelihood and gradient by 4th-order differences, LOO predictions by refitting).",
     "bounded only; dense linear algebra (Cholesky/solve) is outside the VC generator until the abstract matrix layer exists"),
    ("C11", "Bounded stand-in: marginal likelihood / LOO scores and their gradients against independent references and finite differences, "
            "selection of the maximiser among optimiser starts.", "bounded only"),
    ("C12", "Bounded stand-in: GaussianKDE against the direct kernel sum (truncation bound), normalisation, bandwidth rules, "
            "scale/shift equivariance, acceptance of any non-degenerate sample and bandwidth.", "bounded only"),
    ("C16", "Bounded stand-in: GP gradient / spatial-derivative predictions against finite differences of the predictive mean and "
            "the analytic derivative-covariance formulas for random kernels in d<=3.", "bounded only"),
    ("C17", "Bounded stand-in: GpLinearInverter posterior mean/covariance against the dense Gaussian conjugate formulas, marginal likelihood "
            "and its gradient by finite differences.", "bounded only"),
    ("C18", "Bounded stand-in: acquisition functions against closed forms and finite-difference gradients, proposals inside the bounds, "
            "add_evaluation appends exactly the new evaluation, caller arrays untouched.", "bounded only"),
    ("C19", "Bounded stand-in: KDE and UnimodalPdf normalisation, cdf, mode, highest-density intervals and moments against quadrature of "
            "the estimated density, and their covariance under shifting/rescaling of the data over scales 1e-6..1e6 and locations up to 1e6 sigma. "
            "The kernel estimator's density and cdf being the exact kernel sums up to the stated truncation (the C12 contracts, proof layer) "
            "is checked under this property too, but the property as a whole is decided by the bounded layer only.",
     "bounded only by design: the quantities are outputs of numerical optimisers/quadrature and the named defect class is floating-point "
     "cancellation, which does not exist over the reals"),
]:
    if _pid in ("C02", "C11", "C12", "C16", "C17", "C18"):
        continue
    CLAIMED[_pid] = dict(category="exploration", text=_text, note=_note, technique=BOUNDED_TECH, ref="3/" + _pid)

MATRIX_NOTE = ("dense linear algebra is handled by the abstract matrix layer pyvc.matalg: matrices are normal forms over named atoms "
               "and the laws it rewrites with (ring laws, symmetry of declared atoms, inverse, Cholesky / triangular-solve laws, "
               "Diag and trace laws, matrix calculus) are axioms listed in the evidence and checked numerically every run; kernels and "
               "means are ghost objects under the contracts proved in C10/C16; floats as reals")
CLAIMED["C02"] = dict(
    text="Proof, for every number of data points, dimensions, query points and hyper-parameters: after set_hyperparameters the cached "
         "factor is the Cholesky factor of K+S and alpha = (K+S)^-1 (y-m); __call__ returns m(q_t) + K_tx (K+S)^-1 (y-m) and "
         "sqrt|K_tt - K_tx (K+S)^-1 K_xt| for every query point (loop invariant = the property) with variance <= prior variance; "
         "build_posterior returns the same mean (also mean_only) and K_qq - K_qx (K+S)^-1 K_xq, symmetric; y_err gives diag(y_err^2), "
         "y_cov is used as given; every kernel/mean call receives exactly its own slice of the hyper-parameters and the query point. "
         "Bounded: random kernels incl. 2-4 kernel change points / noise kernels / means in d<=3 against independently written kernels and dense algebra.",
    note=MATRIX_NOTE + "; independence of the training order and variance >= 0 follow from the closed form (permutation equivariance, Schur "
         "complement): meta steps, checked in the bounded layer only; the constructor's input normalisation is bounded only",
    ref="3/C02")
CLAIMED["C11"] = dict(
    text="Proof: marginal_likelihood and the value of marginal_likelihood_gradient equal -1/2 r^T C^-1 r - 1/2 logdet C (the Gaussian "
         "log-density up to the constant); every gradient entry equals the derivative of that expression obtained mechanically by "
         "matrix calculus; loo_predictions / loo_likelihood equal the R&W (5.10-5.12) expressions and every entry of "
         "loo_likelihood_gradient is the symbolic derivative of the LOO sum (loop invariants per hyper-parameter). Bounded: "
         "scores against scipy's multivariate normal and explicit refits, finite differences, optimiser selection within bounds and "
         "no worse than the centre start for default and explicit numbers of starts. The kernel and mean contracts of C10 "
         "(covariance_and_gradients / mean_and_gradients return K, dK/dtheta, m, dm/dtheta) over which the gradients are proved "
         "modularly are discharged under this property as well.",
    note=MATRIX_NOTE + "; the identity of (5.12) with an actual refit is the block-inverse lemma (assumed, refit-compared in the bounded "
         "layer); automatic hyper-parameter selection (multi-start L-BFGS / differential evolution) is bounded only",
    ref="3/C11")
CLAIMED["C16"] = dict(
    text="Proof: gradient() returns for every query point J alpha + dm/dq and Diag(R) - J (K+S)^-1 J^T with J = A o K_qx, symmetric; "
         "spatial_derivatives() returns J alpha + dm/dq and -2 J (K+S)^-1 K_xq; and at kernel level (d in {1,2,3}) A[c,j] k(q,x_j) is "
         "the symbolic derivative of the real kernel evaluation with respect to q_c, R is the mixed second derivative of k(q,q') at "
         "q'=q (zero off the diagonal), k(q,q) does not depend on q, and each mean's spatial_gradient is the symbolic derivative of its "
         "own evaluation. Together: the reported quantities are the derivatives of the predictive mean / variance and the prior "
         "gradient covariance minus the explained part. Bounded: finite differences of GpRegressor.__call__, eigenvalues, batched vs single.",
    note=MATRIX_NOTE + "; positive semi-definiteness of the gradient covariance is bounded only; squeeze() of singleton axes (one point or one "
         "dimension) is bounded only; only SquaredExponential implements gradient_terms",
    ref="3/C16")
CLAIMED["C17"] = dict(
    text="Proof for every model-matrix shape: calculate_posterior's covariance solves (I + K A^T S^-1 A) Sigma = K (i.e. Sigma = "
         "(K^-1 + A^T S^-1 A)^-1) and its mean is m + Sigma A^T S^-1 (y - A m); calculate_posterior_mean returns the same mean; "
         "marginal_likelihood (and the value variant) is -1/2 r^T J^-1 r - 1/2 logdet J with J = A K A^T + S, r = y - A m; every "
         "gradient entry is the matrix-calculus derivative of that expression; the constructor stores diag(y_err^2), its inverse, the "
         "identity and the [mean, covariance] hyper-parameter layout. Bounded: tall/wide/rank-deficient models against dense "
         "conjugate formulas and finite differences, plain and change-point priors. The kernel and mean contracts of C10 over which "
         "the evidence gradient is proved modularly are discharged under this property as well.",
    note=MATRIX_NOTE + "; equivalence of the posterior equation with the textbook Woodbury form, symmetry/PSD and 'no larger than the prior' "
         "are bounded only",
    ref="3/C17")

CLAIMED["C18"] = dict(
    text="Proof (d in {1,2[,3]}): in both evaluation branches ExpectedImprovement.__call__ equals sig (z Phi(z) + phi(z)) -- the closed form "
         "of E[max(f - y_max, 0)] under N(mu, sig^2) -- and opt_func is minus its logarithm; the value-and-gradient form returns the same "
         "objective and its gradient equals the symbolic derivative of that objective with d mu = dmu, d sig = dvar/(2 sig); the far-tail "
         "ratio sqrt(pi/2) erfcx(-z/sqrt 2) is Phi/phi and satisfies the Mills equation, ln_pdf/normal_pdf/normal_cdf are the standard normal "
         "log-density, density and distribution function; UCB = mu + kappa sig and MaxVariance = sig^2 with exact objectives and gradients; "
         "update_gp sets the incumbent to max(y); add_evaluation appends exactly the new point/value/error, rebuilds the regressor from "
         "that data, hands it to the acquisition function, grows every history by one and writes to no caller array. Bounded: quadrature "
         "of the improvement, high-precision both branches and continuity at z=-3, finite-difference gradients, three propose/add rounds "
         "with both optimisers inside the bounds.",
    note="erf/erfcx/exp/log/sqrt uninterpreted with the axiom instances listed in the evidence (erfcx(x) = exp(x^2)(1-erf x), exp(a+b) = exp a exp b, "
         "surds exact); E[max(f-y_max,0)] = sig(z Phi + phi) and EI > 0 (Mills bound) are textbook facts, assumed; the regressor is a ghost "
         "under the C02/C16 contracts; the gradient proof is modular over the special functions (their derivative laws proved separately "
         "for the real bodies); proposals inside the bounds rely on scipy's bounded optimisers and starting_positions: bounded only",
    ref="3/C18")

CLAIMED["C12"] = dict(
    text="Proof for every sample (N >= 3, two distinct values), user bandwidth h > 0 and any number of evaluation points: the real "
         "constructor sorts the sample, sets norm = 1/(N h sqrt(2 pi)), q = 1/(sqrt 2 h), cutoff 4h and limits +-2h, uses 2^n regions with "
         "n > log2(range/h) so that no region is wider than h, and for every region the slice holds exactly the samples within 4h of "
         "the region's midpoint (those left of it are counted by the CDF offset); BinaryTree sends every value to the region containing "
         "it (outside values to the end regions); __call__ returns norm * sum over the slice of exp(-((x-s_j) q)^2) and cdf returns "
         "offset + (1/2N) sum (1 + erf((x-s_j) q)) for every evaluation point (loop invariant over the groups of a partition); composition "
         "lemma: every sample left out is >= 3.5 h from the point on the assumed side, i.e. the truncation bounds phi(3.5)/h and Phi(-3.5). "
         "Without a bandwidth the constructor sets h = 1.06 sd(sample) / N^(1/5) (population sd) and derives every constant from it. "
         "Bounded: brute-force KDE/CDF comparison on eight sample families incl. Cauchy and far outliers, six bandwidth modes, scale/shift "
         "equivariance, order independence, exhaustive unique_index_groups for arrays <= 6.",
    note="assumed: numpy sort / searchsorted(side=left) / linspace contracts, unique_index_groups partitions the positions by value (bounded "
         "exhaustive check), 2^t increasing with 2^(log2 u) = u, Gaussian tail monotone; the cross-validation bandwidth rule, scale covariance of the chosen "
         "bandwidth and scalar-vs-array return are bounded only; floats as reals",
    ref="3/C12")

PENDING_REASON = "contracts for this property are not built yet in this revision (see DESIGN.md section 7); not claimed"

def main():
    checks = []
    for pid in ALL:
        if pid not in CLAIMED:
            continue
        c = CLAIMED[pid]
        checks.append({
            "property_id": pid,
            "quick_cmd": f"./check {pid} --tier quick",
            "thorough_cmd": f"./check {pid} --tier thorough",
            "evidence_file": f"evidence/{pid}.json",
            "replay_cmd_template": f"./check {pid} --replay {{path}}",
            "engine": "pyvc",
            "level_claimed": {"category": c.get("category", "proof"), "text": c["text"], "design_ref": c["ref"]},
            "level_note": c["note"],
            "technique": c.get("technique", "contract-based deductive verification: sidecar contracts, VCs generated from the real "
                         "Python AST (pyvc), discharged by z3/cvc5; bounded run-time contract evaluation as stand-in/replay"),
        })
    man = {
        "version": 1,
        "setup_cmd": "./setup.sh",
        "hooks": {
            "guard": "INFERENCE_TOOLS_VERIF",
            "enable": "no hooks in /repo: contracts are sidecar files and the VC generator reads the source text; the guard "
                      "variable is exported by ./check but nothing in /repo reads it",
            "baseline_off_cmd": "cd /repo && /venv/bin/python -m pytest -ra -q -p no:cacheprovider --timeout=900 --continue-on-collection-errors",
            "source_commits": [],
            "add_only": True,
        },
        "engines": [{
            "name": "pyvc", "path": "pyvc/",
            "serves_properties": sorted(CLAIMED),
            "kind_free_text": "VC generator for a Python/numpy subset: symbolic AST interpreter over z3 terms, index-generic tensors, "
                              "Sigma abstraction for reductions, sidecar contracts/loop invariants, SMT back ends (z3 5.1, z3 4.8.12, cvc5), "
                              "native replay of counter-models, CPython cross-check of the encoder",
        }],
        "checks": checks,
        "notes": "See DESIGN.md. Exit codes: 0 held, 1 violation, 2 undecided, 3 checker broken.",
        "not_applicable": [{"property_id": p, "reason": NA.get(p, PENDING_REASON)} for p in ALL if p not in CLAIMED],
    }
    with open(os.path.join(HERE, "MANIFEST.json"), "w") as f:
        json.dump(man, f, indent=1)

NA = {}
if __name__ == "__main__":
    main()
