#!/bin/bash
# tools/triage_refactor.sh <PROP> <worktree>: for each behaviour-preserving change refactorK.diff written by a sub-agent: keep it under
# /verif/refactors/<PROP>-rK/, apply it (3-way, the agent's base may be a few fix: commits behind) to a scratch worktree of the CURRENT
# /repo HEAD, run the agent's holds.py there (must exit 0: the property still holds) and ./check PROP with VERIF_REPO (must not print
# VIOLATION: anything but OK / UNDECIDED is a false alarm)
PROP=$1; WT=$2
for k in 1 2 3; do
  [ -f $WT/_seed/refactor$k.diff ] || continue
  D=/verif/refactors/$PROP-r$k; mkdir -p $D
  cp $WT/_seed/refactor$k.diff $D/patch.diff; cp $WT/_seed/refactor$k.txt $D/why.txt 2>/dev/null; cp $WT/_seed/holds.py $D/holds.py 2>/dev/null
  T=/tmp/rfc_${PROP}_$k; rm -rf $T; git -C /repo worktree add -q --detach $T HEAD
  if ! (cd $T && git apply --3way $D/patch.diff >/dev/null 2>&1 && [ -z "$(git diff --name-only --diff-filter=U)" ]); then
    echo "$PROP r$k: CONFLICT with later fix: commits (skipped)"; echo "{\"property\": \"$PROP\", \"skipped\": \"conflict\"}" > $D/verdict.json
    git -C /repo worktree remove --force $T; continue
  fi
  (cd $T && git diff HEAD -- inference > $D/patch.diff)
  (cd $T && PYTHONPATH=$T MPLBACKEND=Agg timeout 900 /venv/bin/python $D/holds.py > /tmp/holds_${PROP}_$k.out 2>&1); h=$?
  cd /verif; VERIF_REPO=$T ./check $PROP > /tmp/rfcheck_${PROP}_$k.out 2>&1; rc=$?
  echo "$PROP r$k: holds.py exit=$h check exit=$rc $(grep -E '^(VIOLATION|UNDECIDED|CHECKER)' /tmp/rfcheck_${PROP}_$k.out | sed -E 's/replay=[^ ]* //' | cut -c1-170 | head -4 | tr '\n' '|')"
  echo "{\"property\": \"$PROP\", \"holds_py_exit\": $h, \"check_exit\": $rc}" > $D/verdict.json
  git -C /repo worktree remove --force $T
done
