#!/bin/bash
# tools/triage_refactor.sh <PROP> <worktree>: for each behaviour-preserving change refactorK.diff written by a sub-agent: keep it under
# /verif/refactors/<PROP>-rK/, apply it to a scratch copy of the CURRENT /repo HEAD, run the agent's holds.py on that copy (must
# exit 0: the property still holds) and ./check PROP (must not print VIOLATION: anything else than OK / UNDECIDED is a false alarm)
PROP=$1; WT=$2
for k in 1 2 3; do
  [ -f $WT/_seed/refactor$k.diff ] || continue
  D=/verif/refactors/$PROP-r$k; mkdir -p $D
  cp $WT/_seed/refactor$k.diff $D/patch.diff; cp $WT/_seed/refactor$k.txt $D/why.txt 2>/dev/null; cp $WT/_seed/holds.py $D/holds.py 2>/dev/null
  T=$(mktemp -d /tmp/rfcXXXX); git -C /repo archive HEAD inference | tar -x -C $T
  (cd $T && patch -s -p1 < $D/patch.diff) || { echo "$PROP r$k: PATCH DOES NOT APPLY"; rm -rf $T; continue; }
  (cd $T && PYTHONPATH=$T MPLBACKEND=Agg timeout 600 /venv/bin/python $D/holds.py > /tmp/holds_$PROP_$k.out 2>&1); h=$?
  cd /verif; VERIF_REPO=$T ./check $PROP > /tmp/rfcheck_${PROP}_$k.out 2>&1; rc=$?
  echo "$PROP r$k: holds.py exit=$h check exit=$rc $(grep -E '^(VIOLATION|UNDECIDED|CHECKER)' /tmp/rfcheck_${PROP}_$k.out | sed -E 's/replay=[^ ]* //' | cut -c1-170 | head -4 | tr '\n' '|')"
  echo "{\"property\": \"$PROP\", \"holds_py_exit\": $h, \"check_exit\": $rc}" > $D/verdict.json
  rm -rf $T
done
