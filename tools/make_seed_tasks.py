#!/usr/bin/env python3
"""tools/make_seed_tasks.py <prefix>: writes _seed/TASK.txt into /tmp/<prefix>_Cxx worktrees (the task a fresh sub-agent gets:
the property text, the summaries of the changes already tried, nothing from /verif)"""
import json, glob, os, sys
prefix = sys.argv[1]
props = {json.loads(l)['id']: json.loads(l) for l in open('/verif/properties.jsonl')}
tried = {}
for d in sorted(glob.glob('/verif/seeded/*/meta.json')):
    m = json.load(open(d))
    tried.setdefault(m['property'], []).append(m['summary'][:350])
TEMPLATE = '''You are working alone in a scratch git worktree of the pure-Python library "inference-tools" at {d} (python: /venv/bin/python, always with PYTHONPATH={d} so that this copy is imported). Work ONLY inside {d}; do not touch /repo and do not look at /verif.

A semantic property that users of the library rely on:

TITLE: {title}
STATEMENT: {statement}
QUANTIFIED OVER: {quant}
CODE IT LIVES IN: {files}

Your job: make ONE realistic change to the library source under {d}/inference/ -- the kind of plausible refactor, optimisation, clean-up or well-meant "fix" a contributor might submit -- that BREAKS this property for some inputs, while
 (a) the package still imports and
 (b) the complete existing test-suite still passes:  cd {d} && PYTHONPATH={d} MPLBACKEND=Agg /venv/bin/python -m pytest -q -p no:cacheprovider tests
The change must be subtle (wrong results for a class of inputs, not a crash on every call), must not edit tests, and must touch only what it needs (a few lines). Do not add comments that give the defect away.

IMPORTANT: the changes summarised below were already tried by others. Pick a DIFFERENT clause of the property and a different function or class where possible. Think about which sentence of the statement, which value of the quantifier (sizes of 0/1, many dimensions, optional arguments, rarely used methods or configurations, numerical extremes, repeated calls, aliasing of arguments) is least likely to have been considered by anyone writing checks for this property, and break exactly that:
{tried}

Then write three files:
 1. {d}/_seed/patch.diff  = output of `git diff -- inference` run from {d} (must apply with `git apply` to a clean checkout).
 2. {d}/_seed/demo.py     = standalone script (run as: cd {d} && PYTHONPATH={d} MPLBACKEND=Agg /venv/bin/python _seed/demo.py) that uses only the public API, exits 0 on the ORIGINAL code and exits 1 on the CHANGED code, printing the failing input and observed vs expected values. It must decide by an independent computation of what the property demands (closed form / numerical reference), not by comparing with saved outputs. Keep its run time under two minutes.
 3. {d}/_seed/meta.json   = {{"summary": "...what was changed and why it breaks the property...", "needs": "...which inputs/configurations expose it...", "files": ["inference/..."]}}
Leave the change applied (uncommitted) in the worktree. Before finishing verify all claims yourself: tests pass with the change; demo exits 1 with the change; demo exits 0 without it. NEVER use `git stash` (the stash is shared with other worktrees): to test the original code use `git apply -R _seed/patch.diff`, run, then `git apply _seed/patch.diff`. If you notice behaviour of the ORIGINAL code that already contradicts the property, say so in your report. Finish with a three-line report.'''
for p, d in props.items():
    wd = f'/tmp/{prefix}_{p}'
    if not os.path.isdir(wd):
        continue
    os.makedirs(wd + '/_seed', exist_ok=True)
    tr = '\n'.join(' - ' + t for t in tried.get(p, ['(none)']))
    open(wd + '/_seed/TASK.txt', 'w').write(TEMPLATE.format(d=wd, title=d['title'], statement=d['statement'], quant=d['quantifier']['text'],
                                                            files=', '.join(d['anchors']['files']), tried=tr))
print("tasks written")
