#!/bin/bash
# applies every seeded change in turn to /repo, runs the property's check, restores /repo; one line per obligation hit
cd /verif
out=scratch/seed_results.txt; : > $out
if [ -n "$(git -C /repo status --porcelain)" ]; then echo "/repo not clean"; exit 1; fi
# optional arguments: names of seeded changes (default: all of them)
if [ $# -gt 0 ]; then dirs=$(for n in "$@"; do echo seeded/$n/; done); else dirs=$(ls -d seeded/*/); fi
for d in $dirs; do
  name=$(basename $d); prop=${name%%-*}
  git -C /repo apply /verif/$d/patch.diff || { echo "$name: patch does not apply" >> $out; continue; }
  VERIF_SELFTEST=1 ./check $prop > scratch/seed_run.out 2>&1; rc=$?      # (self-test: evidence and replays go to scratch/)
  git -C /repo checkout -- .
  echo "== $name exit=$rc" >> $out
  grep -E "^(VIOLATION|UNDECIDED|CHECKER)" scratch/seed_run.out | sed -E 's/.*obligation=//' | cut -c1-160 | sort -u >> $out
done
rm -f replays/*.json
echo done >> $out
