#!/bin/bash
# applies every seeded change in turn to /repo, runs the property's check, restores /repo; one line per obligation hit
cd /verif
out=scratch/seed_results.txt; : > $out
if [ -n "$(git -C /repo status --porcelain)" ]; then echo "/repo not clean"; exit 1; fi
for d in seeded/*/; do
  name=$(basename $d); prop=${name%%-*}
  git -C /repo apply /verif/$d/patch.diff || { echo "$name: patch does not apply" >> $out; continue; }
  VERIF_SELFTEST=1 ./check $prop > scratch/seed_run.out 2>&1; rc=$?      # (self-test: evidence and replays go to scratch/)
  git -C /repo checkout -- .
  echo "== $name exit=$rc" >> $out
  grep -E "^(VIOLATION|UNDECIDED|CHECKER)" scratch/seed_run.out | sed -E 's/.*obligation=//' | cut -c1-160 | sort -u >> $out
done
rm -f replays/*.json
echo done >> $out
