#!/bin/bash
# tools/mut.sh <prop> <file-relative-to-repo> <python-replace-old> <python-replace-new>
# applies a textual mutation to a scratch copy of /repo/inference and runs the check against it
set -e
PROP=$1; FILE=$2; OLD=$3; NEW=$4
D=$(mktemp -d /tmp/mutXXXX)
cp -r /repo/inference $D/
python3 - "$D/$FILE" "$OLD" "$NEW" <<'PY'
import sys
p,old,new=sys.argv[1:4]
s=open(p).read()
assert s.count(old)>=1, "pattern not found"
s=s.replace(old,new,1)
open(p,'w').write(s)
PY
cd /verif
set +e
VERIF_REPO=$D ./check $PROP ${TIER:+--tier $TIER}
rc=$?
rm -rf $D
echo "exit=$rc"
