#!/bin/bash
# tools/try_seed.sh <PROP> <worktree> <seed-name> : confirm a seeded change and run our check against it
# 1. full test-suite passes in the worktree with the change     2. demo fails with / passes without the change
# 3. apply the patch to /repo, run ./check PROP, undo.  Results are appended to seeded/<name>/meta.json by hand.
PROP=$1; WT=$2; NAME=$3
D=/verif/seeded/$NAME
mkdir -p $D
cp $WT/_seed/patch.diff $WT/_seed/demo.py $D/ 2>/dev/null
cp $WT/_seed/meta.json $D/meta.agent.json 2>/dev/null
cd $WT
echo "--- tests with change:"; PYTHONPATH=$WT MPLBACKEND=Agg /venv/bin/python -m pytest -q -p no:cacheprovider tests 2>&1 | tail -1
echo "--- demo with change:"; PYTHONPATH=$WT MPLBACKEND=Agg timeout 300 /venv/bin/python _seed/demo.py > /tmp/demo_with.out 2>&1; echo "exit=$? $(tail -1 /tmp/demo_with.out | cut -c1-150)"
git apply -R $D/patch.diff
echo "--- demo without change:"; PYTHONPATH=$WT MPLBACKEND=Agg timeout 300 /venv/bin/python _seed/demo.py > /tmp/demo_wo.out 2>&1; echo "exit=$? $(tail -1 /tmp/demo_wo.out | cut -c1-150)"
git apply $D/patch.diff
cd /verif
if [ -n "$SEED_NOAPPLY" ]; then
  # triage without touching /repo (something else is using it): the check reads the worktree's source instead
  echo "--- our check ($PROP) against the worktree (VERIF_REPO):"
  VERIF_REPO=$WT ./check $PROP > /tmp/check_seed_$PROP.out 2>&1; echo "exit=$?"; grep -E "^(VIOLATION|UNDECIDED|CHECKER|OK|KNOWN)" /tmp/check_seed_$PROP.out | sed -E 's/replay=[^ ]* //' | cut -c1-200 | head -8
  exit 0
fi
git -C /repo apply $D/patch.diff || { echo "patch does not apply to /repo"; exit 1; }
echo "--- our check ($PROP) with the change applied to /repo:"
VERIF_SELFTEST=1 ./check $PROP > /tmp/check_seed.out 2>&1; echo "exit=$?"; grep -E "^(VIOLATION|UNDECIDED|CHECKER|OK|KNOWN)" /tmp/check_seed.out | cut -c1-230 | head -8
git -C /repo checkout -- .
git -C /repo status --short | head -3
