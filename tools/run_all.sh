#!/bin/bash
# runs every claimed check (quick tier) on /repo, 4 at a time, and prints one line per property
cd "$(dirname "$0")/.."
props=$(python3 -c "import json; print(' '.join(c['property_id'] for c in json.load(open('MANIFEST.json'))['checks']))")
mkdir -p scratch/runall
printf '%s\n' $props | xargs -P 4 -I{} sh -c './check {} > scratch/runall/{}.out 2>&1; echo "{} exit=$?" >> scratch/runall/{}.out'
for p in $props; do echo "== $p: $(grep -E '^(OK|VIOLATION|UNDECIDED|CHECKER-ERROR|KNOWN)' scratch/runall/$p.out | head -3 | cut -c1-160) $(tail -1 scratch/runall/$p.out)"; done
