#!/usr/bin/env python3
"""tools/make_refactor_tasks.py <prefix>: writes _seed/TASK.txt into /tmp/<prefix>_Cxx worktrees -- the task of a fresh sub-agent
that writes three BEHAVIOUR-PRESERVING changes (the property must still hold); they measure false alarms of the checks"""
import json, os, sys
prefix = sys.argv[1]
props = {json.loads(l)['id']: json.loads(l) for l in open('/verif/properties.jsonl')}
TEMPLATE = '''You are working alone in a scratch git worktree of the pure-Python library "inference-tools" at {d} (python: /venv/bin/python, always with PYTHONPATH={d} so that this copy is imported). Work ONLY inside {d}; do not touch /repo and do not look at /verif.

A semantic property that users of the library rely on:

TITLE: {title}
STATEMENT: {statement}
QUANTIFIED OVER: {quant}
CODE IT LIVES IN: {files}

Your job: write THREE separate, realistic changes to the library source under {d}/inference/ that a maintainer might well merge and that KEEP this property true for every input -- genuine refactorings, not no-ops: e.g. restructure a loop or vectorise it, rename locals / attributes used only internally, introduce a helper method, reorder independent statements, replace an expression by a mathematically equal one (x**2 -> x*x, log(a)+log(b) -> log(a*b) only where safe, two triangular solves -> cho_solve, a list comprehension -> a numpy call), add a cache that is invalidated CORRECTLY (keyed by a copy of the values, never by object identity), add input validation or a clearer error message for inputs that were already rejected, change an internal data layout while keeping every public result identical. Each change should touch the functions that implement the property (5-40 lines), be different in kind from the other two, and must not change any public result by more than floating-point round-off (1e-12 relative).
For each change k = 1, 2, 3:
 (a) start from the clean tree (git checkout -- inference), make the change,
 (b) run the complete test-suite:  cd {d} && PYTHONPATH={d} MPLBACKEND=Agg /venv/bin/python -m pytest -q -p no:cacheprovider tests   (must pass),
 (c) write {d}/_seed/refactor{{k}}.diff = output of `git diff -- inference` (must apply with `git apply` to a clean checkout),
 (d) write {d}/_seed/refactor{{k}}.txt = two or three sentences: what was changed and why the property still holds.
Also write ONE script {d}/_seed/holds.py (run as: cd {d} && PYTHONPATH={d} MPLBACKEND=Agg /venv/bin/python _seed/holds.py) that checks the property on a spread of inputs against an independent computation (closed form / numerical reference; NOT saved outputs) and exits 0 when it holds; run it on the clean tree and with each of the three changes applied -- it must exit 0 in all four cases; keep its run time under two minutes.
Finish with the clean tree restored (git checkout -- inference) and a short report: one line per change. NEVER use `git stash`. Do not edit tests. If you are not sure a change preserves the property for EVERY input in the quantifier (sizes 0/1, aliasing, integer dtypes, extreme scales), do not submit it -- pick another.'''
for p, d in props.items():
    wd = f'/tmp/{prefix}_{p}'
    if not os.path.isdir(wd):
        continue
    os.makedirs(wd + '/_seed', exist_ok=True)
    open(wd + '/_seed/TASK.txt', 'w').write(TEMPLATE.format(d=wd, title=d['title'], statement=d['statement'], quant=d['quantifier']['text'],
                                                            files=', '.join(d['anchors']['files'])))
print("tasks written")
