#!/bin/bash
# quick tier of every claimed check under several harness seeds; prints every non-OK outcome
cd "$(dirname "$0")/.."
props=$(python3 -c "import json; print(' '.join(c['property_id'] for c in json.load(open('MANIFEST.json'))['checks']))")
mkdir -p scratch/sweep; : > scratch/sweep.txt
for s in ${SEEDS:-2 3 4 5 6}; do
  printf '%s\n' $props | xargs -P 4 -I{} sh -c "VERIF_SEED=$s VERIF_REPO_EVID=1 ./check {} > scratch/sweep/{}_$s.out 2>&1; echo \"{} seed=$s exit=\$?\" >> scratch/sweep/{}_$s.out"
  for p in $props; do
    if ! tail -1 scratch/sweep/${p}_$s.out | grep -q "exit=0"; then echo "== $p seed=$s: $(grep -E '^(VIOLATION|UNDECIDED|CHECKER)' scratch/sweep/${p}_$s.out | head -3 | cut -c1-200)" >> scratch/sweep.txt; fi
  done
done
echo finished >> scratch/sweep.txt
