#!/bin/bash
# thorough tier of every claimed check, 3 at a time; one summary line per property in scratch/thorough.txt
cd "$(dirname "$0")/.."
props=$(python3 -c "import json; print(' '.join(c['property_id'] for c in json.load(open('MANIFEST.json'))['checks']))")
mkdir -p scratch/thorough
printf '%s\n' $props | xargs -P 3 -I{} sh -c './check {} --tier thorough > scratch/thorough/{}.out 2>&1; echo "{} exit=$?" >> scratch/thorough/{}.out'
for p in $props; do echo "== $p: $(grep -E '^(OK|VIOLATION|UNDECIDED|CHECKER-ERROR)' scratch/thorough/$p.out | head -3 | cut -c1-170) $(tail -1 scratch/thorough/$p.out)"; done > scratch/thorough.txt
