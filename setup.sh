#!/bin/bash
# Builds /verif/.venv: python 3.12 overlay on /venv (numpy, scipy, matplotlib, the editable
# `inference` install that resolves to /repo) plus z3-solver, sympy, icontract, jsonschema from the
# offline wheelhouse.  Idempotent; offline.
set -e
cd "$(dirname "$0")"
V=.venv
if [ -x "$V/bin/python" ] && "$V/bin/python" -c "import z3, sympy, numpy, jsonschema, icontract" 2>/dev/null; then
    exit 0
fi
rm -rf "$V"
/venv/bin/python -m venv "$V"
SP=$("$V/bin/python" -c "import sysconfig; print(sysconfig.get_paths()['purelib'])")
echo "import site; site.addsitedir('/venv/lib/python3.12/site-packages')" > "$SP/zz_overlay.pth"
PIP_NO_INDEX=1 "$V/bin/python" -m pip install -q --no-index --find-links /opt/veriftools/wheels \
    z3-solver sympy icontract jsonschema >/dev/null
"$V/bin/python" -c "import z3, sympy, numpy, jsonschema, icontract, inference; print('venv ok', z3.get_version_string())"
