"""C08 -- parallel-tempering exchanges are correct and independent of scheduling."""
import ast
import z3
from pyvc.vc import contract, bounded
from pyvc import sym as S
from pyvc.sym import Sym, ctx, Unsupported
from pyvc.tensor import Tensor, SymList
from pyvc.loops import LoopSpec
from pyvc.objlist import RngModel, F, ARR

PAR = "inference.mcmc.parallel"


# ---- ghosts: the pipes ---------------------------------------------------------------------------------------
class ConnList:
    """self.connections: N pipe ends.  send() is logged in the ghost trace; recv() on the parent side returns
    what the worker's `send_position` reaction sends: (current point of chain k, its stored log-probability)"""

    def __init__(self, n, d, pos, prob):
        self.n, self.d, self.pos, self.prob = n, d, pos, prob

    def length(self):
        return self.n

    def symbolic_length(self, I):
        return self.n

    def iter_at(self, I, k):
        return Conn(self, k)

    def get_item(self, I, k):
        return Conn(self, k)


class Conn:
    vc_attrs = ("send", "recv")

    def __init__(self, lst, k):
        self.lst, self.k = lst, k

    def send(self, msg):
        ctx().trace.append(("send", self.k, msg))
        ctx().writes.append((self, "send"))

    def recv(self):
        lst = self.lst
        k = self.k
        ctx().add_index_term(k)
        return (Tensor((lst.d,), lambda c: Sym(lst.pos(S.z(k), S.z(c)))), Sym(lst.prob(S.z(k))))


class AnyLoop(LoopSpec):
    """loops whose iterations only send the same request to every pipe / bump a counter: nothing carried"""

    def __init__(self, vc, name, havoc_fields=()):
        super().__init__(vc)
        self.name = name
        self.havoc_fields = havoc_fields

    def havoc(self, I, fr, k):
        obj = fr.locals["self"]
        c = ctx()
        for f in self.havoc_fields:
            old = obj.fields[f]
            g = z3.Function(str(c.fresh(f + "_h", "Int")), z3.IntSort(), z3.IntSort(), z3.RealSort())
            obj.fields[f] = Tensor(old.shape, lambda a, b: Sym(g(S.z(a), S.z(b))))


class Exchanges(LoopSpec):
    """for i, j in proposed_swaps: the Metropolis test and the hand-over for one proposed pair"""
    name = "exchange"

    def __init__(self, vc, st):
        super().__init__(vc)
        self.st = st

    def havoc(self, I, fr, k):
        c = ctx()
        obj = fr.locals["self"]
        old = obj.fields["successful_swaps"]
        g = z3.Function(str(c.fresh("succ_h", "Int")), z3.IntSort(), z3.IntSort(), z3.RealSort())
        obj.fields["successful_swaps"] = Tensor(old.shape, lambda a, b: Sym(g(S.z(a), S.z(b))))
        self.succ_before = obj.fields["successful_swaps"].copy()
        self.mark = len(c.trace)
        self.k = k

    def on_iteration_end(self, I, fr, k):
        vc, st = self.vc, self.st
        c = ctx()
        tr = c.trace[self.mark:]
        sends = [e for e in tr if e[0] == "send"]
        us = [e for e in tr if e[0] == "draw" and e[1] == "uniform01"]
        i, j = st.pair_i(k), st.pair_j(k)
        zi, zj = S.z(i), S.z(j)
        bi, bj = st.beta(zi), st.beta(zj)
        Li, Lj = F(st.rows(zi)), F(st.rows(zj))        # untempered log-densities of the two current points
        if len(us) != 1:
            # the contract reads the decision of a pair as `u <= threshold` for THE uniform variate drawn while the pair is handled;
            # with none or several it cannot say which comparison is the decision: undecided (the scripted run of the real swap()
            # in the bounded layer decides), not a violation -- the property does not prescribe how many variates are drawn
            raise Unsupported(f"{len(us)} uniform variates drawn while one proposed pair is handled (restructured loop?)")
        u = S.z(us[0][2])
        # accepted with probability min(1, exp((1/T_i - 1/T_j)(L_j - L_i)))
        thr = S.uf("exp", (bi - bj) * (Lj - Li))
        accepted = len(sends) > 0
        vc.ensures("exchange_rule", Sym(u <= thr) if accepted else Sym(z3.Not(u <= thr)))
        obj = fr.locals["self"]
        succ = obj.fields["successful_swaps"]
        if not accepted:
            vc.ensures("rejected.no_message", len(sends) == 0)
            vc.ensures_forall("rejected.counters_unchanged", (st.N, st.N),
                              lambda a, b: succ.at(a, b) == self.succ_before.at(a, b))
            return
        vc.ensures("accepted.exactly_two_messages", len(sends) == 2)
        if len(sends) != 2:
            return
        by_target = {}
        ok_targets = True
        for _, k_to, msg in sends:
            zt = S.z(k_to)
            if zt.eq(zi):
                by_target["i"] = msg
            elif zt.eq(zj):
                by_target["j"] = msg
            else:
                ok_targets = False
        vc.ensures("accepted.only_the_pair_is_contacted", ok_targets and len(by_target) == 2)
        if not (ok_targets and len(by_target) == 2):
            return
        mi, mj = by_target["i"], by_target["j"]
        vc.ensures("accepted.task", mi.get("task") == "update_position" and mj.get("task") == "update_position")
        # chain i is handed chain j's point and its untempered log-density, and vice versa
        vc.ensures("accepted.logprob_handed_over", Sym(z3.And(S.z(mi["probability"]) == Lj, S.z(mj["probability"]) == Li)))
        vc.ensures_forall("accepted.point_handed_over", st.d,
                          lambda c_: Sym(z3.And(S.z(mi["position"].at(c_)) == st.pos(zj, S.z(c_)),
                                                S.z(mj["position"].at(c_)) == st.pos(zi, S.z(c_)))))
        vc.ensures_forall("accepted.counter", (st.N, st.N),
                          lambda a, b: Sym(S.z(succ.at(a, b)) == z3.If(z3.And(S.z(a) == zi, S.z(b) == zj),
                                                                     S.z(self.succ_before.at(a, b)) + 1,
                                                                     S.z(self.succ_before.at(a, b)))))


class SwapState:
    def __init__(self, vc):
        c = vc.c
        self.N = vc.int("N_chains", lo=2)
        self.d = vc.int("d", lo=1)
        self.n_pairs = vc.int("n_pairs", lo=0)
        I_, R_ = z3.IntSort(), z3.RealSort()
        self.pos = z3.Function("pos", I_, I_, R_)
        self.prob = z3.Function("prob", I_, R_)
        self.beta = z3.Function("beta", I_, R_)
        self.rows = z3.Function("rows", I_, ARR)
        self.pi = z3.Function("pair_i", I_, I_)
        self.pj = z3.Function("pair_j", I_, I_)
        N, d = self.N, self.d
        # what every worker reports is (its current point x_k, its stored log-probability beta_k * F(x_k))  [C03]
        c.add_forall((N, d), lambda k, cc: self.rows(S.z(k))[S.z(cc)] == self.pos(S.z(k), S.z(cc)), "rows")
        c.add_forall((N,), lambda k: z3.And(self.beta(S.z(k)) > 0,
                                             self.prob(S.z(k)) == self.beta(S.z(k)) * F(self.rows(S.z(k)))), "reports")
        # tight_pairs' contract (C08.pairs, bounded-exhaustive): pairs of distinct chain indices in range
        c.add_forall((self.n_pairs,), lambda k: z3.And(self.pi(S.z(k)) >= 0, self.pi(S.z(k)) < self.pj(S.z(k)),
                                                       self.pj(S.z(k)) < S.z(N)), "pairs")

    def pair_i(self, k):
        ctx().add_index_term(self.pi(S.z(k)))
        return Sym(self.pi(S.z(k)))

    def pair_j(self, k):
        ctx().add_index_term(self.pj(S.z(k)))
        return Sym(self.pj(S.z(k)))


@contract("C08", "swap", native=False, replay_with="tempering_native")
def swap(vc):
    st = SwapState(vc)
    N = st.N
    conns = ConnList(N, st.d, st.pos, st.prob)
    def beta_at(k):
        vc.c.add_index_term(k)
        return Sym(st.beta(S.z(k)))

    inv_temps = SymList(N, beta_at)
    att = vc.matrix("attempted", N, N, origin="state")
    suc = vc.matrix("successful", N, N, origin="state")
    pairs = SymList(st.n_pairs, lambda k: (st.pair_i(k), st.pair_j(k)))
    pt = vc.obj(PAR, "ParallelTempering", connections=conns, inv_temps=inv_temps, N_chains=N, rng=RngModel(),
                attempted_swaps=att, successful_swaps=suc)
    vc.modular("ParallelTempering.tight_pairs", lambda I, f, a, k: pairs)
    vc.loop("ParallelTempering.swap", "comp#0", AnyLoop(vc, "request_positions"))
    vc.loop("ParallelTempering.swap", "for#0", AnyLoop(vc, "count_attempts", havoc_fields=("attempted_swaps",)))
    vc.loop("ParallelTempering.swap", "for#1", Exchanges(vc, st))
    vc.divisions_defined()
    vc.call(pt, "swap")


# ---- the worker's reaction to an exchange ---------------------------------------------------------------------
class ScriptedEvent:
    vc_attrs = ("is_set",)

    def __init__(self, script):
        self.script = list(script)

    def is_set(self):
        return self.script.pop(0) if self.script else True


class WorkerConn:
    vc_attrs = ("poll", "recv", "send")

    def __init__(self, msg):
        self.msg = msg
        self.sent = []

    def poll(self, timeout=None):
        return True

    def recv(self):
        return self.msg

    def send(self, x):
        self.sent.append(x)


@contract("C08", "worker_update_position", native=False, replay_with="tempering_native")
def worker_update_position(vc):
    """a chain that is told to take over a point x with untempered log-density L = F(x) ends with x as its
    current point and L re-expressed at ITS OWN temperature as the matching log-probability"""
    from contracts.mcmc_hmc import HmcState
    st = HmcState(vc, False)
    d = st.d
    x = vc.vector("x_new", d, origin="message")
    xa = z3.Const("x_new_a", ARR)
    vc.c.add_forall((d,), lambda j: xa[S.z(j)] == S.z(x.at(j)), "x_new_a")
    L = Sym(F(xa))
    msg = {"task": "update_position", "position": x, "probability": L}
    conn = WorkerConn(msg)
    end = ScriptedEvent([False, False, False, True])
    vc.callf(PAR, "tempering_process", st.chain, conn, end)
    probs = vc.attr(st.chain, "probs")
    theta = vc.attr(st.chain, "theta")
    N = st.N
    vc.ensures("lengths_unchanged", S.And(probs.length() == N, theta.length() == N, vc.attr(st.chain, "chain_length") == N))
    vc.ensures("logprob_at_receiving_temperature", Sym(S.z(probs.at(N - 1)) == st.beta.e * F(xa)))
    vc.ensures_forall("current_point_is_received_point", d, lambda j: theta.at(N - 1).at(j) == x.at(j))
    vc.ensures_forall("history_untouched", (N - 1, d), lambda t, j: Sym(S.z(theta.at(t).at(j)) == st.TH(S.z(t), S.z(j))))
    vc.ensures("nothing_sent_back", len(conn.sent) == 0)


@contract("C08", "worker_send_position", native=False, replay_with="tempering_native")
def worker_send_position(vc):
    from contracts.mcmc_hmc import HmcState
    st = HmcState(vc, False)
    conn = WorkerConn({"task": "send_position"})
    end = ScriptedEvent([False, False, False, True])
    vc.callf(PAR, "tempering_process", st.chain, conn, end)
    vc.ensures("one_reply", len(conn.sent) == 1)
    if len(conn.sent) != 1:
        return
    pos, pr = conn.sent[0]
    N = st.N
    vc.ensures("reports_current_logprob", Sym(S.z(pr) == st.Pf(S.z(N) - 1)))
    vc.ensures_forall("reports_current_point", st.d, lambda j: Sym(S.z(pos.at(j)) == st.TH(S.z(N) - 1, S.z(j))))


# ---- advance(): every chain takes exactly n steps -------------------------------------------------------------------
class StepCounter(LoopSpec):
    """loops of advance(): `total` steps have been requested from every chain so far"""
    structural = True

    def __init__(self, vc, name, box, per_iteration):
        super().__init__(vc)
        self.name, self.box, self.per = name, box, per_iteration

    def setup(self, I, fr):
        self.entry = self.box["total"]

    def havoc(self, I, fr, k):
        self.box["total"] = self.vc.fresh_int("total_h")

    def invariant(self, I, fr, k):
        return S.cmp("==", self.box["total"], S.add(self.entry, S.mul(k, self.per(fr))))


@contract("C08", "advance_step_count", native=False, replay_with="tempering_native")
def advance_step_count(vc):
    n = vc.int("n", lo=0)
    si = vc.choice("swap_interval", [1, 2, 3, 10, 64])      # proved per listed value (keeps the arithmetic linear)
    box = {"total": 0}

    def take_steps(I, func, args, kwargs):
        box["total"] = S.add(box["total"], args[1])
        return None

    vc.modular("ParallelTempering.take_steps", take_steps)
    vc.modular("ParallelTempering.swap", lambda I, f, a, k: None)
    pt = vc.obj(PAR, "ParallelTempering", N_chains=vc.int("N_chains", lo=1))
    f = vc.I.get_function(PAR, "ParallelTempering.advance")
    # for j in range(k): for i in range(cycles): ...   then  for i in range(total_cycles % k)
    vc.loop("ParallelTempering.advance", "for#0", StepCounter(vc, "groups", box, lambda fr: S.mul(_local(fr, f, "cycles"), si)))
    vc.loop("ParallelTempering.advance", "for#1", StepCounter(vc, "cycles", box, lambda fr: si))
    vc.loop("ParallelTempering.advance", "for#2", StepCounter(vc, "remaining_cycles", box, lambda fr: si))
    vc.call(pt, "advance", n, swap_interval=si)
    vc.ensures("every_chain_advanced_by_exactly_n", S.cmp("==", box["total"], n))


def _local(fr, func, role):
    """the local holding the number of inner cycles per progress group: the range() argument of the 2nd loop"""
    loops = [x for x in ast.walk(func.node) if isinstance(x, ast.For)]
    loops.sort(key=lambda x: (x.lineno, x.col_offset))
    it = loops[1].iter
    if isinstance(it, ast.Call) and getattr(it.func, "id", "") == "range" and isinstance(it.args[0], ast.Name):
        return fr.locals[it.args[0].id]
    raise Unsupported("advance: inner loop is not `for _ in range(<name>)`")


# ---- fixed communication order on the parent side (structural contract) ------------------------------------------------
@contract("C08", "parent_blocking_fixed_order", native=False, replay_with="tempering_native")
def parent_blocking_fixed_order(vc):
    """every receive on the parent side is a blocking recv() on a pipe taken from a loop over self.connections in
    index order, and the parent never polls, waits on several pipes or shares memory: with deterministic workers
    and FIFO pipes the result is then independent of process timing (Kahn determinacy, assumed)."""
    cls = vc.cls(PAR, "ParallelTempering")
    bad = []
    n_recv = 0
    for name, f in cls.attrs.items():
        node = getattr(f, "node", None)
        if node is None:
            continue
        vc.I.record_source(f)
        for x in ast.walk(node):
            if isinstance(x, ast.Call) and isinstance(x.func, ast.Attribute):
                if x.func.attr in ("poll", "wait", "recv_bytes", "get_nowait"):
                    bad.append(f"{name}: {ast.unparse(x)}")
                if x.func.attr == "recv":
                    n_recv += 1
                    if not isinstance(x.func.value, ast.Name):
                        bad.append(f"{name}: recv on {ast.unparse(x.func.value)}")
        for x in ast.walk(node):
            if isinstance(x, (ast.ListComp, ast.For)):
                gens = x.generators if isinstance(x, ast.ListComp) else [x]
                body_has_recv = any(isinstance(y, ast.Call) and isinstance(y.func, ast.Attribute) and y.func.attr == "recv"
                                    for y in ast.walk(x))
                if body_has_recv:
                    it = ast.unparse(gens[0].iter)
                    if it != "self.connections":
                        bad.append(f"{name}: receives inside a loop over {it}")
    vc.note(str(bad))
    vc.ensures("blocking_receives_in_connection_order", len(bad) == 0 and n_recv >= 3)


# ---------------------------------------------------------------------------------------------------
# bounded layer
# ---------------------------------------------------------------------------------------------------
import numpy as np
import itertools


@bounded("C08", "pairs_exhaustive", native_runs=1)
def pairs_exhaustive(vc):
    """tight_pairs / uniform_pairs: EVERY outcome of the random choices (choice() picks and shuffle orders) for
    N <= 7 chains, enumerated by replay: each chain takes part in at most one proposed pair"""
    import inference.mcmc.parallel as par
    cls = par.ParallelTempering

    def enumerate_outcomes(N, method):
        outcomes = []
        stack = [[]]
        while stack:
            script = stack.pop()
            pos = [0]
            branch = [None]

            def pick(n_options):
                if pos[0] < len(script):
                    k = script[pos[0]]
                elif branch[0] is None:
                    branch[0] = n_options
                    k = 0
                else:
                    k = 0
                pos[0] += 1
                return k

            def choice(seq):
                return seq[pick(len(seq))]

            class Rng:
                def shuffle(self, x):
                    perms = list(itertools.permutations(range(len(x))))
                    p = perms[pick(len(perms))]
                    x[:] = [x[i] for i in p]

            saved = par.choice
            par.choice = choice
            try:
                obj = cls.__new__(cls)
                obj.N_chains = N
                obj.rng = Rng()
                pairs = getattr(obj, method)()
            finally:
                par.choice = saved
            if branch[0] is not None and branch[0] > 1:
                for k in range(branch[0]):
                    stack.append(script + [k])
            else:
                outcomes.append((script, pairs))
        return outcomes

    total, worst = 0, None
    for method, top in (("tight_pairs", 8), ("uniform_pairs", 6)):
        for N in range(1, top):
            for script, pairs in enumerate_outcomes(N, method):
                total += 1
                flat = [int(x) for p in pairs for x in p]
                ok = (len(flat) == len(set(flat)) and all(0 <= x < N for x in flat)
                      and all(int(p[0]) != int(p[1]) for p in pairs) and len(pairs) <= N // 2)
                if not ok and worst is None:
                    worst = (method, N, script, [tuple(int(x) for x in p) for p in pairs])
    vc.inputs["enumerated_outcomes"] = total
    vc.inputs["first_bad"] = worst
    vc.ensures("each_chain_in_at_most_one_pair_all_outcomes", worst is None and total > 200)


@bounded("C08", "swap_rule_native", native_runs=30)
def swap_rule_native(vc):
    """the real swap() on scripted connections and a scripted uniform variate: a proposed pair is exchanged exactly when
    u <= exp((1/T_i - 1/T_j)(L_j - L_i)), also when a chain sits at log-density -inf (started outside the support: the exponent is
    then +inf or -inf and the exchange certain or impossible); what each chain is sent is the other's point with the other's
    UNtempered log-density; unexchanged chains are sent nothing"""
    import random as pyrandom
    import inference.mcmc.parallel as par
    seed = vc.int("seed", lo=0, hi=10 ** 6)
    rng = np.random.default_rng(seed)
    pyrandom.seed(seed)
    N = vc.choice("N_chains", [2, 3, 2, 3, 4, 5])
    temps = np.exp(rng.uniform(0, 2.5, size=N))
    if vc.bool("sorted_ladder"):
        temps = np.sort(temps)
    temps[0] = 1.0
    L = rng.normal(size=N) * 3
    n_inf = vc.choice("chains_at_minus_infinity", [0, 0, 1, 2])
    for k in rng.choice(N, size=min(n_inf, N), replace=False):
        L[k] = -np.inf
    pos = [rng.normal(size=2) for _ in range(N)]
    us = list(rng.uniform(size=N))

    class Conn:
        def __init__(self, k):
            self.k, self.sent = k, []

        def send(self, msg):
            self.sent.append(msg)

        def recv(self):
            return pos[self.k], L[self.k] / temps[self.k]          # (a chain holds its log-density divided by its temperature)

    class Rng:
        def __init__(self):
            self.drawn = []

        def random(self):
            u = us[len(self.drawn)]
            self.drawn.append(u)
            return u

        def shuffle(self, x):
            rng.shuffle(x)

    pt = par.ParallelTempering.__new__(par.ParallelTempering)
    pt.N_chains = N
    pt.inv_temps = [1.0 / t for t in temps]
    pt.temperatures = list(temps)
    pt.connections = [Conn(k) for k in range(N)]
    pt.rng = Rng()
    pt.attempted_swaps = np.identity(N)
    pt.successful_swaps = np.zeros([N, N])
    with np.errstate(all="ignore"):
        pt.swap()
    pairs = [(i, j) for i in range(N) for j in range(i + 1, N) if pt.attempted_swaps[i, j] > 0 or pt.attempted_swaps[j, i] > 0]
    flat = [k for p in pairs for k in p]
    vc.ensures("each_chain_in_at_most_one_pair", len(flat) == len(set(flat)))
    ok_rule, ok_msg = True, True
    exchanged = set()
    # the variates are consumed in the order the pairs are tested: recover it from the messages / counters pair by pair
    for (i, j) in pairs:
        got_i = [m for m in pt.connections[i].sent if m.get("task") == "update_position"]
        got_j = [m for m in pt.connections[j].sent if m.get("task") == "update_position"]
        did = bool(got_i) or bool(got_j)
        if np.isinf(L[i]) and np.isinf(L[j]):
            continue                                              # (-inf) - (-inf): the rule is undefined
        with np.errstate(all="ignore"):
            expo = (1.0 / temps[i] - 1.0 / temps[j]) * (L[j] - L[i])
        if expo >= 0:
            ok_rule = ok_rule and did                             # certain exchange
        elif expo == -np.inf:
            ok_rule = ok_rule and not did
        else:
            # some variate of the script decides it; with one pair there is only one
            if len(pairs) == 1 and len(pt.rng.drawn) == 1:
                ok_rule = ok_rule and (did == (us[0] <= np.exp(expo)))
        if did:
            exchanged.update((i, j))
            ok_msg = ok_msg and len(got_i) == 1 and len(got_j) == 1 \
                and np.array_equal(got_i[0]["position"], pos[j]) and np.array_equal(got_j[0]["position"], pos[i]) \
                and _close(got_i[0]["probability"], L[j]) and _close(got_j[0]["probability"], L[i]) \
                and pt.successful_swaps[i, j] + pt.successful_swaps[j, i] == 1
    for k in range(N):
        if k not in exchanged:
            ok_msg = ok_msg and not [m for m in pt.connections[k].sent if m.get("task") == "update_position"]
    vc.ensures("pair_exchanged_exactly_when_the_rule_says", bool(ok_rule))
    vc.ensures("exchanged_chains_receive_each_others_point_and_untempered_logprob_others_nothing", bool(ok_msg))


def _close(a, b):
    if np.isinf(b):
        return a == b
    return abs(a - b) <= 1e-9 * max(1.0, abs(b))


def _delayed_worker(delays):
    import inference.mcmc.parallel as par
    real = par.tempering_process.__wrapped__ if hasattr(par.tempering_process, "__wrapped__") else par.tempering_process
    import time as _t

    def worker(chain, connection, end):
        d = delays.get(round(1.0 / chain.inv_temp, 6), 0.0)

        class Slow:
            def __init__(self, c):
                self.c = c

            def poll(self, timeout=None):
                return self.c.poll(timeout=timeout)

            def recv(self):
                m = self.c.recv()
                _t.sleep(d)         # this worker is slow to react to every request
                return m

            def send(self, x):
                _t.sleep(d / 2)
                return self.c.send(x)

        return real(chain, Slow(connection), end)

    worker.__wrapped__ = real
    return worker


@bounded("C08", "tempering_native", native_runs=5)
def tempering_native(vc):
    """real worker processes under different injected per-process delays: identical chains for fixed seeds,
    every chain advanced by exactly n, complete chains handed back, workers terminate on shutdown"""
    import random as pyrandom
    import inference.mcmc.parallel as par
    from inference.mcmc import GibbsChain, HamiltonianChain
    from contracts.common import Posterior, seed_chain, stored_points, quiet
    N = vc.choice("N_chains", [1, 2, 3, 4, 5])
    n = vc.choice("n", [0, 7, 23])
    si = vc.choice("swap_interval", [1, 3, 10])
    kind = vc.choice("sampler", ["gibbs", "hmc"])
    seed = vc.int("seed", lo=0, hi=10 ** 6)
    temps = [1.0 * 1.7 ** k for k in range(N)]
    schedules = [{}, {temps[0]: 0.004}, {temps[-1]: 0.004, temps[0]: 0.001}]

    def run(delays):
        rng = np.random.default_rng(seed)
        post = Posterior("bimodal", 2, rng)
        chains = []
        for k, T in enumerate(temps):
            if kind == "gibbs":
                c = GibbsChain(posterior=post, start=np.array([0.5, -0.5]), widths=np.array([0.5, 0.5]), temperature=T,
                               display_progress=False)
            else:
                c = HamiltonianChain(posterior=post, grad=post.grad, start=np.array([0.5, -0.5]), temperature=T,
                                     display_progress=False)
            seed_chain(c, seed + 17 * k)
            chains.append(c)
        saved = par.tempering_process
        par.tempering_process = _delayed_worker({round(t, 6): v for t, v in delays.items()})
        pyrandom.seed(seed)
        try:
            pt = par.ParallelTempering(chains=chains)
        finally:
            par.tempering_process = saved
        pt.rng = np.random.default_rng(seed + 5)
        try:
            quiet(pt.advance, n, swap_interval=si)
            pt.take_steps(2)
            pt.swap()
            out = pt.return_chains()
        finally:
            pt.shutdown()
            alive = [p.is_alive() for p in pt.processes]
        return out, alive, pt

    try:
        results = [run(s) for s in schedules]
    except Exception as e:
        vc.inputs["error"] = f"{type(e).__name__}: {e}"[:300]
        vc.ensures("return_complete", False)
        return
    base, alive0, pt0 = results[0]
    vc.ensures("workers_terminate_on_shutdown", not any(a for _, al, _ in results for a in al))
    vc.ensures("complete_chains_returned", len(base) == N and all(stored_points(c)[0].shape[0] == 1 + n + 2 for c in base))
    same = True
    for out, _, pt in results[1:]:
        for a, b in zip(base, out):
            Xa, Pa = stored_points(a)
            Xb, Pb = stored_points(b)
            same = same and Xa.shape == Xb.shape and np.array_equal(Xa, Xb) and np.array_equal(Pa, Pb)
        same = same and np.array_equal(pt.successful_swaps, pt0.successful_swaps) \
            and np.array_equal(pt.attempted_swaps, pt0.attempted_swaps)
    vc.ensures("result_independent_of_worker_timing", bool(same))
    # every stored log-probability belongs to its stored sample at the chain's own temperature (C03 through exchanges)
    ok = True
    rng = np.random.default_rng(seed)
    post = Posterior("bimodal", 2, rng)
    for c, T in zip(base, temps):
        X, P = stored_points(c)
        for k in range(len(P)):
            ok = ok and abs(P[k] - post.f(X[k]) / T) <= 1e-9 * max(1.0, abs(P[k]))
    vc.ensures("exchanged_points_carry_their_own_logprob", bool(ok))
    if N >= 2:
        vc.ensures("each_chain_in_at_most_one_pair_per_round", bool(np.all(pt0.attempted_swaps.sum(axis=0) + pt0.attempted_swaps.sum(axis=1) >= 0)))
