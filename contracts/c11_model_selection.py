"""C11 -- GP model-selection scores and their gradients are what they claim to be."""
import numpy as np
from pyvc.vc import contract, bounded


def _gp(rng, with_noise=True, n=None, kernels=("SE", "RQ", "SE+WN")):
    from inference.gp import (GpRegressor, SquaredExponential, RationalQuadratic, WhiteNoise, ConstantMean, LinearMean,
                              QuadraticMean)
    from contracts.gp_common import hyperpars_for
    d = int(rng.integers(1, 3))
    n = n or int(rng.integers(3, 11))
    x = rng.normal(size=(n, d)) * 1.5
    y = np.sin(x.sum(axis=1)) + 0.3 * x[:, 0] + 0.1 * rng.normal(size=n)
    kn = str(rng.choice(list(kernels)))
    mk = {"SE": SquaredExponential, "RQ": RationalQuadratic, "WN": WhiteNoise}
    parts = kn.split("+")
    K = mk[parts[0]]()
    for p_ in parts[1:]:
        K = K + mk[p_]()
    M = [ConstantMean, LinearMean, QuadraticMean][int(rng.integers(0, 3))]()
    K.pass_spatial_data(x)
    M.pass_spatial_data(x)
    theta = hyperpars_for(list(M.hyperpar_labels) + list(K.hyperpar_labels), rng, x)
    y_err = 10 ** rng.uniform(-1.5, -0.5, size=n)
    gp = GpRegressor(x, y, y_err=y_err if with_noise else None, kernel=K, mean=M, hyperpars=theta)
    return gp, x, y, y_err, theta, kn


@bounded("C11", "scores_native", native_runs=30)
def scores_native(vc):
    from scipy.stats import multivariate_normal
    seed = vc.int("seed", lo=0, hi=10 ** 6)
    rng = np.random.default_rng(seed)
    gp, x, y, y_err, theta, kn = _gp(rng)
    n = len(y)
    th = theta + 0.1 * rng.normal(size=theta.size)
    Kxx = gp.cov.build_covariance(th[gp.cov_slice]) + gp.sig
    mu = gp.mean.build_mean(th[gp.mean_slice])
    want = multivariate_normal(mean=mu, cov=Kxx, allow_singular=True).logpdf(y) + 0.5 * n * np.log(2 * np.pi)
    lml = gp.marginal_likelihood(th)
    vc.ensures("marginal_likelihood_is_mvn_log_density_up_to_constant", abs(lml - want) <= 1e-7 * max(1.0, abs(want)))
    v2, g = gp.marginal_likelihood_gradient(th)
    vc.ensures("marginal_likelihood_value_variant_agrees", abs(v2 - lml) <= 1e-9 * max(1.0, abs(lml)))

    def fd(f):
        out = np.zeros(th.size)
        for k in range(th.size):
            e = np.zeros(th.size)
            e[k] = 1e-5
            out[k] = (-f(th + 2 * e) + 8 * f(th + e) - 8 * f(th - e) + f(th - 2 * e)) / (12e-5)
        return out
    gf = fd(gp.marginal_likelihood)
    vc.ensures("marginal_likelihood_gradient_is_true_gradient",
               bool(np.allclose(g, gf, rtol=1e-5, atol=1e-6 * max(1.0, float(np.abs(gf).max())))))
    # leave-one-out: actually remove each point and predict it from the rest
    # (the hyper-parameters in use are set through one array object updated in place, as an optimiser's parameter buffer is:
    # the predictions must belong to the values now in the array)
    buf = np.array(theta, dtype=float) + 0.05
    gp.set_hyperparameters(buf)
    buf[:] = th
    gp.set_hyperparameters(buf)
    mu_loo, sd_loo = gp.loo_predictions()
    import copy
    from inference.gp import GpRegressor
    ok = True
    loo_score = 0.0
    for i in range(n):
        keep = np.arange(n) != i
        Kk = Kxx[np.ix_(keep, keep)]
        ki = Kxx[i, keep]
        sol = np.linalg.solve(Kk, np.column_stack([y[keep] - mu[keep], ki]))
        m_i = mu[i] + ki @ sol[:, 0]
        v_i = Kxx[i, i] - ki @ sol[:, 1]
        ok = ok and abs(mu_loo[i] - m_i) <= 1e-6 * max(1.0, abs(m_i)) and abs(sd_loo[i] ** 2 - v_i) <= 1e-6 * max(1e-6, abs(v_i))
        loo_score += -0.5 * ((y[i] - m_i) ** 2 / v_i + np.log(v_i))
    vc.ensures("loo_predictions_equal_explicit_refits", bool(ok))
    loo = gp.loo_likelihood(th)
    vc.ensures("loo_likelihood_equals_explicit_refits", abs(loo - loo_score) <= 1e-6 * max(1.0, abs(loo_score)))
    l2, gl = gp.loo_likelihood_gradient(th)
    glf = fd(gp.loo_likelihood)
    vc.ensures("loo_value_variant_agrees_and_gradient_true", abs(l2 - loo) <= 1e-9 * max(1.0, abs(loo))
               and bool(np.allclose(gl, glf, rtol=1e-4, atol=1e-5 * max(1.0, float(np.abs(glf).max())))))


@bounded("C11", "large_data_native", native_runs=6)
def large_data_native(vc):
    """scores on data sets of a few hundred points with small errors / large values (products of hundreds of Cholesky
    pivots leave double range; their logarithms do not): value, value-and-gradient variant and an independent
    slogdet / solve reference agree and are finite"""
    from inference.gp import GpRegressor, SquaredExponential
    seed = vc.int("seed", lo=0, hi=10 ** 6)
    rng = np.random.default_rng(seed)
    n = vc.choice("n", [150, 300, 500])
    yscale = vc.choice("y_scale", [1.0, 1e5, 1e-4])
    err = vc.choice("relative_error", [0.01, 0.3])
    x = np.sort(rng.uniform(0, 10, size=n))
    y = yscale * (np.sin(x) + 0.2 * rng.normal(size=n))
    y_err = np.full(n, err * yscale)
    theta = np.array([float(np.mean(y)), np.log(yscale), np.log(1.0)])
    gp = GpRegressor(x, y, y_err=y_err, kernel=SquaredExponential, hyperpars=theta)
    with np.errstate(all="ignore"):
        v = float(gp.marginal_likelihood(theta))
        v2, g2 = gp.marginal_likelihood_gradient(theta)
        l = float(gp.loo_likelihood(theta))
        l2, _ = gp.loo_likelihood_gradient(theta)
    K = gp.cov.build_covariance(theta[gp.cov_slice]) + gp.sig
    r = y - gp.mean.build_mean(theta[gp.mean_slice])
    sign, logdet = np.linalg.slogdet(K)
    want = -0.5 * r @ np.linalg.solve(K, r) - 0.5 * logdet
    vc.inputs["value"], vc.inputs["expected"] = v, float(want)
    vc.ensures("marginal_likelihood_finite_and_equal_to_reference", np.isfinite(v) and abs(v - want) <= 1e-6 * max(1.0, abs(want)))
    vc.ensures("value_and_gradient_variant_agrees", np.isfinite(float(v2)) and abs(float(v2) - v) <= 1e-8 * max(1.0, abs(v)) and bool(np.all(np.isfinite(g2))))
    vc.ensures("loo_variants_agree_and_are_finite", np.isfinite(l) and abs(float(l2) - l) <= 1e-8 * max(1.0, abs(l)))


@bounded("C11", "selection_native", native_runs=24)
def selection_native(vc):
    """automatic hyper-parameter choice: inside the advertised bounds; multi-start BFGS at least as good as the centre"""
    from inference.gp import GpRegressor, SquaredExponential, ConstantMean, LinearMean
    seed = vc.int("seed", lo=0, hi=10 ** 6)
    rng = np.random.default_rng(seed)
    np.random.seed(seed % (2 ** 31))
    n = int(rng.integers(5, 12))
    x = np.sort(rng.uniform(-3, 3, size=n))
    data = vc.choice("data", ["signal", "pure_noise", "constant_plus_noise"])
    err = 0.1
    if data == "signal":
        y = np.sin(x) + 0.1 * rng.normal(size=n)
    elif data == "pure_noise":
        # scatter fully explained by the stated errors: the optimum sits ON a bound of the box (amplitude -> lower limit)
        err = 1.0
        y = rng.normal(size=n)
    else:
        err = 0.5
        y = 3.0 + 0.5 * rng.normal(size=n)
    opt = vc.choice("optimizer", ["bfgs", "diffev"])
    cv = vc.bool("cross_val")
    # the number of starts is the caller's: the centre of the box is one of them however few are requested
    n_starts = vc.choice("n_starts", [None, 1, 2, 4])
    gp = GpRegressor(x, y, y_err=np.full(n, err), kernel=SquaredExponential, mean=[ConstantMean, LinearMean][seed % 2],
                     optimizer=opt, cross_val=cv, n_starts=n_starts)
    lo = np.array([b[0] for b in gp.hp_bounds])
    hi = np.array([b[1] for b in gp.hp_bounds])
    h = np.asarray(gp.hyperpars)
    vc.ensures("chosen_hyperparameters_inside_bounds", bool(np.all(h >= lo - 1e-9 * np.abs(lo) - 1e-12) and np.all(h <= hi + 1e-9 * np.abs(hi) + 1e-12)))
    if opt == "bfgs":
        centre = 0.5 * (lo + hi)
        vc.ensures("at_least_as_good_as_centre_of_bounds", gp.model_selector(h) >= gp.model_selector(centre) - 1e-9)


# ================================================================================================
# proof layer: the real score functions over abstract matrices (pyvc.matalg)
# ================================================================================================
from pyvc import sym as S
from pyvc.sym import Sym, Unsupported
from pyvc.tensor import Tensor, SymList
from pyvc import matalg as M

REG = "inference.gp.regression"


def _datom(st, k):
    """d/dtheta_k of the atoms: K -> dK_k for covariance parameters, mu -> dmu_k for mean parameters"""
    def d(a, t):
        if a.name == "K" and k[0] == "cov":
            return M.atom("dK", st.n, st.n, symmetric=True, params=(k[1],))
        if a.name == "mu" and k[0] == "mean":
            return M.atom("dmu", st.n, params=(k[1],))
        return None
    return d


def _lml(st):
    """log N(y; m, K+S) + n/2 log 2pi  =  -1/2 r^T C^-1 r - 1/2 logdet C"""
    quad = st.r @ (st.Ci @ st.r)
    return S.sub(S.mul(S.div(-1, 2), quad), S.mul(S.div(1, 2), M.logdet_of(st.C)))


def _lml_grad(st, k):
    """matrix calculus (assumed lemmas: d C^-1 = -C^-1 dC C^-1, d logdet C = tr(C^-1 dC)) applied mechanically to the
    specification above"""
    d = _datom(st, k)
    r2 = st.r[:, None]                                  # column
    quad = r2.T @ st.Ci @ r2                            # 1x1 matrix r^T C^-1 r
    dquad = M.dmat(quad, d).scalar()
    dC = M.dmat(st.C, d)
    dlogdet = M.trace_of(st.Ci @ dC) if dC.nf else 0
    return S.sub(S.mul(S.div(-1, 2), dquad), S.mul(S.div(1, 2), dlogdet))


@contract("C11", "marginal_likelihood", native=False, replay_with="scores_native")
def marginal_likelihood(vc):
    from contracts.gp_matrix import GpState
    st = GpState(vc)
    gp = st.regressor(fitted=False)
    val = vc.call(gp, "marginal_likelihood", st.theta)
    vc.ensures("value_is_gaussian_log_density_of_the_data", S.cmp("==", val, _lml(st)))


@contract("C11", "marginal_likelihood_gradient", native=False, replay_with="scores_native")
def marginal_likelihood_gradient(vc):
    from contracts.gp_matrix import GpState
    st = GpState(vc)
    gp = st.regressor(fitted=False)
    val, grad = vc.call(gp, "marginal_likelihood_gradient", st.theta)
    vc.ensures("value_is_gaussian_log_density_of_the_data", S.cmp("==", val, _lml(st)))
    vc.ensures("one_gradient_entry_per_hyperparameter", vc.ndim(grad) == 1 and S.cmp("==", grad.shape[0], st.nm + st.nc))
    vc.ensures_forall("mean_parameter_gradient_is_true_derivative", st.nm,
                      lambda k: S.cmp("==", grad.at(k), _lml_grad(st, ("mean", S.z(k)))))
    vc.ensures_forall("covariance_parameter_gradient_is_true_derivative", st.nc,
                      lambda k: S.cmp("==", grad.at(S.add(k, st.nm)), _lml_grad(st, ("cov", S.z(k)))))


def _loo_terms(vc, st):
    # diagonal entries of the inverse of a positive-definite matrix are positive (assumed fact of the matrix layer)
    if not getattr(st, "_ci_pos", False):
        st._ci_pos = True
        vc.assume_lemma("the diagonal entries of the inverse of a positive-definite matrix are positive",
                        extents=st.n, fn=lambda i: S.cmp(">", st.Ci.at(i, i), 0))
        vc.assume_lemma("R&W (5.12): the leave-one-out predictive mean/variance of point i are y_i - [C^-1 r]_i / [C^-1]_ii and "
                        "1 / [C^-1]_ii (block-inverse lemma); compared with explicit refits in the bounded layer")
    a = st.Ci @ st.r                                       # C^-1 (y - m)
    var = lambda i: S.div(1, st.Ci.at(i, i))               # leave-one-out predictive variance  (R&W 5.12)
    mu = lambda i: S.sub(st.y.at(i), S.mul(a.at(i), var(i)))   # leave-one-out predictive mean
    return a, var, mu


def _loo(vc, st):
    """sum_i log N(y_i; mu_-i, var_-i) + n/2 log 2pi = -1/2 sum_i [ (y_i - mu_-i)^2 / var_i + log var_i ]
    with y_i - mu_-i = a_i var_i (R&W 5.10-5.12; the identity of these with an actual refit is the block-inverse lemma,
    assumed -- and compared with a refit in the bounded layer)"""
    a, var, mu = _loo_terms(vc, st)
    return S.mul(S.div(-1, 2), vc.sum(st.n, lambda i: S.add(S.mul(var(i), S.mul(a.at(i), a.at(i))), vc.log(var(i)))))


# loo_predictions() reads the state left by set_hyperparameters: its contracts (C02) are checked under this property as well
from contracts.c02_gp_regression import set_hyperparameters as _shp, set_hyperparameters_again as _shpa
contract("C11", "set_hyperparameters", native=False, replay_with="scores_native")(_shp)
contract("C11", "set_hyperparameters_again", native=False, replay_with="scores_native")(_shpa)


@contract("C11", "loo_predictions", native=False, replay_with="scores_native")
def loo_predictions(vc):
    from contracts.gp_matrix import GpState
    st = GpState(vc)
    gp = st.regressor()
    a, var, mu = _loo_terms(vc, st)
    m_, s_ = vc.call(gp, "loo_predictions")
    vc.ensures_forall("mean_is_leave_one_out_mean", st.n, lambda i: S.cmp("==", m_.at(i), mu(i)))
    vc.ensures_forall("std_is_root_of_leave_one_out_variance", st.n, lambda i: S.cmp("==", s_.at(i), vc.sqrt(var(i))))


@contract("C11", "loo_likelihood", native=False, replay_with="scores_native")
def loo_likelihood(vc):
    from contracts.gp_matrix import GpState
    st = GpState(vc)
    gp = st.regressor(fitted=False)
    spec = _loo(vc, st)
    val = vc.call(gp, "loo_likelihood", st.theta)
    vc.ensures("value_is_sum_of_leave_one_out_log_densities", S.cmp("==", val, spec))


@contract("C11", "loo_likelihood_gradient", native=False, replay_with="scores_native")
def loo_likelihood_gradient(vc):
    from contracts.gp_matrix import GpState
    st = GpState(vc)
    gp = st.regressor(fitted=False)
    spec = _loo(vc, st)

    def true_grad(k):
        d = _datom(st, k)
        return vc.deriv(spec, lambda e: M.elem_derivative(e, d))

    # the two per-parameter loops: after t iterations the list holds the true derivatives for parameters 0..t-1
    import ast
    func = vc.I.get_function(REG, "GpRegressor.loo_likelihood_gradient")
    loops = [n for n in ast.walk(func.node) if isinstance(n, ast.For)]
    from contracts.gp_matrix import MapLoop
    for tag, lp in zip(("for#0", "for#1"), loops):
        which = "cov" if "grad_K" in ast.unparse(lp.iter) else "mean"
        names = [n.func.value.id for n in ast.walk(lp) if isinstance(n, ast.Call) and isinstance(n.func, ast.Attribute)
                 and n.func.attr == "append" and isinstance(n.func.value, ast.Name)]
        vc.loop("GpRegressor.loo_likelihood_gradient", tag,
                MapLoop(vc, st, names, (lambda w: lambda t: true_grad((w, S.z(t))))(which), name=f"{which}_parameters"))
    val, grad = vc.call(gp, "loo_likelihood_gradient", st.theta)
    vc.ensures("value_is_sum_of_leave_one_out_log_densities", S.cmp("==", val, spec))
    vc.ensures("one_gradient_entry_per_hyperparameter", vc.ndim(grad) == 1 and S.cmp("==", grad.shape[0], st.nm + st.nc))
    vc.ensures_forall("mean_parameter_gradient_is_true_derivative", st.nm,
                      lambda k: S.cmp("==", grad.at(k), true_grad(("mean", S.z(k)))))
    vc.ensures_forall("covariance_parameter_gradient_is_true_derivative", st.nc,
                      lambda k: S.cmp("==", grad.at(S.add(k, st.nm)), true_grad(("cov", S.z(k)))))
import contracts.matrix_laws  # noqa: F401  (numerical self-test of the matrix layer's axioms)


# The score gradients above are proved MODULARLY over the kernel and mean objects (covariance_and_gradients() /
# mean_and_gradients() are taken to return K, dK/dtheta_q, m, dm/dtheta_q).  Those callee contracts (written for C10) are
# obligations of this property as well: a kernel that reports a wrong derivative makes the score gradient wrong.
from contracts import c10_covariance as _c10
for _n in ("squared_exponential", "rational_quadratic", "white_noise", "heteroscedastic_noise", "composite",
           "change_point_logistic", "change_point", "constant_mean", "linear_mean", "quadratic_mean"):
    contract("C11", "kernel_" + _n, native=False, replay_with="scores_native")(getattr(_c10, _n))
