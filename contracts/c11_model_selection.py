"""C11 -- GP model-selection scores and their gradients are what they claim to be."""
import numpy as np
from pyvc.vc import contract, bounded


def _gp(rng, with_noise=True, n=None, kernels=("SE", "RQ", "SE+WN")):
    from inference.gp import (GpRegressor, SquaredExponential, RationalQuadratic, WhiteNoise, ConstantMean, LinearMean,
                              QuadraticMean)
    from contracts.gp_common import hyperpars_for
    d = int(rng.integers(1, 3))
    n = n or int(rng.integers(3, 11))
    x = rng.normal(size=(n, d)) * 1.5
    y = np.sin(x.sum(axis=1)) + 0.3 * x[:, 0] + 0.1 * rng.normal(size=n)
    kn = str(rng.choice(list(kernels)))
    mk = {"SE": SquaredExponential, "RQ": RationalQuadratic, "WN": WhiteNoise}
    parts = kn.split("+")
    K = mk[parts[0]]()
    for p_ in parts[1:]:
        K = K + mk[p_]()
    M = [ConstantMean, LinearMean, QuadraticMean][int(rng.integers(0, 3))]()
    K.pass_spatial_data(x)
    M.pass_spatial_data(x)
    theta = hyperpars_for(list(M.hyperpar_labels) + list(K.hyperpar_labels), rng, x)
    y_err = 10 ** rng.uniform(-1.5, -0.5, size=n)
    gp = GpRegressor(x, y, y_err=y_err if with_noise else None, kernel=K, mean=M, hyperpars=theta)
    return gp, x, y, y_err, theta, kn


@bounded("C11", "scores_native", native_runs=30)
def scores_native(vc):
    from scipy.stats import multivariate_normal
    seed = vc.int("seed", lo=0, hi=10 ** 6)
    rng = np.random.default_rng(seed)
    gp, x, y, y_err, theta, kn = _gp(rng)
    n = len(y)
    th = theta + 0.1 * rng.normal(size=theta.size)
    Kxx = gp.cov.build_covariance(th[gp.cov_slice]) + gp.sig
    mu = gp.mean.build_mean(th[gp.mean_slice])
    want = multivariate_normal(mean=mu, cov=Kxx, allow_singular=True).logpdf(y) + 0.5 * n * np.log(2 * np.pi)
    lml = gp.marginal_likelihood(th)
    vc.ensures("marginal_likelihood_is_mvn_log_density_up_to_constant", abs(lml - want) <= 1e-7 * max(1.0, abs(want)))
    v2, g = gp.marginal_likelihood_gradient(th)
    vc.ensures("marginal_likelihood_value_variant_agrees", abs(v2 - lml) <= 1e-9 * max(1.0, abs(lml)))

    def fd(f):
        out = np.zeros(th.size)
        for k in range(th.size):
            e = np.zeros(th.size)
            e[k] = 1e-5
            out[k] = (-f(th + 2 * e) + 8 * f(th + e) - 8 * f(th - e) + f(th - 2 * e)) / (12e-5)
        return out
    gf = fd(gp.marginal_likelihood)
    vc.ensures("marginal_likelihood_gradient_is_true_gradient",
               bool(np.allclose(g, gf, rtol=1e-5, atol=1e-6 * max(1.0, float(np.abs(gf).max())))))
    # leave-one-out: actually remove each point and predict it from the rest
    gp.set_hyperparameters(th)
    mu_loo, sd_loo = gp.loo_predictions()
    import copy
    from inference.gp import GpRegressor
    ok = True
    loo_score = 0.0
    for i in range(n):
        keep = np.arange(n) != i
        Kk = Kxx[np.ix_(keep, keep)]
        ki = Kxx[i, keep]
        sol = np.linalg.solve(Kk, np.column_stack([y[keep] - mu[keep], ki]))
        m_i = mu[i] + ki @ sol[:, 0]
        v_i = Kxx[i, i] - ki @ sol[:, 1]
        ok = ok and abs(mu_loo[i] - m_i) <= 1e-6 * max(1.0, abs(m_i)) and abs(sd_loo[i] ** 2 - v_i) <= 1e-6 * max(1e-6, abs(v_i))
        loo_score += -0.5 * ((y[i] - m_i) ** 2 / v_i + np.log(v_i))
    vc.ensures("loo_predictions_equal_explicit_refits", bool(ok))
    loo = gp.loo_likelihood(th)
    vc.ensures("loo_likelihood_equals_explicit_refits", abs(loo - loo_score) <= 1e-6 * max(1.0, abs(loo_score)))
    l2, gl = gp.loo_likelihood_gradient(th)
    glf = fd(gp.loo_likelihood)
    vc.ensures("loo_value_variant_agrees_and_gradient_true", abs(l2 - loo) <= 1e-9 * max(1.0, abs(loo))
               and bool(np.allclose(gl, glf, rtol=1e-4, atol=1e-5 * max(1.0, float(np.abs(glf).max())))))


@bounded("C11", "selection_native", native_runs=6)
def selection_native(vc):
    """automatic hyper-parameter choice: inside the advertised bounds; multi-start BFGS at least as good as the centre"""
    from inference.gp import GpRegressor, SquaredExponential, ConstantMean, LinearMean
    seed = vc.int("seed", lo=0, hi=10 ** 6)
    rng = np.random.default_rng(seed)
    np.random.seed(seed % (2 ** 31))
    n = int(rng.integers(5, 12))
    x = np.sort(rng.uniform(-3, 3, size=n))
    y = np.sin(x) + 0.1 * rng.normal(size=n)
    opt = vc.choice("optimizer", ["bfgs", "diffev"])
    cv = vc.bool("cross_val")
    gp = GpRegressor(x, y, y_err=np.full(n, 0.1), kernel=SquaredExponential, mean=[ConstantMean, LinearMean][seed % 2],
                     optimizer=opt, cross_val=cv)
    lo = np.array([b[0] for b in gp.hp_bounds])
    hi = np.array([b[1] for b in gp.hp_bounds])
    h = np.asarray(gp.hyperpars)
    vc.ensures("chosen_hyperparameters_inside_bounds", bool(np.all(h >= lo - 1e-9 * np.abs(lo) - 1e-12) and np.all(h <= hi + 1e-9 * np.abs(hi) + 1e-12)))
    if opt == "bfgs":
        centre = 0.5 * (lo + hi)
        vc.ensures("at_least_as_good_as_centre_of_bounds", gp.model_selector(h) >= gp.model_selector(centre) - 1e-9)
