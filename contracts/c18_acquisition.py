"""C18 -- acquisition functions compute what they define; proposals respect bounds."""
import numpy as np
from pyvc.vc import contract, bounded


def _optimiser(rng, d, acq, optimizer="bfgs", mean=None, as_flat=False, bounds_as_array=False):
    from inference.gp import GpOptimiser, ConstantMean
    n = int(rng.integers(4, 8))
    x = rng.uniform(-2, 2, size=(n, d))
    y = np.cos(x.sum(axis=1)) + 0.3 * x[:, 0]
    bounds = [(-2.5, 2.5)] * d
    if bounds_as_array:
        bounds = np.array(bounds, dtype=float)          # the search box handed over as a (d, 2) float array
    x_in = x[:, 0].copy() if (as_flat and d == 1) else x.copy()
    hp = None
    opt = GpOptimiser(x_in, y.copy(), bounds=bounds, y_err=np.full(n, 0.05), acquisition=acq, optimizer=optimizer,
                      mean=mean or ConstantMean)
    return opt, x, y, bounds, x_in


@bounded("C18", "acquisition_native", native_runs=24)
def acquisition_native(vc):
    from scipy.integrate import quad
    from scipy.stats import norm
    from inference.gp import ExpectedImprovement, UpperConfidenceBound, MaxVariance, ConstantMean, LinearMean, QuadraticMean
    seed = vc.int("seed", lo=0, hi=10 ** 6)
    rng = np.random.default_rng(seed)
    np.random.seed(seed % (2 ** 31))
    d = vc.int("d", lo=1, hi=2)
    acq_cls = [ExpectedImprovement, UpperConfidenceBound, MaxVariance][vc.choice("acquisition", [0, 1, 2])]
    mean = [ConstantMean, LinearMean, QuadraticMean][vc.choice("mean", [0, 1, 2])]
    opt, x, y, bounds, x_in = _optimiser(rng, d, acq_cls, mean=mean)
    acq = opt.acquisition
    q = rng.uniform(-2.4, 2.4, size=d)
    mu, sig = opt.gp(q)
    mu, sig = float(mu[0]), float(sig[0])
    if acq_cls is UpperConfidenceBound and vc.bool("kappa_reassigned_after_construction"):
        acq.kappa = float(rng.uniform(0.2, 6.0))        # an exploration schedule: the value in force is the attribute's
    val = float(acq(q))
    if acq_cls is ExpectedImprovement:
        ymax = acq.mu_max
        integrand = lambda f: max(f - ymax, 0.0) * norm.pdf(f, loc=mu, scale=sig)
        want = quad(integrand, ymax, mu + 12 * sig, limit=200)[0] if mu + 12 * sig > ymax else 0.0
        vc.ensures("expected_improvement_is_expectation_of_improvement", abs(val - want) <= 1e-6 * max(want, 1e-300) + 1e-12 * sig)
    elif acq_cls is UpperConfidenceBound:
        vc.ensures("ucb_is_mean_plus_kappa_sigma", abs(val - (mu + acq.kappa * sig)) <= 1e-12 * max(1.0, abs(val)))
    else:
        vc.ensures("max_variance_is_predictive_variance", abs(val - sig ** 2) <= 1e-12 * max(1.0, abs(val)))
    # value-and-gradient form used by the optimiser: same objective, true spatial gradient
    f0, g0 = acq.opt_func_gradient(q)
    f0 = float(np.asarray(f0).reshape(-1)[0])
    vc.ensures("objective_value_variant_agrees", abs(f0 - float(acq.opt_func(q))) <= 1e-9 * max(1.0, abs(f0)))
    g0 = np.reshape(g0, (d,))
    gf = np.zeros(d)
    for c in range(d):
        e = np.zeros(d)
        e[c] = 1e-5
        fo = lambda p: float(acq.opt_func(p))
        gf[c] = (-fo(q + 2 * e) + 8 * fo(q + e) - 8 * fo(q - e) + fo(q - 2 * e)) / 12e-5
    vc.ensures("gradient_matches_finite_differences", bool(np.allclose(g0, gf, rtol=1e-4, atol=1e-6 * max(1.0, float(np.abs(gf).max())))))
    # values depend on the VALUE of the query point only: one buffer evaluated, moved in place, evaluated again (what L-BFGS does)
    qb = q + 0.3
    acq(qb), acq.opt_func(qb), acq.opt_func_gradient(qb), opt.gp(qb)
    qb[:] = q
    f1, g1 = acq.opt_func_gradient(qb)
    m1, s1 = opt.gp(qb)
    vc.ensures("query_buffer_moved_in_place", float(acq(qb)) == val and float(np.asarray(f1).reshape(-1)[0]) == f0
               and bool(np.array_equal(np.reshape(g1, (d,)), g0)) and float(m1[0]) == mu and float(s1[0]) == sig)


@bounded("C18", "expected_improvement_branches_native", native_runs=1)
def expected_improvement_branches_native(vc):
    """both evaluation branches of expected improvement against high-precision quadrature, and continuity at Z = -3"""
    from inference.gp import ExpectedImprovement
    import mpmath as mp
    ei = ExpectedImprovement()
    worst = 0.0

    class FakeGp:
        def __init__(self, mu, sig):
            self.mu, self.sig = mu, sig
            self.y = np.array([0.0])

        def __call__(self, x):
            return np.array([self.mu]), np.array([self.sig])

    ei.mu_max = 0.0
    for Z in [-40, -20, -10, -5, -3.5, -3.0000001, -3.0, -2.9999999, -2.5, -1, 0, 1, 5, 10]:
        for sig in [1e-3, 1.0, 50.0]:
            ei.gp = FakeGp(Z * sig, sig)
            got = float(ei(np.zeros(1)))
            z = mp.mpf(Z)
            want = mp.mpf(sig) * (z * mp.ncdf(z) + mp.npdf(z))
            if want > mp.mpf("1e-290"):          # the value itself underflows in double precision far in the tail
                rel = abs((mp.mpf(got) - want) / want)
                worst = max(worst, float(rel))
            lg = -float(ei.opt_func(np.zeros(1)))
            worst = max(worst, abs(lg - float(mp.log(want))) / max(1.0, abs(float(mp.log(want)))))
    vc.inputs["worst_relative_error"] = worst
    vc.ensures("both_branches_equal_sigma_times_Z_cdf_plus_pdf", worst < 1e-9)


@bounded("C18", "propose_add_native", native_runs=8)
def propose_add_native(vc):
    from inference.gp import ExpectedImprovement, UpperConfidenceBound, MaxVariance
    seed = vc.int("seed", lo=0, hi=10 ** 6)
    rng = np.random.default_rng(seed)
    np.random.seed(seed % (2 ** 31))
    d = vc.int("d", lo=1, hi=2)
    optimizer = vc.choice("optimizer", ["bfgs", "diffev"])
    acq_cls = [ExpectedImprovement, UpperConfidenceBound, MaxVariance][seed % 3]
    as_array = vc.bool("bounds_given_as_array")
    integer_data = vc.bool("initial_data_given_as_integers")
    opt, x, y, bounds, x_in = _optimiser(rng, d, acq_cls, optimizer=optimizer if acq_cls is ExpectedImprovement else "bfgs",
                                         as_flat=True, bounds_as_array=as_array)
    if integer_data:
        # a data set whose initial x / y happen to be whole numbers given with an integer dtype: later evaluations are not
        from inference.gp import GpOptimiser
        xi = np.round(x * 2).astype(int)
        xi = xi + np.arange(len(xi))[:, None] * 0                 # (keep shape)
        _, uniq = np.unique(xi, axis=0, return_index=True)
        xi = xi[np.sort(uniq)]
        yi = np.round(np.cos(xi.sum(axis=1)) * 4).astype(int)
        x_in = xi.copy()
        opt = GpOptimiser(x_in, yi.copy(), bounds=bounds, y_err=np.full(len(yi), 0.05), acquisition=acq_cls,
                          optimizer=optimizer if acq_cls is ExpectedImprovement else "bfgs")
    bounds_before = np.array(bounds, dtype=float).copy()
    x_before, shape_before = x_in.copy(), x_in.shape
    ok_in, ok_data, ok_args = True, True, True
    for it in range(3):
        prop = np.atleast_1d(opt.propose_evaluation())
        lo = np.array([b[0] for b in bounds])
        hi = np.array([b[1] for b in bounds])
        ok_in = ok_in and prop.shape == (d,) and bool(np.all(prop >= lo - 1e-9) and np.all(prop <= hi + 1e-9))
        new_x = prop.copy()
        new_y = float(np.cos(prop.sum()) + 0.3 * prop[0])
        keep = new_x.copy()
        n_before = opt.y.size
        opt.add_evaluation(new_x, new_y, new_y_err=0.05)
        ok_args = ok_args and new_x.shape == keep.shape and np.array_equal(new_x, keep)
        ok_data = ok_data and opt.y.size == n_before + 1 and np.allclose(opt.x[-1], keep) and opt.y[-1] == new_y \
            and opt.gp.y.size == n_before + 1 and np.allclose(opt.gp.x[-1], keep) \
            and abs(opt.acquisition.mu_max - opt.y.max()) == 0
    vc.ensures("proposals_inside_search_bounds", bool(ok_in))
    vc.ensures("added_evaluation_becomes_data_and_updates_incumbent", bool(ok_data))
    vc.ensures("caller_arrays_not_modified", bool(ok_args) and x_in.shape == shape_before and np.array_equal(x_in, x_before))
    vc.ensures("search_bounds_not_modified", bool(np.array_equal(np.array(bounds, dtype=float), bounds_before))
               and bool(np.array_equal(np.array(opt.bounds, dtype=float), bounds_before)))


# ================================================================================================
# proof layer
# ================================================================================================
import z3
from pyvc import sym as S
from pyvc.sym import Sym, Unsupported
from pyvc.tensor import Tensor, SymList
from pyvc.diff import derivative

ACQ = "inference.gp.acquisition"


class GpGhost:
    """the regressor as seen by an acquisition function: predictive mean mu(x), standard deviation sig(x) > 0 and the
    spatial derivatives of the mean and of the VARIANCE (the contract of GpRegressor.spatial_derivatives, C16)"""

    def __init__(self, vc, d):
        self.vc, self.d = vc, d
        self.mu = vc.real("mu")
        self.sig = vc.real("sig", pos=True)
        self.dmu = vc.vector("dmu", d)
        self.dvar = vc.vector("dvar", d)
        self.y_max = vc.real("y_max")
        self.calls = []

    def get_attr(self, I, name):
        return getattr(self, name)

    def __call__(self, x):
        self.calls.append(x)
        return Tensor((1,), lambda i: self.mu), Tensor((1,), lambda i: self.sig)

    def spatial_derivatives(self, x):
        self.calls.append(x)
        return self.dmu, self.dvar

    def d_dx(self, c):
        """d/dx_c of an expression in mu and sig:  d mu = dmu_c,  d sig = dvar_c / (2 sig)"""
        mu, sig = S.z(self.mu), S.z(self.sig)
        dm, dv = S.z(self.dmu.at(c)), S.z(self.dvar.at(c))

        def dleaf(e):
            if e.eq(mu):
                return dm
            if e.eq(sig):
                return dv / (2 * sig)
            return None
        return dleaf


def _ei_closed_form(vc, g):
    """E[max(f - y_max, 0)], f ~ N(mu, sig^2)  =  sig (z Phi(z) + phi(z)),  z = (mu - y_max)/sig   (textbook identity, assumed)"""
    from pyvc import npmodel as N
    z_ = S.div(S.sub(g.mu, g.y_max), g.sig)
    phi = S.mul(vc.exp(S.mul(S.div(-1, 2), S.mul(z_, z_))), S.div(1, vc.sqrt(S.mul(2, vc.pi))))
    Phi = S.mul(S.div(1, 2), S.add(1, N.sp_erf(S.mul(z_, S.div(1, vc.sqrt(2))))))
    return z_, phi, Phi, S.mul(g.sig, S.add(S.mul(z_, Phi), phi))


@contract("C18", "expected_improvement", native=False, replay_with="acquisition_native")
def expected_improvement(vc):
    vc.c.numeric_filter = "float"     # arguments that clearly differ numerically are not sent to the solver for merging
    vc.c.exact_surds = True           # sqrt(2), sqrt(pi) ... as exact surds; exp(a+b) = exp(a) exp(b) instances

    d = vc.choice("d", [1, 2])
    g = GpGhost(vc, d)
    x = vc.vector("x", d)
    acq = vc.new(ACQ, "ExpectedImprovement")
    vc.setattr(acq, "gp", g)
    vc.setattr(acq, "mu_max", g.y_max)
    z_, phi, Phi, ei = _ei_closed_form(vc, g)
    far = vc.choice("branch", ["ordinary", "far_tail"])
    vc.assume(S.cmp("<", z_, -3) if far == "far_tail" else S.cmp(">=", z_, -3))
    vc.assume_lemma("expected improvement is positive: z Phi(z) + phi(z) > 0 (Mills-ratio bound)",
                    S.cmp(">", S.add(S.mul(z_, Phi), phi), 0))
    val = vc.call(acq, "__call__", x)
    vc.ensures("value_is_expected_improvement", S.cmp("==", val, ei))
    obj = vc.call(acq, "opt_func", x)
    # modular step for the gradient: the special functions are replaced by their contracts -- functions with the
    # derivatives  mills' = z mills + 1,  npdf' = -z npdf,  ncdf' = npdf  -- which the contract mills_ratio proves for the
    # real bodies; the value obligations use the real bodies, and the objective returned here is compared with opt_func
    # after substituting the real bodies back
    ghosts = {"cdf_pdf_ratio": "mills", "normal_pdf": "npdf", "normal_cdf": "ncdf"}
    for meth, fn in ghosts.items():
        vc.modular("ExpectedImprovement." + meth, (lambda fn_: lambda I, func, args, kwargs: Sym(S.uf(fn_, args[1])))(fn))
    if far == "far_tail":
        vc.assume_lemma("1 + z Phi(z)/phi(z) > 0 (Mills-ratio bound, the same fact as EI > 0)",
                        S.cmp(">", S.add(1, S.mul(z_, Sym(S.uf("mills", z_)))), 0))
    else:
        vc.assume_lemma("z Phi(z) + phi(z) > 0 for the ghost functions",
                        S.cmp(">", S.add(S.mul(z_, Sym(S.uf("ncdf", z_))), Sym(S.uf("npdf", z_))), 0))
    obj2, grad = vc.call(acq, "opt_func_gradient", x)
    for meth in ghosts:
        vc.I.call_contracts.pop("ExpectedImprovement." + meth, None)
    obj2 = obj2.at() if isinstance(obj2, Tensor) else obj2
    back = [(S.uf(fn, z_), S.z(vc.call(acq, meth, z_))) for meth, fn in ghosts.items()]
    vc.ensures("value_and_gradient_form_returns_the_same_objective",
               S.cmp("==", S.wrap(z3.substitute(S.z(obj2), *back)), obj))
    for c in range(d):
        gc = grad.at(c) if isinstance(grad, Tensor) and grad.ndim == 1 else (grad.at() if isinstance(grad, Tensor) else grad)
        vc.ensures("gradient_is_true_spatial_gradient", S.cmp("==", gc, derivative(obj2, g.d_dx(c))))
    if far == "far_tail":
        # lemma chain for the logarithmic form: z Phi + phi = phi (1 + z Phi/phi) with Phi/phi = sqrt(pi/2) erfcx(-z/sqrt 2)
        from pyvc import npmodel as N
        H = S.add(1, S.mul(z_, S.mul(vc.attr(acq, "rpi2"), N.sp_erfcx(S.mul(S.sub(0, z_), vc.attr(acq, "ir2"))))))
        vc.lemma("far_tail.mills_ratio_form", S.cmp("==", S.add(S.mul(z_, Phi), phi), S.mul(phi, H)))
        whole = N._uf1("log", S.mul(phi, H), N._log_ax)         # log(phi H) with its product law as an axiom instance
        vc.lemma("far_tail.log_of_the_product", S.cmp("==", vc.log(S.add(S.mul(z_, Phi), phi)), whole))
        vc.lemma("far_tail.log_splits", S.cmp("==", whole, S.add(vc.log(phi), vc.log(H))))
    vc.ensures("objective_is_minus_log_expected_improvement", S.cmp("==", obj, S.sub(0, vc.log(ei))))
    vc.ensures("regressor_queried_at_the_point", all(q is x for q in g.calls) and len(g.calls) >= 4)


@contract("C18", "confidence_bound_and_variance", native=False, replay_with="acquisition_native")
def confidence_bound_and_variance(vc):
    d = vc.choice("d", [1, 2, 3])
    which = vc.choice("acquisition", ["UpperConfidenceBound", "MaxVariance"])
    g = GpGhost(vc, d)
    x = vc.vector("x", d)
    if which == "UpperConfidenceBound":
        kappa = vc.real("kappa", lo=0)
        if vc.choice("kappa_set", ["at_construction", "reassigned_afterwards"]) == "at_construction":
            acq = vc.new(ACQ, which, kappa)
        else:       # an exploration schedule re-assigns the public attribute: value AND gradient follow the value in force
            acq = vc.new(ACQ, which, vc.real("kappa_at_construction", lo=0))
            vc.setattr(acq, "kappa", kappa)
        want = S.add(g.mu, S.mul(kappa, g.sig))
    else:
        acq = vc.new(ACQ, which)
        want = S.mul(g.sig, g.sig)
    vc.setattr(acq, "gp", g)
    vc.setattr(acq, "mu_max", g.y_max)
    vc.ensures("value_is_the_definition", S.cmp("==", vc.call(acq, "__call__", x), want))
    vc.ensures("objective_is_minus_the_value", S.cmp("==", vc.call(acq, "opt_func", x), S.sub(0, want)))
    obj2, grad = vc.call(acq, "opt_func_gradient", x)
    obj2 = obj2.at(*([0] * obj2.ndim)) if isinstance(obj2, Tensor) else obj2
    vc.ensures("value_and_gradient_form_returns_the_same_objective", S.cmp("==", obj2, S.sub(0, want)))
    for c in range(d):
        gc = grad.at(c) if isinstance(grad, Tensor) and grad.ndim == 1 else (grad.at() if isinstance(grad, Tensor) else grad)
        vc.ensures("gradient_is_true_spatial_gradient", S.cmp("==", gc, derivative(S.sub(0, want), g.d_dx(c))))


@contract("C18", "mills_ratio", native=False, replay_with="acquisition_native")
def mills_ratio(vc):
    """cdf_pdf_ratio(z) = sqrt(pi/2) erfcx(-z/sqrt 2) has derivative z ratio(z) + 1 (the defining ODE of Phi/phi), and
    ln_pdf / normal_pdf / normal_cdf are the standard normal log-density, density and distribution function"""
    vc.c.exact_surds = True
    acq = vc.new(ACQ, "ExpectedImprovement")
    zv = vc.real("z")
    R = vc.call(acq, "cdf_pdf_ratio", zv)

    def dz(e):
        return z3.RealVal(1) if e.eq(S.z(zv)) else None
    vc.ensures("ratio_satisfies_mills_equation", S.cmp("==", derivative(R, dz), S.add(S.mul(zv, R), 1)))
    pdf = vc.call(acq, "normal_pdf", zv)
    cdf = vc.call(acq, "normal_cdf", zv)
    vc.ensures("density_derivative", S.cmp("==", derivative(pdf, dz), S.mul(S.sub(0, zv), pdf)))
    vc.ensures("distribution_derivative_is_density", S.cmp("==", derivative(cdf, dz), pdf))
    vc.ensures("log_density", S.cmp("==", vc.call(acq, "ln_pdf", zv), vc.log(pdf)))
    vc.ensures("ratio_is_cdf_over_pdf", S.cmp("==", S.mul(R, pdf), cdf))


OPT = "inference.gp.optimisation"


@contract("C18", "add_evaluation", native=False, replay_with="propose_add_native")
def add_evaluation(vc):
    """add_evaluation(new_x, new_y, new_y_err): the data set becomes the old rows followed by the new point, the regressor
    is rebuilt from exactly that data set, the acquisition function is handed the new regressor, one entry is added to each
    history, and no array of the caller is written"""
    n, d = vc.int("n", lo=1), vc.choice("d", [1, 2, 3])
    x = vc.matrix("x", n, d, origin="state")
    y = vc.vector("y", n, origin="state")
    has_err = vc.choice("errors", [True, False])
    y_err = vc.vector("y_err", n, origin="state") if has_err else None
    new_x = vc.vector("new_x", d, origin="input")
    new_y = vc.real("new_y")
    new_err = vc.real("new_y_err", pos=True) if has_err else None
    built = []

    def gp_init(I, func, args, kwargs):
        self_ = args[0]
        built.append(dict(kwargs))
        for k, v in kwargs.items():
            I.set_attr(self_, k, v)
        return None

    vc.modular("GpRegressor.__init__", gp_init)

    class Acq:
        def __init__(self):
            self.updated, self.asked = [], []

        def get_attr(self, I, name):
            return getattr(self, name)

        def __call__(self, pt):
            self.asked.append(pt)
            return vc.fresh_real("acq_value")

        def convergence_metric(self, pt):
            self.asked.append(pt)
            return vc.fresh_real("metric")

        def update_gp(self, gp):
            self.updated.append(gp)

    acq = Acq()
    h1 = SymList(vc.fresh_int("h", 0), lambda i: Sym(S.uf("hist1", i)))
    h2 = SymList(h1.length(), lambda i: Sym(S.uf("hist2", i)))
    h3 = SymList(h1.length(), lambda i: Sym(S.uf("hist3", i)))
    hl = h1.length()
    opt = vc.obj(OPT, "GpOptimiser", x=x, y=y, y_err=y_err, kernel="kernel", mean="mean", cross_val=False, optimizer="bfgs",
                 n_processes=1, acquisition=acq, acquisition_max_history=h1, convergence_metric_history=h2,
                 iteration_history=h3, bounds=None)
    new_x_before = new_x.copy()
    vc.call(opt, "add_evaluation", new_x, new_y, new_err)
    vc.unchanged("caller_new_x_unchanged", new_x, new_x_before)
    new_x = new_x_before
    X, Y = vc.attr(opt, "x"), vc.attr(opt, "y")
    vc.ensures("one_more_row", vc.ndim(X) == 2 and S.cmp("==", X.shape[0], n + 1) and X.shape[1] == d
               and vc.ndim(Y) == 1 and S.cmp("==", Y.shape[0], n + 1))
    vc.ensures_forall("old_points_kept", (n, d), lambda i, c: S.cmp("==", X.at(i, c), x.at(i, c)))
    vc.ensures_forall("old_values_kept", n, lambda i: S.cmp("==", Y.at(i), y.at(i)))
    for c in range(d):
        vc.ensures("new_point_appended", S.cmp("==", X.at(n, c), new_x.at(c)))
    vc.ensures("new_value_appended", S.cmp("==", Y.at(n), new_y))
    if has_err:
        E = vc.attr(opt, "y_err")
        vc.ensures_forall("old_errors_kept", n, lambda i: S.cmp("==", E.at(i), y_err.at(i)))
        vc.ensures("new_error_appended", S.cmp("==", E.shape[0], n + 1) and S.cmp("==", E.at(n), new_err))
    gp = vc.attr(opt, "gp")
    vc.ensures("regressor_rebuilt_from_the_new_data", len(built) == 1 and built[0].get("x") is X and built[0].get("y") is Y
               and built[0].get("y_err") is vc.attr(opt, "y_err") and built[0].get("kernel") == "kernel" and built[0].get("mean") == "mean")
    vc.ensures("acquisition_receives_the_new_regressor", len(acq.updated) == 1 and acq.updated[0] is gp)
    vc.ensures("histories_grow_by_one", S.And(S.cmp("==", vc.attr(opt, "acquisition_max_history").length(), hl + 1),
                                             S.cmp("==", vc.attr(opt, "convergence_metric_history").length(), hl + 1),
                                             S.cmp("==", vc.attr(opt, "iteration_history").length(), hl + 1)))
    vc.ensures("iteration_number_recorded", S.cmp("==", vc.attr(opt, "iteration_history").at(hl), n + 1))
    vc.ensures("caller_arrays_not_written", len(vc.writes_to_inputs()) == 0)


@contract("C18", "update_gp", native=False, replay_with="propose_add_native")
def update_gp(vc):
    """update_gp installs the regressor and sets the incumbent to the largest observed value"""
    n = vc.int("n", lo=1)
    y = vc.vector("y", n)
    acq = vc.new(ACQ, "UpperConfidenceBound")

    class G:
        def get_attr(self, I, name):
            return y if name == "y" else getattr(self, name)

    g = G()
    vc.call(acq, "update_gp", g)
    mx = vc.attr(acq, "mu_max")
    vc.ensures("regressor_installed", vc.attr(acq, "gp") is g)
    vc.ensures_forall("incumbent_is_an_upper_bound", n, lambda i: S.cmp(">=", mx, y.at(i)))
    vc.ensures_exists("incumbent_is_attained", n, lambda i: S.cmp("==", mx, y.at(i)))


@contract("C18", "starting_positions", native=False, replay_with="propose_add_native")
def starting_positions(vc):
    """starting_positions(bounds): one start per data point, every start inside the search box shrunk by 1% on each side (hence
    inside the box), and the caller's bounds are not written (d in {1, 2}; any number of data points)"""
    d = vc.choice("d", [1, 2])
    n = vc.int("n", lo=1)
    x = vc.matrix("x", n, d, origin="state")
    as_array = vc.choice("bounds_given_as", ["list_of_tuples", "array"])
    lo = [vc.real(f"lo{i}") for i in range(d)]
    wd = [vc.real(f"width{i}", pos=True) for i in range(d)]
    hi = [S.add(a, w) for a, w in zip(lo, wd)]
    if as_array == "array":
        vals = [[lo[i], hi[i]] for i in range(d)]
        bounds = Tensor((d, 2), lambda i, j: vals[int(S.unwrap(i)) if isinstance(S.unwrap(i), int) else 0][int(S.unwrap(j)) if isinstance(S.unwrap(j), int) else 0]
                        if isinstance(S.unwrap(i), int) and isinstance(S.unwrap(j), int) else
                        S.ite(S.cmp("==", j, 0), _sel(lo, i), _sel(hi, i)), origin="input:bounds")
    else:
        bounds = [(lo[i], hi[i]) for i in range(d)]
    acq = vc.new(ACQ, "UpperConfidenceBound")

    class G:
        def get_attr(self, I, name):
            return x if name == "x" else getattr(self, name)

    vc.setattr(acq, "gp", G())
    vc.modular("UpperConfidenceBound.opt_func", lambda I, func, args, kwargs: vc.fresh_real("objective"))

    class Starts(LoopSpec):
        name = "starts"

        def __init__(self, vc_):
            super().__init__(vc_)
            self.keep_locals = ("starts",)

        def _inside(self, v, j):
            m = S.mul(S.div(1, 100), wd[j])
            return S.And(S.cmp(">=", v, S.add(lo[j], m)), S.cmp("<=", v, S.sub(hi[j], m)))

        def havoc(self, I, fr, k):
            c = ctx_()
            f = z3.Function(str(c.fresh("start_h", "Int")), z3.IntSort(), z3.IntSort(), z3.RealSort())
            for j in range(d):
                c.add_forall((n,), lambda t, j=j: S.z(self._inside(Sym(f(S.z(t), z3.IntVal(j))), j)), "starts-inside")
            fr.locals["starts"] = SymList(k, lambda t: Tensor((d,), lambda j, t=t: Sym(f(S.z(t), S.z(j)))))

        def on_iteration_end(self, I, fr, k):
            L = fr.locals["starts"]
            ok = isinstance(L, SymList)
            self.vc.ensures("starts.one_start_per_data_point", ok and S.cmp("==", L.length(), S.add(k, 1)))
            if ok:
                new = L.at(k)
                for j in range(d):
                    self.vc.ensures("starts.new_start_inside_the_shrunk_box", self._inside(new.at(j), j))

    vc.loop("AcquisitionFunction.starting_positions", "for#0", Starts(vc))
    starts = vc.call(acq, "starting_positions", bounds)
    vc.ensures("one_start_per_data_point", isinstance(starts, SymList) and S.cmp("==", starts.length(), n))
    vc.ensures("search_bounds_not_written", len(vc.writes_to_inputs()) == 0)


def _sel(items, i):
    from pyvc.interp import _select
    return _select(list(items), i)


def ctx_():
    from pyvc.sym import ctx
    return ctx()


from pyvc.loops import LoopSpec
