"""C18 -- acquisition functions compute what they define; proposals respect bounds."""
import numpy as np
from pyvc.vc import contract, bounded


def _optimiser(rng, d, acq, optimizer="bfgs", mean=None, as_flat=False):
    from inference.gp import GpOptimiser, ConstantMean
    n = int(rng.integers(4, 8))
    x = rng.uniform(-2, 2, size=(n, d))
    y = np.cos(x.sum(axis=1)) + 0.3 * x[:, 0]
    bounds = [(-2.5, 2.5)] * d
    x_in = x[:, 0].copy() if (as_flat and d == 1) else x.copy()
    hp = None
    opt = GpOptimiser(x_in, y.copy(), bounds=bounds, y_err=np.full(n, 0.05), acquisition=acq, optimizer=optimizer,
                      mean=mean or ConstantMean)
    return opt, x, y, bounds, x_in


@bounded("C18", "acquisition_native", native_runs=24)
def acquisition_native(vc):
    from scipy.integrate import quad
    from scipy.stats import norm
    from inference.gp import ExpectedImprovement, UpperConfidenceBound, MaxVariance, ConstantMean, LinearMean, QuadraticMean
    seed = vc.int("seed", lo=0, hi=10 ** 6)
    rng = np.random.default_rng(seed)
    np.random.seed(seed % (2 ** 31))
    d = vc.int("d", lo=1, hi=2)
    acq_cls = [ExpectedImprovement, UpperConfidenceBound, MaxVariance][vc.choice("acquisition", [0, 1, 2])]
    mean = [ConstantMean, LinearMean, QuadraticMean][vc.choice("mean", [0, 1, 2])]
    opt, x, y, bounds, x_in = _optimiser(rng, d, acq_cls, mean=mean)
    acq = opt.acquisition
    q = rng.uniform(-2.4, 2.4, size=d)
    mu, sig = opt.gp(q)
    mu, sig = float(mu[0]), float(sig[0])
    val = float(acq(q))
    if acq_cls is ExpectedImprovement:
        ymax = acq.mu_max
        integrand = lambda f: max(f - ymax, 0.0) * norm.pdf(f, loc=mu, scale=sig)
        want = quad(integrand, ymax, mu + 12 * sig, limit=200)[0] if mu + 12 * sig > ymax else 0.0
        vc.ensures("expected_improvement_is_expectation_of_improvement", abs(val - want) <= 1e-6 * max(want, 1e-300) + 1e-12 * sig)
    elif acq_cls is UpperConfidenceBound:
        vc.ensures("ucb_is_mean_plus_kappa_sigma", abs(val - (mu + acq.kappa * sig)) <= 1e-12 * max(1.0, abs(val)))
    else:
        vc.ensures("max_variance_is_predictive_variance", abs(val - sig ** 2) <= 1e-12 * max(1.0, abs(val)))
    # value-and-gradient form used by the optimiser: same objective, true spatial gradient
    f0, g0 = acq.opt_func_gradient(q)
    f0 = float(np.asarray(f0).reshape(-1)[0])
    vc.ensures("objective_value_variant_agrees", abs(f0 - float(acq.opt_func(q))) <= 1e-9 * max(1.0, abs(f0)))
    g0 = np.reshape(g0, (d,))
    gf = np.zeros(d)
    for c in range(d):
        e = np.zeros(d)
        e[c] = 1e-5
        fo = lambda p: float(acq.opt_func(p))
        gf[c] = (-fo(q + 2 * e) + 8 * fo(q + e) - 8 * fo(q - e) + fo(q - 2 * e)) / 12e-5
    vc.ensures("gradient_matches_finite_differences", bool(np.allclose(g0, gf, rtol=1e-4, atol=1e-6 * max(1.0, float(np.abs(gf).max())))))


@bounded("C18", "expected_improvement_branches_native", native_runs=1)
def expected_improvement_branches_native(vc):
    """both evaluation branches of expected improvement against high-precision quadrature, and continuity at Z = -3"""
    from inference.gp import ExpectedImprovement
    import mpmath as mp
    ei = ExpectedImprovement()
    worst = 0.0

    class FakeGp:
        def __init__(self, mu, sig):
            self.mu, self.sig = mu, sig
            self.y = np.array([0.0])

        def __call__(self, x):
            return np.array([self.mu]), np.array([self.sig])

    ei.mu_max = 0.0
    for Z in [-40, -20, -10, -5, -3.5, -3.0000001, -3.0, -2.9999999, -2.5, -1, 0, 1, 5, 10]:
        for sig in [1e-3, 1.0, 50.0]:
            ei.gp = FakeGp(Z * sig, sig)
            got = float(ei(np.zeros(1)))
            z = mp.mpf(Z)
            want = mp.mpf(sig) * (z * mp.ncdf(z) + mp.npdf(z))
            if want > mp.mpf("1e-290"):          # the value itself underflows in double precision far in the tail
                rel = abs((mp.mpf(got) - want) / want)
                worst = max(worst, float(rel))
            lg = -float(ei.opt_func(np.zeros(1)))
            worst = max(worst, abs(lg - float(mp.log(want))) / max(1.0, abs(float(mp.log(want)))))
    vc.inputs["worst_relative_error"] = worst
    vc.ensures("both_branches_equal_sigma_times_Z_cdf_plus_pdf", worst < 1e-9)


@bounded("C18", "propose_add_native", native_runs=8)
def propose_add_native(vc):
    from inference.gp import ExpectedImprovement, UpperConfidenceBound, MaxVariance
    seed = vc.int("seed", lo=0, hi=10 ** 6)
    rng = np.random.default_rng(seed)
    np.random.seed(seed % (2 ** 31))
    d = vc.int("d", lo=1, hi=2)
    optimizer = vc.choice("optimizer", ["bfgs", "diffev"])
    acq_cls = [ExpectedImprovement, UpperConfidenceBound, MaxVariance][seed % 3]
    opt, x, y, bounds, x_in = _optimiser(rng, d, acq_cls, optimizer=optimizer if acq_cls is ExpectedImprovement else "bfgs",
                                         as_flat=True)
    x_before, shape_before = x_in.copy(), x_in.shape
    ok_in, ok_data, ok_args = True, True, True
    for it in range(3):
        prop = np.atleast_1d(opt.propose_evaluation())
        lo = np.array([b[0] for b in bounds])
        hi = np.array([b[1] for b in bounds])
        ok_in = ok_in and prop.shape == (d,) and bool(np.all(prop >= lo - 1e-9) and np.all(prop <= hi + 1e-9))
        new_x = prop.copy()
        new_y = float(np.cos(prop.sum()) + 0.3 * prop[0])
        keep = new_x.copy()
        n_before = opt.y.size
        opt.add_evaluation(new_x, new_y, new_y_err=0.05)
        ok_args = ok_args and new_x.shape == keep.shape and np.array_equal(new_x, keep)
        ok_data = ok_data and opt.y.size == n_before + 1 and np.allclose(opt.x[-1], keep) and opt.y[-1] == new_y \
            and opt.gp.y.size == n_before + 1 and np.allclose(opt.gp.x[-1], keep) \
            and abs(opt.acquisition.mu_max - opt.y.max()) == 0
    vc.ensures("proposals_inside_search_bounds", bool(ok_in))
    vc.ensures("added_evaluation_becomes_data_and_updates_incumbent", bool(ok_data))
    vc.ensures("caller_arrays_not_modified", bool(ok_args) and x_in.shape == shape_before and np.array_equal(x_in, x_before))
