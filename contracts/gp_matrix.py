"""Shared symbolic state for the GpRegressor contracts (C02, C11, C16): the regressor's fields as abstract matrices
(pyvc.matalg) and ghost kernel / mean objects whose methods are replaced by their contracts.

Ghost contracts (proved for the library's kernels and means under C10; assumed here at the call sites):
  cov.build_covariance(theta)          = K(theta)            symmetric n x n
  cov.covariance_and_gradients(theta)  = K(theta), [dK/dtheta_k]   (each symmetric)
  cov(u, v, theta)                     = the pairwise kernel matrix [k(u_i, v_j)]
  cov.gradient_terms(q, x, theta)      = A (d x n), R (d):  d k(q, x_j)/d q_c = A[c, j] k(q, x_j),
                                          d^2 k(q, q')/dq_c dq'_c' at q' = q  is  R[c] delta_cc'
  mean.build_mean(theta) = m(x; theta);  mean(q, theta) = m(q; theta);  mean.mean_and_gradients(theta) = m, [dm/dtheta_k]
  mean.spatial_gradient(q, theta)      = dm/dq at q
Every ghost checks that the hyper-parameter vector it receives is exactly its own slice of the joint vector."""
import z3
from pyvc import sym as S
from pyvc.sym import Sym, Unsupported, ctx
from pyvc.tensor import Tensor, SymList
from pyvc import matalg as M

from pyvc.loops import LoopSpec

REG = "inference.gp.regression"


def row_index(t):
    """the row of the `points` input a (1, d) / (d,) slice was taken from (read off its first element's term)"""
    e = t.at(*([0] * t.ndim))
    ze = S.z(e)
    if z3.is_app(ze) and ze.decl().name() == "points" and ze.num_args() == 2:
        return ze.arg(0)
    raise Unsupported("kernel / mean called with something that is not a row of the query points")


class GpState:
    def __init__(self, vc, with_points=True):
        self.vc = vc
        from pyvc import npmodel as _N
        _N.USED.add("ghost contract: kernel and mean objects are replaced by their contracts at the call sites (pairwise kernel "
                    "matrix, symmetric training covariance and its parameter derivatives, mean vector and its derivatives, "
                    "gradient terms); these are proved for the library's kernels / means under C10 and C16")
        c = vc.c
        self.n = vc.int("n", lo=1)
        self.d = vc.int("d", lo=1)
        self.nm = vc.int("n_mean_pars", lo=1)
        self.nc = vc.int("n_cov_pars", lo=1)
        n, d = self.n, self.d
        self.x = vc.matrix("x", n, d, origin="state")
        self.y = M.atom("y", n)
        self.sig = M.atom("sig", n, n, symmetric=True)
        self.K = M.atom("K", n, n, symmetric=True)
        self.mu = M.atom("mu", n)
        self.C = self.K + self.sig
        self.Ci = M.inverse_of(self.C)
        self.r = self.y - self.mu
        self.theta = vc.vector("theta", self.nm + self.nc)
        self.mean_slice = slice(0, self.nm)
        self.cov_slice = slice(self.nm, self.nm + self.nc)
        self.bad_theta = []          # (which, condition) recorded by the ghosts
        self.m = vc.int("m", lo=1)
        self.points = vc.matrix("points", self.m, d)
        self.Kqx = M.atom("Kqx", self.m, n)          # [k(p_t, x_j)]
        self.Kqq = M.atom("Kqq", self.m, self.m, symmetric=True)
        self.mq = M.atom("mq", self.m)               # m(p_t)
        self.cov = CovGhost(self)
        self.mean = MeanGhost(self)

    # the value the code should have passed as kernel / mean hyper-parameters
    def check_theta(self, which, th, hyper=None):
        hyper = self.theta if hyper is None else hyper
        lo, ln = (0, self.nm) if which == "mean" else (self.nm, self.nc)
        vc = self.vc
        if not isinstance(th, Tensor) or th.ndim != 1:
            vc.ensures(f"{which}_hyperparameters_are_its_slice", False)
            return
        from pyvc.tensor import dim_eq
        if not dim_eq(th.shape[0], ln):
            vc.ensures(f"{which}_hyperparameters_are_its_slice", False)
            return
        vc.ensures_forall(f"{which}_hyperparameters_are_its_slice", ln,
                          lambda k: S.cmp("==", th.at(k), hyper.at(S.add(k, lo))))

    def regressor(self, fitted=True, **extra):
        vc = self.vc
        f = dict(x=self.x, y=self.y, sig=self.sig, n_points=self.n, n_dimensions=self.d, cov=self.cov, mean=self.mean,
                 n_hyperpars=self.nm + self.nc, mean_slice=self.mean_slice, cov_slice=self.cov_slice)
        if fitted:
            L = M.cholesky(self.C)
            f.update(hyperpars=self.theta, mean_hyperpars=self.theta[self.mean_slice],
                     cov_hyperpars=self.theta[self.cov_slice], K_xx=self.C, mu=self.mu, L=L,
                     alpha=self.Ci @ self.r)
        f.update(extra)
        return vc.obj(REG, "GpRegressor", **f)

    # closed forms --------------------------------------------------------------------------------------------------
    def post_mean(self):
        return self.Kqx @ (self.Ci @ self.r) + self.mq

    def post_cov(self):
        return self.Kqq - self.Kqx @ self.Ci @ self.Kqx.T


class CovGhost:
    def __init__(self, st):
        self.st = st

    def get_attr(self, I, name):
        return getattr(self, name)

    def __call__(self, u, v, theta):
        st = self.st
        st.check_theta("cov", theta)

        def side(a):
            """(selector or None for 'all rows', which point set) of one argument of the kernel"""
            if a is st.x:
                return None, "x"
            if a is st.points or (isinstance(a, Tensor) and getattr(a, "is_points", False)):
                return None, "points"
            from pyvc.tensor import dim_eq
            if isinstance(a, Tensor) and a.ndim == 2 and dim_eq(a.shape[0], 1):
                t = row_index(a)
                self._same_row(a, t)
                return M.selector(t, st.m), "points"
            raise Unsupported("kernel called on an unexpected point set")

        (su, wu), (sv, wv) = side(u), side(v)
        if wu == "points" and wv == "x":
            K = st.Kqx
        elif wu == "points" and wv == "points":
            K = st.Kqq
        elif wu == "x" and wv == "points":
            K = st.Kqx.T
        else:
            raise Unsupported("kernel called on the training inputs twice (use build_covariance)")
        if su is not None:
            K = su @ K
        if sv is not None:
            K = K @ sv.T
        return K

    def _same_row(self, u, t):
        st = self.st
        st.vc.ensures_forall("kernel_argument_is_the_query_point", st.d,
                             lambda c_: S.cmp("==", u.at(0, c_), st.points.at(Sym(t), c_)))

    def build_covariance(self, theta):
        self.st.check_theta("cov", theta)
        return self.st.K

    def covariance_and_gradients(self, theta):
        st = self.st
        st.check_theta("cov", theta)
        return st.K.copy(), SymList(st.nc, lambda k: M.atom("dK", st.n, st.n, symmetric=True, params=(k,)))

    def gradient_terms(self, pnt, x, theta):
        st = self.st
        st.check_theta("cov", theta)
        if x is not st.x:
            raise Unsupported("gradient_terms against something that is not the training inputs")
        t = row_index(pnt)
        A = M.atom("A", st.d, st.n, params=(t,))
        R = M.atom("R", st.d, params=(t,))
        return A, R


class MeanGhost:
    def __init__(self, st):
        self.st = st

    def get_attr(self, I, name):
        return getattr(self, name)

    def __call__(self, q, theta):
        st = self.st
        st.check_theta("mean", theta)
        t = row_index(q)
        if q.ndim == 2:
            st.vc.ensures_forall("mean_argument_is_the_query_point", st.d,
                                 lambda c_: S.cmp("==", q.at(0, c_), st.points.at(Sym(t), c_)))
        else:
            st.vc.ensures_forall("mean_argument_is_the_query_point", st.d,
                                 lambda c_: S.cmp("==", q.at(c_), st.points.at(Sym(t), c_)))
        return st.mq.at(Sym(t))

    def build_mean(self, theta):
        self.st.check_theta("mean", theta)
        return self.st.mu

    def mean_and_gradients(self, theta):
        st = self.st
        st.check_theta("mean", theta)
        return st.mu.copy(), SymList(st.nm, lambda k: M.atom("dmu", st.n, params=(k,)))

    def spatial_gradient(self, q, theta):
        st = self.st
        st.check_theta("mean", theta)
        t = row_index(q)
        return M.atom("gm", st.d, params=(t,))


class MapLoop(LoopSpec):
    """a loop that appends one value per iteration to each of `names`; invariant (the property itself): after t
    iterations list j holds exp[j](0..t-1)"""
    name = "points"

    def __init__(self, vc, st, names, *exps, name=None):
        super().__init__(vc)
        self.st, self.names, self.exp = st, names, tuple(exps)
        self.keep_locals = tuple(names)
        if name:
            self.name = name

    def _lists(self, fr, k):
        for nm, ex in zip(self.names, self.exp):
            fr.locals[nm] = SymList(k, (lambda ex_: lambda t: ex_(t))(ex))

    def havoc(self, I, fr, k):
        self._lists(fr, k)

    def invariant(self, I, fr, k):
        return True

    def on_iteration_end(self, I, fr, k):
        for nm, ex, what in zip(self.names, self.exp, ("first", "second", "third")):
            L = fr.locals[nm]
            ok = isinstance(L, SymList)
            self.vc.ensures(f"{self.name}.{what}_list_grows_by_one", ok and S.cmp("==", L.length(), S.add(k, 1)))
            if ok:
                self._entry(what, L.at(k), ex(k), k)

    def _entry(self, what, got, want, k):
        self.vc.ensures(f"{self.name}.{what}_entry_is_the_closed_form", same_value(got, want))


def same_value(got, want):
    if isinstance(got, M.Mat) and isinstance(want, M.Mat):
        return M.mat_eq(got, want)
    if isinstance(got, Tensor) or isinstance(want, Tensor):
        return False
    return S.cmp("==", got, want)


