"""C01 -- every accept/reject decision is the Metropolis-Hastings decision for the move proposed."""
from pyvc.vc import contract, bounded
from contracts.mcmc_gibbs import gibbs_take_step

contract("C01", "gibbs_take_step", native=False)(gibbs_take_step)


from contracts.mcmc_pca import pca_take_step
contract("C01", "pca_take_step", native=False)(pca_take_step)


from contracts.mcmc_hmc import hmc_take_step
contract("C01", "hmc_take_step", native=False)(hmc_take_step)


from contracts.mcmc_ensemble import ensemble_advance_walker
contract("C01", "ensemble_advance_walker", native=False)(ensemble_advance_walker)

# C01.hmc.reversible_proposal: imported from C07 (the structure of the trajectory map that generates the proposal)
from contracts.c07_hamiltonian import standard_leapfrog_structure, bounded_leapfrog_structure
contract("C01", "standard_leapfrog_structure", native=False)(standard_leapfrog_structure)
contract("C01", "bounded_leapfrog_structure", native=False)(bounded_leapfrog_structure)
