"""C01 -- every accept/reject decision is the Metropolis-Hastings decision for the move proposed."""
from pyvc.vc import contract, bounded
from contracts.mcmc_gibbs import gibbs_take_step

contract("C01", "gibbs_take_step", native=False, replay_with="stationary_moments_native")(gibbs_take_step)


from contracts.mcmc_pca import pca_take_step
contract("C01", "pca_take_step", native=False, replay_with="stationary_moments_native")(pca_take_step)


from contracts.mcmc_hmc import hmc_take_step
contract("C01", "hmc_take_step", native=False, replay_with="stationary_moments_native")(hmc_take_step)


from contracts.mcmc_ensemble import ensemble_advance_walker
contract("C01", "ensemble_advance_walker", native=False, replay_with="stationary_moments_native")(ensemble_advance_walker)

# C01.hmc.reversible_proposal: imported from C07 (the structure of the trajectory map that generates the proposal)
from contracts.c07_hamiltonian import standard_leapfrog_structure, bounded_leapfrog_structure
contract("C01", "standard_leapfrog_structure", native=False, replay_with="hmc_trajectory_native", tags=("structural",))(standard_leapfrog_structure)
contract("C01", "bounded_leapfrog_structure", native=False, replay_with="hmc_trajectory_native", tags=("structural",))(bounded_leapfrog_structure)


# ---- bounded layer: the samplers reproduce the moments of a known target ----------------------------------------------
import numpy as np


@bounded("C01", "stationary_moments_native", native_runs=8)
def stationary_moments_native(vc):
    """long-run means and variances of each sampler on a known 2-d target (correlated Gaussian, optionally tempered or
    truncated by bounds) agree with the exact values within Monte-Carlo error estimated by batch means.  A bounded,
    statistical stand-in for the limit law that the per-decision proof obligations do not themselves establish."""
    from contracts.common import make_sampler, quiet
    from scipy.stats import truncnorm
    kind = vc.choice("sampler", ["gibbs", "pca", "hmc", "ensemble"])
    cfg = vc.choice("config", ["plain", "temperature", "bounds"])
    seed = vc.int("seed", lo=0, hi=10 ** 6)
    rng = np.random.default_rng(seed)
    np.random.seed(seed % (2 ** 31))
    rho = 0.6 if cfg != "bounds" else 0.0            # (independent coordinates when truncated: exact moments known)
    mu = np.array([0.5, -1.0])
    sd = np.array([1.0, 2.0])
    C = np.array([[sd[0] ** 2, rho * sd[0] * sd[1]], [rho * sd[0] * sd[1], sd[1] ** 2]])
    iC = np.linalg.inv(C)
    T = 2.5 if (cfg == "temperature" and kind != "ensemble") else 1.0

    class Target:
        mu = None

        def __call__(self, x):
            r = np.asarray(x, dtype=float) - mu
            return float(-0.5 * r @ iC @ r)

        def grad(self, x):
            return -(iC @ (np.asarray(x, dtype=float) - mu))

    post = Target()
    post.mu = mu
    bounds = (mu - np.array([0.5, 1.0]), mu + np.array([1.5, 2.0])) if cfg == "bounds" else None
    ch = make_sampler(kind, post, 2, rng, temperature=T, bounds=bounds, seed=seed, grad=post.grad, epsilon=0.25)
    if kind == "ensemble":
        # any stretch parameter alpha > 1 must give the same limit law
        from inference.mcmc import EnsembleSampler
        from contracts.common import seed_chain
        a_ = vc.choice("alpha", [1.5, 2.0, 3.5])
        ch = EnsembleSampler(posterior=post, starting_positions=ch.walker_positions.copy(), bounds=bounds, alpha=a_,
                             display_progress=False)
        seed_chain(ch, seed)
    n = {"gibbs": 9000, "pca": 9000, "hmc": 2500, "ensemble": 900}[kind]
    quiet(ch.advance, n)
    X = np.asarray(ch.get_sample(burn=max(n // 10, 50), thin=1), dtype=float)
    if X.ndim == 1:
        X = X.reshape(-1, 2)
    # exact moments of the tempered / truncated target
    if cfg == "bounds":
        a = (bounds[0] - mu) / sd
        b = (bounds[1] - mu) / sd
        m_true = np.array([truncnorm.mean(a[i], b[i], loc=mu[i], scale=sd[i]) for i in range(2)])
        v_true = np.array([truncnorm.var(a[i], b[i], loc=mu[i], scale=sd[i]) for i in range(2)])
    else:
        m_true, v_true = mu, np.diag(C) * T
    # Monte-Carlo error by batch means (30 batches)
    nb = 30
    L = X.shape[0] // nb
    B = X[: nb * L].reshape(nb, L, 2)
    bm, bv = B.mean(axis=1), B.var(axis=1)
    se_m = bm.std(axis=0, ddof=1) / np.sqrt(nb)
    se_v = bv.std(axis=0, ddof=1) / np.sqrt(nb)
    m_hat, v_hat = bm.mean(axis=0), bv.mean(axis=0) + bm.var(axis=0)
    vc.inputs["z_mean"] = [float(v) for v in (m_hat - m_true) / se_m]
    vc.inputs["ratio_var"] = [float(v) for v in v_hat / v_true]
    # (gross-error tolerances: the recorded jump-chain bias -- known finding -- moves means of asymmetric targets by up to about a
    # tenth of a standard deviation and variances by 10-15 %; the strict comparison is retry_until_accept_native)
    vc.ensures("mean_of_the_target", bool(np.all(np.abs(m_hat - m_true) < 6 * se_m + 0.15 * sd)))
    vc.ensures("variance_of_the_target", bool(np.all(np.abs(v_hat - v_true) < 6 * se_v + 0.25 * v_true)))


@contract("C01", "ensemble_stretch_constants", native=False, replay_with="stationary_moments_native")
def ensemble_stretch_constants(vc):
    """EnsembleSampler.__init__: the stretch variable z = x^2/2 is drawn with x uniform on [sqrt(2/alpha), sqrt(2 alpha)), i.e.
    z in [1/alpha, alpha) with density ~ 1/sqrt(z) -- the symmetric stretch law g(1/z) = z g(z) that the acceptance rule
    z^(d-1) pi(Y)/pi(X) assumes (the walker contract takes these two constants as given; here they are established)"""
    from pyvc import sym as S
    from pyvc.objlist import PosteriorGhost
    d = vc.choice("d", [1, 2])
    nw = vc.int("n_walkers", lo=3)
    alpha = vc.real("alpha")
    vc.assume(S.cmp(">", alpha, 1))
    pos0 = vc.matrix("starting_positions", nw, d)
    for qn in ("EnsembleSampler.__validate_starting_positions", "EnsembleSampler._EnsembleSampler__validate_starting_positions"):
        vc.modular(qn, lambda I, func, args, kwargs: args[-1])
    with vc.raising_allowed():
        s = vc.new("inference.mcmc.ensemble", "EnsembleSampler", posterior=PosteriorGhost(), starting_positions=pos0, alpha=alpha,
                   display_progress=False)
    lo, w = vc.attr(s, "x_lwr"), vc.attr(s, "x_width")
    hi = S.add(lo, w)
    vc.ensures("stretch_parameter_stored", S.cmp("==", vc.attr(s, "alpha"), alpha))
    vc.ensures("lower_end_is_sqrt_2_over_alpha", S.And(S.cmp(">=", lo, 0), S.cmp("==", S.mul(S.mul(lo, lo), alpha), 2)))
    vc.ensures("upper_end_is_sqrt_2_alpha", S.And(S.cmp(">=", hi, 0), S.cmp("==", S.mul(hi, hi), S.mul(2, alpha))))


# each chain run under parallel tempering: the exchange is itself a Metropolis-Hastings move (swap contract) and what a chain
# holds after an exchange must be its new point's log-density at its OWN temperature (worker contracts) -- otherwise every
# later accept/reject decision of that chain compares against the wrong value.  The C08 contracts, checked here as well.
from contracts.c08_tempering import swap as _swap, worker_update_position as _wup, worker_send_position as _wsp, tempering_native as _tn
contract("C01", "tempering_swap", native=False, replay_with="tempering_native")(_swap)
contract("C01", "tempering_worker_update_position", native=False, replay_with="tempering_native")(_wup)
contract("C01", "tempering_worker_send_position", native=False, replay_with="tempering_native")(_wsp)
bounded("C01", "tempering_native", native_runs=3)(_tn)


# Hamiltonian proposals: the accept rule exp(-dH) is a Metropolis-Hastings rule only if the kinetic energy in H is the one under
# which the momenta are drawn (and the trajectory map is a reversible, volume-preserving involution): the C07 mass contracts and
# its trajectory harness, checked here as well
from contracts.c07_hamiltonian import diagonal_mass as _dm, matrix_mass_momentum_law as _mml, trajectory_native as _trn
contract("C01", "hmc_diagonal_mass", native=False, replay_with="hmc_trajectory_native")(_dm)
contract("C01", "hmc_matrix_mass_momentum_law", native=False, replay_with="hmc_trajectory_native")(_mml)
bounded("C01", "hmc_trajectory_native", native_runs=16)(_trn)


@bounded("C01", "retry_until_accept_native", native_runs=1)
def retry_until_accept_native(vc):
    """STRICT long-run check on the simplest target (1-d standard normal, fixed proposal width): the variance of the chain must
    be the variance of the target within Monte-Carlo error.  Every sampler of the library re-draws proposals until one is accepted
    and never records the current point again on a rejection; what is recorded is therefore the *jump chain* of the
    Metropolis-Hastings chain, whose long-run law is proportional to pi(x) * (acceptance rate from x), not pi(x).  Each decision
    is a correct MH decision (proved), the law of the recorded samples is not the target (recorded finding)."""
    from inference.mcmc import GibbsChain
    from contracts.common import quiet
    seed = vc.int("seed", lo=0, hi=1000)
    post = lambda x: float(-0.5 * np.sum(np.asarray(x, dtype=float) ** 2))
    worst = 0.0
    for width in (0.5, 2.4):
        ch = GibbsChain(posterior=post, start=np.array([0.1]), widths=np.array([width]), display_progress=False)
        ch.params[0].rng = np.random.default_rng(seed)
        ch.rng = np.random.default_rng(seed + 1)
        ch.params[0].chk_int = 10 ** 9            # keep the proposal width fixed (no adaptation): a plain MH chain
        quiet(ch.advance, 30000)
        x = np.asarray(ch.get_parameter(0, burn=1000), dtype=float)
        nb = 40
        L = x.size // nb
        bv = x[: nb * L].reshape(nb, L)
        v_hat = float(np.mean(bv.var(axis=1) + (bv.mean(axis=1) - x.mean()) ** 2))
        se = float(bv.var(axis=1).std(ddof=1) / np.sqrt(nb))
        vc.inputs[f"variance_width_{width}"] = [v_hat, se]
        worst = max(worst, abs(v_hat - 1.0) / (se + 0.002))
    vc.ensures("long_run_variance_is_the_target_variance", worst < 5.0)


@bounded("C01", "oblique_reflection_native", native_runs=1)
def oblique_reflection_native(vc):
    """STRICT reversibility check of the proposal of PcaChain / EnsembleSampler *with bounds*.  Both move along an oblique line
    (a principal direction; the line through two walkers) and fold the candidate back into the box coordinate by coordinate
    (Bounds.reflect).  The acceptance rule min(1, pi(y)/pi(x)) [times z^(n-1)] is the Metropolis-Hastings probability only for a
    proposal whose reverse move exists with the same density.  After a single fold the way back from y runs along the MIRRORED
    direction, which the sampler at y never proposes: for a candidate y reached from x with one fold, no point of the folded line
    through y along the same direction is x (recorded finding; a coordinate-aligned direction, as in GibbsChain, is unaffected)."""
    from inference.mcmc import PcaChain
    seed = vc.int("seed", lo=0, hi=1000)
    rng = np.random.default_rng(seed)
    lo, hi = np.array([-1.0, -1.0]), np.array([1.0, 1.0])
    post = lambda t: float(-0.5 * np.sum(np.asarray(t, dtype=float) ** 2))
    ch = PcaChain(posterior=post, start=np.array([0.7, 0.1]), bounds=(lo, hi), display_progress=False)
    e = np.array([np.cos(0.6), np.sin(0.6)])                  # an oblique unit direction (a principal component of a correlated target)
    x = np.array([0.7 + 0.2 * rng.uniform(), 0.1 * rng.normal()])
    s = 0.5 + 0.2 * rng.uniform()                              # far enough to cross the upper wall of coordinate 0 exactly once
    y = np.asarray(ch.process_proposal(x + s * e), dtype=float)
    crossed = (x + s * e)[0] > hi[0] and abs((x + s * e)[1]) < 1
    # every point the sampler can propose from y along +-e, folded by the sampler's own map: does the set contain x?
    ts = np.linspace(-2.5, 2.5, 200001)
    back = np.array([np.asarray(ch.process_proposal(y + t * e), dtype=float) for t in ts[::200]])      # coarse scan ...
    k = int(np.argmin(np.linalg.norm(back - x, axis=1)))
    fine = np.linspace(ts[::200][max(k - 1, 0)], ts[::200][min(k + 1, back.shape[0] - 1)], 4001)      # ... refined around the closest point
    backf = np.array([np.asarray(ch.process_proposal(y + t * e), dtype=float) for t in fine])
    dist = float(np.min(np.linalg.norm(backf - x, axis=1)))
    vc.inputs["closest_approach_of_the_reverse_proposal_line_to_the_start"] = dist
    vc.ensures("setup_crosses_one_wall_once", bool(crossed))
    vc.ensures("reverse_move_of_a_folded_oblique_proposal_exists", dist < 1e-3)


@bounded("C01", "narrow_box_native", native_runs=4)
def narrow_box_native(vc):
    """a box that is narrow relative to the target (the density is nearly flat inside it): almost every proposal is accepted whatever
    its width, so the width adaptation keeps enlarging it.  The long-run law must still be the (nearly uniform) truncated target --
    not a chain that ends up sitting on a wall because a proposal of width 1e40 cannot be folded back into a box of width 2 in
    floating point"""
    from inference.mcmc import GibbsChain, PcaChain
    from contracts.common import quiet
    kind = vc.choice("sampler", ["gibbs", "pca"])
    seed = vc.int("seed", lo=0, hi=1000)
    d = 2
    sd = vc.choice("target_sd_over_box_half_width", [3.0, 10.0])
    post = lambda t: float(-0.5 * np.sum(np.asarray(t, dtype=float) ** 2) / sd ** 2)
    lo, hi = -np.ones(d), np.ones(d)
    if kind == "gibbs":
        ch = GibbsChain(posterior=post, start=np.array([0.1, 0.2]), widths=np.array([0.5, 0.5]), display_progress=False)
        for i in range(d):
            ch.set_boundaries(i, (lo[i], hi[i]))
    else:
        ch = PcaChain(posterior=post, start=np.array([0.1, 0.2]), widths=np.array([0.5, 0.5]), bounds=(lo, hi), display_progress=False)
    ch.rng = np.random.default_rng(seed)
    for i, p in enumerate(ch.params):
        p.rng = np.random.default_rng(seed * 10 + i)
    with np.errstate(all="ignore"):
        quiet(ch.advance, 12000)
    x = np.array([ch.get_parameter(i, burn=6000) for i in range(d)]).T
    # truncated N(0, sd^2) on [-1, 1]: mean 0, variance close to 1/3 (exactly: below it by O(1/sd^2))
    g = np.linspace(-1, 1, 20001)
    w = np.exp(-0.5 * g ** 2 / sd ** 2)
    var_true = float(np.sum(w * g ** 2) / np.sum(w))
    vc.inputs["proposal_widths"] = [float(p.sigma) for p in ch.params]
    vc.inputs["sample_mean_and_variance"] = [[float(v) for v in x.mean(axis=0)], [float(v) for v in x.var(axis=0)]]
    vc.ensures("long_run_law_is_the_truncated_target", bool(np.all(np.abs(x.mean(axis=0)) < 0.1) and np.all(np.abs(x.var(axis=0) - var_true) < 0.15 * var_true)))
    vc.ensures("samples_do_not_pile_up_on_a_wall", float(np.mean(np.abs(x) > 0.999)) < 0.01)


@bounded("C01", "non_negative_proposal_native", native_runs=2)
def non_negative_proposal_native(vc):
    """a non-negative Gibbs parameter (no boundaries) under a constant log-density, fixed proposal width: one update of a point
    distributed uniformly on [0, 12] must leave the distribution uniform next to zero (the folded proposal |x + N(0, s^2)| is
    symmetric; a proposal re-drawn until it is non-negative is not, and depletes the neighbourhood of zero)"""
    from inference.mcmc import GibbsChain
    seed = vc.int("seed", lo=0, hi=1000)
    rng = np.random.default_rng(seed)
    post = lambda t: 0.0
    ch = GibbsChain(posterior=post, start=np.array([1.0]), widths=np.array([1.0]), display_progress=False)
    ch.set_non_negative(0, True)
    p = ch.params[0]
    p.rng = np.random.default_rng(seed + 1)
    ch.rng = np.random.default_rng(seed + 2)
    p.chk_int = 10 ** 9                       # fixed width
    n = 40000
    x0 = rng.uniform(0.0, 12.0, size=n)
    x1 = np.empty(n)
    for k in range(n):
        p.samples[-1] = float(x0[k])
        ch.probs[-1] = 0.0
        ch.take_step()
        x1[k] = p.samples[-1]
        if len(p.samples) > 50:               # keep the stores short
            del p.samples[:-2]
            del ch.probs[:-2]
    counts = np.array([np.sum((x1 >= a) & (x1 < a + 0.25)) for a in (0.0, 0.25, 0.5, 0.75)])
    expect = n * 0.25 / 12.0
    z = (counts - expect) / np.sqrt(expect)
    vc.inputs["counts_in_quarter_bins_next_to_zero"] = [int(c) for c in counts]
    vc.inputs["expected_per_bin"] = float(expect)
    vc.ensures("one_update_keeps_a_uniform_law_uniform_next_to_zero", bool(np.all(np.abs(z) < 5.0)))
