"""C14 -- burn, thin and interval read-outs select exactly the documented samples."""
import z3
from pyvc.vc import contract, bounded
from pyvc import sym as S
from pyvc.sym import Sym
from pyvc.tensor import Tensor, SymList
from pyvc.objlist import SymObjList

GIBBS = "inference.mcmc.gibbs"
HMC = "inference.mcmc.hmc"
ENS = "inference.mcmc.ensemble"
BASE = "inference.mcmc.base"


def retained(vc, N, burn, thin):
    """the documented selection: entries burn, burn+thin, ... below N; returns its length L (a fresh integer
    characterised by  L >= 0,  N <= burn -> L = 0,  N > burn -> (L-1)*thin < N-burn <= L*thin )"""
    L = vc.fresh_int("L_spec", 0)
    span = N - burn
    vc.c.assume(S.Implies(span <= 0, L == 0))
    vc.c.assume(S.Implies(span > 0, S.And((L - 1) * thin < span, span <= L * thin)))
    return L


def _args(vc):
    N = vc.int("N", lo=1)
    burn = vc.int("burn", lo=0)
    thin = vc.int("thin", lo=1)
    return N, burn, thin


def _length_is(vc, name, x, L):
    vc.ensures(name + ".count", S.And(x.ndim >= 1, S.cmp("==", x.shape[0], L)))


# ---- Gibbs / PCA (MetropolisChain read-outs) -------------------------------------------------------------
def _gibbs_chain(vc, N):
    d = vc.int("d", lo=1)
    Sf = z3.Function("S", z3.IntSort(), z3.IntSort(), z3.RealSort())
    Pf = z3.Function("P", z3.IntSort(), z3.RealSort())
    params = SymObjList(vc.cls(GIBBS, "Parameter"), d,
                        {"samples": lambda j: SymList(N, lambda t: Sym(Sf(S.z(j), S.z(t))))})
    probs = SymList(N, lambda t: Sym(Pf(S.z(t))))
    chain = vc.obj(GIBBS, "GibbsChain", params=params, probs=probs, chain_length=N, n_parameters=d)
    return chain, d, Sf, Pf


@contract("C14", "gibbs_readouts", native=False, replay_with="readouts_native")
def gibbs_readouts(vc):
    N, burn, thin = _args(vc)
    chain, d, Sf, Pf = _gibbs_chain(vc, N)
    L = retained(vc, N, burn, thin)
    idx = vc.index("index", d)
    par = vc.call(chain, "get_parameter", idx, burn=burn, thin=thin)
    pr = vc.call(chain, "get_probabilities", burn=burn, thin=thin)
    sm = vc.call(chain, "get_sample", burn=burn, thin=thin)
    _length_is(vc, "get_parameter", par, L)
    _length_is(vc, "get_probabilities", pr, L)
    _length_is(vc, "get_sample", sm, L)
    vc.ensures("get_sample.two_dimensional", S.And(sm.ndim == 2, S.cmp("==", sm.shape[1], d)))
    vc.ensures_forall("get_parameter.entries", L, lambda k: Sym(S.z(par[k]) == Sf(S.z(idx), S.z(burn + k * thin))))
    vc.ensures_forall("get_probabilities.entries", L, lambda k: Sym(S.z(pr[k]) == Pf(S.z(burn + k * thin))))
    vc.ensures_forall("get_sample.entries", (L, d),
                      lambda k, j: Sym(S.z(sm[k, j]) == Sf(S.z(j), S.z(burn + k * thin))))


# ---- Hamiltonian ---------------------------------------------------------------------------------------------
@contract("C14", "hmc_readouts", native=False, replay_with="readouts_native")
def hmc_readouts(vc):
    N, burn, thin = _args(vc)
    d = vc.int("d", lo=1)
    TH = z3.Function("TH", z3.IntSort(), z3.IntSort(), z3.RealSort())
    Pf = z3.Function("P", z3.IntSort(), z3.RealSort())
    theta = SymList(N, lambda t: Tensor((d,), lambda j: Sym(TH(S.z(t), S.z(j)))))
    probs = SymList(N, lambda t: Sym(Pf(S.z(t))))
    chain = vc.obj(HMC, "HamiltonianChain", theta=theta, probs=probs, chain_length=N, n_parameters=d)
    L = retained(vc, N, burn, thin)
    idx = vc.index("index", d)
    par = vc.call(chain, "get_parameter", idx, burn=burn, thin=thin)
    pr = vc.call(chain, "get_probabilities", burn=burn, thin=thin)
    sm = vc.call(chain, "get_sample", burn=burn, thin=thin)
    vc.ensures("get_parameter.one_dimensional", par.ndim == 1)
    _length_is(vc, "get_parameter", par, L)
    _length_is(vc, "get_probabilities", pr, L)
    _length_is(vc, "get_sample", sm, L)
    vc.ensures("get_sample.two_dimensional", S.And(sm.ndim == 2, S.cmp("==", sm.shape[1], d)))
    vc.ensures_forall("get_parameter.entries", L, lambda k: Sym(S.z(par[k]) == TH(S.z(burn + k * thin), S.z(idx))))
    vc.ensures_forall("get_probabilities.entries", L, lambda k: Sym(S.z(pr[k]) == Pf(S.z(burn + k * thin))))
    vc.ensures_forall("get_sample.entries", (L, d),
                      lambda k, j: Sym(S.z(sm[k, j]) == TH(S.z(burn + k * thin), S.z(j))))


# ---- Ensemble ------------------------------------------------------------------------------------------------
@contract("C14", "ensemble_readouts", native=False, replay_with="readouts_native")
def ensemble_readouts(vc):
    N, burn, thin = _args(vc)
    d = vc.int("d", lo=1)
    X = vc.matrix("X", N, d, origin="state")
    P = vc.vector("P", N, origin="state")
    chain = vc.obj(ENS, "EnsembleSampler", sample=X, sample_probs=P, chain_length=N, n_parameters=d)
    L = retained(vc, N, burn, thin)
    idx = vc.index("index", d)
    par = vc.call(chain, "get_parameter", idx, burn=burn, thin=thin)
    pr = vc.call(chain, "get_probabilities", burn=burn, thin=thin)
    sm = vc.call(chain, "get_sample", burn=burn, thin=thin)
    _length_is(vc, "get_parameter", par, L)
    _length_is(vc, "get_probabilities", pr, L)
    _length_is(vc, "get_sample", sm, L)
    vc.ensures("get_sample.two_dimensional", S.And(sm.ndim == 2, S.cmp("==", sm.shape[1], d)))
    vc.ensures_forall("get_parameter.entries", L, lambda k: par[k] == X[burn + k * thin, idx])
    vc.ensures_forall("get_probabilities.entries", L, lambda k: pr[k] == P[burn + k * thin])
    vc.ensures_forall("get_sample.entries", (L, d), lambda k, j: sm[k, j] == X[burn + k * thin, j])


# ---- highest-density read-out (MarkovChain.get_interval) ---------------------------------------------------
def _interval_setup(vc):
    N, burn, thin = _args(vc)
    d = vc.int("d", lo=1)
    X = vc.matrix("X", N, d, origin="state")
    P = vc.vector("P", N, origin="state")
    chain = vc.obj(ENS, "EnsembleSampler", sample=X, sample_probs=P, chain_length=N, n_parameters=d)
    f = vc.real("interval", lo=0.01, hi=0.99)
    return N, burn, thin, d, X, P, chain, f


def _cutoff(vc, L, f):
    """rows outside the requested top fraction: floor(L (1 - f)).  The code rounds the product to 8 decimals first (a guard against
    float products such as 9.999999999999998); the two agree unless L (1 - f) lies within 1e-8 below a whole number of rows -- such
    fractions (of measure 1e-8) are excluded here, where arithmetic is exact"""
    x = L * (1 - f)
    vc.lemma("cutoff_range", S.And(x >= 0, x <= L))
    cut = vc.to_int(x)
    vc.assume(S.cmp("<", x - cut, 1 - 1e-8))
    return cut


@contract("C14", "get_interval_all", native=False, replay_with="readouts_native")
def get_interval_all(vc):
    """no count requested: every row of the top fraction, with its own log-probability"""
    N, burn, thin, d, X, P, chain, f = _interval_setup(vc)
    L = retained(vc, N, burn, thin)
    out_s, out_p = vc.call(chain, "get_interval", interval=f, burn=burn, thin=thin)
    calls = vc.library_calls("argsort")
    vc.ensures("ranks_the_selected_logprobs_once", len(calls) == 1)
    if len(calls) != 1:
        return
    inp, perm = calls[0]
    vc.lemma("ranking_input.count", S.cmp("==", inp.shape[0], L))
    vc.ensures_forall("ranking_input.entries", L, lambda k: inp.at(k) == P[burn + k * thin])
    cut = _cutoff(vc, inp.shape[0], f)          # the ranked array has L entries (lemma above)
    n_out = L - cut
    vc.ensures("count", S.And(S.cmp("==", out_p.shape[0], n_out), S.cmp("==", out_s.shape[0], n_out)))
    vc.ensures("two_dimensional", S.And(out_s.ndim == 2, S.cmp("==", out_s.shape[1], d), out_p.ndim == 1))
    row = lambda r: burn + perm.at(cut + r) * thin
    vc.ensures_forall("rows_are_the_top_fraction_with_own_logprob", (n_out, d),
                      lambda r, c: S.And(out_p[r] == P[row(r)], out_s[r, c] == X[row(r), c]))


@contract("C14", "get_interval_count", native=False, replay_with="readouts_native")
def get_interval_count(vc):
    """a count is requested: at most that many rows, each one a row of the top fraction with its own
    log-probability, as a two-dimensional array"""
    N, burn, thin0, d, X, P, chain, f = _interval_setup(vc)
    k = vc.choice("samples", [1, 3, 50])     # requested count: proved per listed value (division by it stays linear)
    L1 = retained(vc, N, burn, 1)
    thin = vc.fresh_int("thin_used", 1)           # documented: `samples` overrides thin with max(n // samples, 1)
    q = vc.fresh_int("q_div", 0)
    vc.c.assume(S.And(q * k <= L1, L1 < (q + 1) * k, thin == S.smax(q, 1)))
    L = retained(vc, N, burn, thin)
    out_s, out_p = vc.call(chain, "get_interval", interval=f, burn=burn, thin=thin0, samples=k)
    calls = vc.library_calls("argsort")
    vc.ensures("ranks_the_selected_logprobs_once", len(calls) == 1)
    if len(calls) != 1:
        return
    inp, perm = calls[0]
    vc.lemma("ranking_input.count", S.cmp("==", inp.shape[0], L))
    vc.ensures_forall("ranking_input.entries", L, lambda j: inp.at(j) == P[burn + j * thin])
    cut = _cutoff(vc, inp.shape[0], f)
    n_top = L - cut
    vc.ensures("two_dimensional", S.And(out_s.ndim == 2, S.cmp("==", out_s.shape[1], d), out_p.ndim == 1))
    n_out = out_p.shape[0]
    vc.ensures("at_most_requested", S.And(S.cmp("<=", n_out, k), S.cmp("<=", n_out, n_top),
                                          S.cmp("==", out_s.shape[0], n_out)))
    vc.ensures("no_fewer_than_available", S.cmp("==", n_out, S.smin(k, n_top)))
    # membership of every returned row in the top fraction (with its own log-probability) is checked by the
    # bounded layer only: the nested slice arithmetic makes the existential query too large to be stable


# ---------------------------------------------------------------------------------------------------
# bounded layer: the real samplers, element-wise against explicit Python indexing of their storage
# ---------------------------------------------------------------------------------------------------
import numpy as np


@bounded("C14", "readouts_native", native_runs=40)
def readouts_native(vc):
    from contracts.common import Posterior, KINDS, make_sampler, stored_points, quiet
    import inference.mcmc.base as base
    kind = vc.choice("sampler", ["gibbs", "pca", "hmc", "ensemble"])
    d = vc.int("d", lo=1, hi=3)
    steps = vc.choice("steps", [0, 1, 2, 5, 17, 40])
    burn = vc.choice("burn", [0, 1, 2, 3, 16, 17, 18, 39, 40, 41, 70])
    thin = vc.choice("thin", [1, 2, 3, 7, 9, 50])
    seed = vc.int("seed", lo=0, hi=10 ** 6)
    rng = np.random.default_rng(seed)
    post = Posterior(KINDS[seed % 2], d, rng)
    ch = make_sampler(kind, post, d, rng, seed=seed)
    single = vc.bool("built_by_single_steps_first")       # (take_step / run_for path before advance: the stores are shared by both)
    if single:
        for _ in range(2):
            ch.take_step()
    if kind == "ensemble":
        quiet(ch.advance, max(1, steps // 4))
    else:
        quiet(ch.advance, steps)
    X, P = stored_points(ch)
    N = X.shape[0]
    # the read-outs stay aligned row for row: every stored log-probability is that of its own stored row
    beta_ = 1.0 if kind == "ensemble" else float(getattr(ch, "inv_temp", 1.0))
    vc.ensures("stored_rows_carry_their_own_logprob", len(X) == len(P) and all(
        abs(P[k] - beta_ * post.f(X[k])) <= 1e-9 * max(1.0, abs(P[k])) for k in range(len(P))))
    sel = list(range(burn, N, thin))
    pr = ch.get_probabilities(burn=burn, thin=thin)
    sm = ch.get_sample(burn=burn, thin=thin)
    vc.ensures("get_probabilities", np.ndim(pr) == 1 and len(pr) == len(sel) and np.array_equal(np.asarray(pr), P[sel]))
    ok_s = np.ndim(sm) == 2 and sm.shape == (len(sel), d) if len(sel) or kind != "gibbs" else True
    vc.ensures("get_sample", bool(ok_s) and (len(sel) == 0 or np.array_equal(np.asarray(sm), X[sel, :])))
    for j in range(d):
        pj = ch.get_parameter(j, burn=burn, thin=thin)
        vc.ensures("get_parameter", np.ndim(pj) == 1 and len(pj) == len(sel) and np.array_equal(np.asarray(pj), X[sel, j]))
    # marginal estimates are built from exactly get_parameter(index, burn, thin)
    seen = []

    class Capture:
        def __init__(self, sample, *a, **k):
            seen.append(np.array(sample))

    saved = base.GaussianKDE, base.UnimodalPdf
    base.GaussianKDE = base.UnimodalPdf = Capture
    try:
        ch.get_marginal(0, burn=burn, thin=thin)
        ch.get_marginal(d - 1, burn=burn, thin=thin, unimodal=True)
    finally:
        base.GaussianKDE, base.UnimodalPdf = saved
    vc.ensures("get_marginal.uses_selection", len(seen) == 2 and np.array_equal(seen[0], X[sel, 0])
               and np.array_equal(seen[1], X[sel, d - 1]))
    # highest-density read-out
    if len(sel) >= 1:
        f = vc.choice("interval", [0.1, 0.5, 0.9, 0.95])
        # the rows outside the requested top fraction: floor(L (1 - f)) of them, in EXACT arithmetic (f is a decimal fraction; the
        # float product L * (1 - 0.9) is 9.999999999999998 for L = 100, which must not keep a 91st row)
        from fractions import Fraction
        cut = int(len(sel) * (1 - Fraction(str(f))))
        order = np.argsort(P[sel], kind="stable")
        s_all, p_all = ch.get_interval(interval=f, burn=burn, thin=thin)
        top_p = np.sort(P[sel])[cut:]
        ok = np.ndim(s_all) == 2 and s_all.shape == (len(sel) - cut, d) and np.allclose(np.sort(p_all), top_p)
        if ok:
            for r in range(len(p_all)):
                ok = ok and any(P[t] == p_all[r] and np.array_equal(X[t], s_all[r]) for t in sel)
        vc.ensures("get_interval.all_rows_of_top_fraction", bool(ok))
        k = vc.choice("samples", [1, 2, 3, 10])
        sel1 = list(range(burn, N, 1))
        thin_k = max(len(sel1) // k, 1)
        selk = list(range(burn, N, thin_k))
        cutk = int(len(selk) * (1 - Fraction(str(f))))
        s_k, p_k = ch.get_interval(interval=f, burn=burn, thin=thin, samples=k)
        thr = np.sort(P[selk])[cutk] if len(selk) > cutk else np.inf
        ok = np.ndim(s_k) == 2 and np.ndim(p_k) == 1 and len(p_k) == s_k.shape[0] and len(p_k) == min(k, len(selk) - cutk)
        if ok:
            for r in range(len(p_k)):
                ok = ok and p_k[r] >= thr and any(P[t] == p_k[r] and np.array_equal(X[t], s_k[r]) for t in selk)
        vc.ensures("get_interval.count_subset_of_top_fraction", bool(ok))


@bounded("C14", "interval_fraction_exact_native", native_runs=6)
def interval_fraction_exact_native(vc):
    """the requested top fraction, counted exactly: 100 retained samples and interval=0.9 (or 0.8, 0.6) are 90 (80, 60) rows, although
    the float products 100 * (1 - 0.9) = 9.999999999999998 etc. fall just below the integer"""
    from fractions import Fraction
    from contracts.common import Posterior, make_sampler, stored_points, quiet
    kind = vc.choice("sampler", ["gibbs", "pca", "hmc", "ensemble"])
    seed = vc.int("seed", lo=0, hi=10 ** 6)
    rng = np.random.default_rng(seed)
    d = 2
    post = Posterior("gauss", d, rng)
    ch = make_sampler(kind, post, d, rng, seed=seed)
    L = vc.choice("retained", [10, 50, 100])
    per = ch.n_walkers if kind == "ensemble" else 1
    quiet(ch.advance, 3 * L // per + 3)
    X, P = stored_points(ch)
    burn = len(P) - L
    ok = True
    for f in (0.9, 0.8, 0.6, 0.7):
        s_all, p_all = ch.get_interval(interval=f, burn=burn, thin=1)
        want = L - int(L * (1 - Fraction(str(f))))
        vc.inputs[f"rows_for_{f}"] = [int(len(p_all)), want]
        ok = ok and len(p_all) == want and s_all.shape == (want, d) and bool(np.allclose(np.sort(p_all), np.sort(P[burn:])[L - want:]))
    vc.ensures("rows_of_exactly_the_requested_top_fraction", bool(ok))
