"""C13 -- sample_hdi returns the shortest interval holding the requested fraction."""
from pyvc.vc import contract

HDI = "inference.pdf.hdi"


def _frac(vc):
    return vc.real("fraction", lo=1e-3, hi=0.999, sample=lambda r: r.choice([0.05, 0.3, 0.5, 0.68, 0.9, 0.95, r.uniform(0.01, 0.99)]))


def _L(vc, f, n):
    # the number of steps between the window ends: floor(fraction * n)
    fn = f * n
    vc.lemma("fraction_of_n", vc.And(vc.gt(fn, 0), vc.lt(fn, n)))
    return vc.to_int(fn)


@contract("C13", "hdi_1d")
def hdi_1d(vc):
    n = vc.int("n", lo=2, hi=9)
    f = _frac(vc)
    x = vc.vector("x", n, sample=lambda r: r.choice([r.uniform(-3, 3), float(r.randint(-2, 2)), r.uniform(-1, 1) * 1e3]))
    L = _L(vc, f, n)
    xs = vc.sort(x)          # ghost: sorted rearrangement of the sample (assumed contract of sort)
    x_before = x.copy()
    out = vc.callf(HDI, "sample_hdi", x, f)
    vc.ensures("shape", vc.And(vc.ndim(out) == 1, vc.shape(out)[0] == 2))
    # both ends are sample values L positions apart in sorted order: the interval holds L+1 > fraction*n points
    vc.ensures_exists("window", n - L, lambda i: vc.And(vc.eq(out[0], xs[i]), vc.eq(out[1], xs[i + L])))
    vc.ensures("count_exceeds_fraction", vc.gt(L + 1, f * n))
    # no interval between two sample values holding as many points is shorter
    vc.ensures_forall("shortest", n - L, lambda a: vc.le(out[1] - out[0], xs[a + L] - xs[a]))
    vc.unchanged("frame", x, x_before)


@contract("C13", "hdi_list")
def hdi_list(vc):
    """a Python sequence is converted and treated like the array"""
    n = vc.int("n", lo=2, hi=7)
    f = _frac(vc)
    x = vc.vector("x", n)
    L = _L(vc, f, n)
    xs = vc.sort(x)
    out = vc.callf(HDI, "sample_hdi", vc.pylist(x), f)
    vc.ensures_exists("window", n - L, lambda i: vc.And(vc.eq(out[0], xs[i]), vc.eq(out[1], xs[i + L])))
    vc.ensures_forall("shortest", n - L, lambda a: vc.le(out[1] - out[0], xs[a + L] - xs[a]))


@contract("C13", "hdi_2d")
def hdi_2d(vc):
    """every column of a 2-D input satisfies the 1-D contract in terms of its own sorted values only"""
    n = vc.int("n", lo=2, hi=7)
    m = vc.int("m", lo=1, hi=3)
    f = _frac(vc)
    x = vc.matrix("x", n, m, sample=lambda r: r.choice([r.uniform(-3, 3), float(r.randint(-2, 2))]))
    L = _L(vc, f, n)
    xs = vc.sort(x, axis=0)
    x_before = x.copy()
    out = vc.callf(HDI, "sample_hdi", x, f)
    if vc.mode == "native":
        out = out.reshape(2, m)     # numpy squeezes the column axis when m == 1
        for j in range(m):
            col = vc.callf(HDI, "sample_hdi", x[:, j].copy(), f)
            vc.ensures(f"column_equals_1d_call", vc.And(vc.eq(col[0], out[0, j]), vc.eq(col[1], out[1, j])))
    else:
        from pyvc.tensor import Tensor
        if out.ndim == 1:           # m == 1 on this path
            o1 = out
            out = Tensor((2, m), lambda a, j: o1.at(a))
    for j in ([vc.index("j", m)] if vc.mode == "sym" else range(m)):
        vc.ensures_exists("window", n - L, lambda i: vc.And(vc.eq(out[0, j], xs[i, j]), vc.eq(out[1, j], xs[i + L, j])))
        vc.ensures_forall("shortest", n - L, lambda a: vc.le(out[1, j] - out[0, j], xs[a + L, j] - xs[a, j]))
    vc.unchanged("frame", x, x_before)


@contract("C13", "hdi_rejects")
def hdi_rejects(vc):
    """fractions outside (0,1) are rejected (the contract's domain is exactly what the code accepts)"""
    n = vc.int("n", lo=2, hi=5)
    x = vc.vector("x", n)
    f = vc.real("fraction", sample=lambda r: r.choice([0.0, 1.0, -0.5, 1.5, 2.0]))
    vc.assume(vc.Or(f <= 0, f >= 1))
    vc.expect_raise("bad_fraction_raises", lambda: vc.callf(HDI, "sample_hdi", x, f))


# ---- bounded layer: exact membership of the end points, samples with huge outliers, integer samples -------------------------
from pyvc.vc import bounded


@bounded("C13", "hdi_exact_native", native_runs=60)
def hdi_exact_native(vc):
    """the end points are ELEMENTS of the sample (bit for bit: they are gathered, not recomputed), L = floor(f n) places apart
    in sorted order, and no window of L+1 sorted points is shorter -- also when the sample holds outliers of magnitude 1e16
    next to values of order one, or is given with an integer or a low-precision float dtype (every value used here is exactly
    representable in float64, and so are the differences: the reference below is exact)"""
    import numpy as np
    from inference.pdf.hdi import sample_hdi
    seed = vc.int("seed", lo=0, hi=10 ** 6)
    rng = np.random.default_rng(seed)
    n = int(rng.integers(3, 40))
    kind = vc.choice("sample", ["normal", "outliers", "integers", "small_integers_int8", "float16", "float32_two_clusters"])
    if kind == "normal":
        x = rng.normal(size=n)
    elif kind == "outliers":
        x = rng.normal(size=n)
        x[rng.integers(0, n)] = -10.0 ** rng.uniform(12, 16)
        x[rng.integers(0, n)] = 10.0 ** rng.uniform(12, 16)
    elif kind in ("float16", "float32_two_clusters"):
        # low-precision floats in two clusters far apart: every candidate window spans both, and window lengths that differ by a
        # few units are equal once rounded to the sample's own precision (all values and differences are exact in float64)
        n = int(rng.integers(16, 40))
        h = n // 2
        if kind == "float16":
            x = np.concatenate([rng.integers(-6, 7, size=h), 16384 + 16 * rng.integers(-3, 4, size=n - h)])
        else:
            x = np.concatenate([rng.integers(-40, 41, size=h), 2 ** 30 + 128 * rng.integers(-3, 4, size=n - h)])
        x = rng.permutation(x).astype(np.float16 if kind == "float16" else np.float32)
    elif kind == "integers":
        x = rng.integers(-50, 50, size=n)
    else:
        x = rng.integers(-120, 127, size=n).astype(np.int8)
    f = float(rng.choice([0.3, 0.5, 0.68, 0.7, 0.9])) if not kind.startswith("float") else float(rng.choice([0.55, 0.6, 0.68]))
    L = int(f * n)
    if L < 1 or L >= n:
        from pyvc.vc import SkipCase
        raise SkipCase()
    keep = x.copy()
    lo, hi = sample_hdi(x, f)
    xs = np.sort(x.astype(float))
    widths = xs[L:] - xs[:-L]
    vc.ensures("end_points_are_sample_values", bool(np.any(xs == float(lo))) and bool(np.any(xs == float(hi))))
    vc.ensures("end_points_are_L_places_apart", bool(np.any((xs[:-L] == float(lo)) & (xs[L:] == float(hi)))))
    vc.ensures("no_shorter_window", float(hi) - float(lo) <= widths.min())
    vc.ensures("caller_array_untouched", bool(np.array_equal(x, keep)) and x.dtype == keep.dtype)
