"""C09 -- a saved sampler reloads to an equivalent sampler that can continue."""
import os
import copy
import tempfile
import numpy as np
from pyvc.vc import contract, bounded


def _copy_rng_states(src, dst):
    if hasattr(src, "rng"):
        dst.rng = np.random.default_rng()
        dst.rng.bit_generator.state = copy.deepcopy(src.rng.bit_generator.state)
    for ps, pd in zip(getattr(src, "params", []) or [], getattr(dst, "params", []) or []):
        pd.rng = np.random.default_rng()
        pd.rng.bit_generator.state = copy.deepcopy(ps.rng.bit_generator.state)


@bounded("C09", "roundtrip_native", native_runs=48)
def roundtrip_native(vc):
    from contracts.common import Posterior, make_sampler, stored_points, quiet, seed_chain
    from inference.mcmc import GibbsChain, PcaChain, HamiltonianChain, EnsembleSampler
    kind = vc.choice("sampler", ["gibbs", "pca", "hmc", "hmc_mass", "ensemble"])
    d = vc.int("d", lo=1, hi=3)
    steps = vc.choice("steps_before_save", [0, 1, 99, 100, 101, 150])
    cfg = vc.choice("config", ["plain", "bounds", "temperature"])
    seed = vc.int("seed", lo=0, hi=10 ** 6)
    if vc.choice("more_than_ten_parameters", [False, False, True]):
        d = 11 + seed % 3            # "any sampler": per-parameter keys of the file with two-digit indices
    rng = np.random.default_rng(seed)
    post = Posterior("gauss", d, rng)
    bounds = (post.mu - 4.0, post.mu + 4.0) if cfg == "bounds" else None
    T = 2.0 if cfg == "temperature" and kind != "ensemble" else 1.0
    kw = {}
    k2 = kind
    if kind == "hmc_mass":
        k2 = "hmc"
        kw["inverse_mass"] = np.exp(rng.uniform(-0.5, 0.5, size=d)) if seed % 2 else (np.eye(d) * 1.3 + 0.1)
    ch = make_sampler(k2, post, d, rng, temperature=T, bounds=bounds, seed=seed, **kw)
    if k2 == "gibbs" and cfg == "bounds":
        pass
    if k2 == "gibbs" and cfg == "plain" and seed % 3 == 0:
        ch.params[0].samples[-1] = abs(ch.params[0].samples[-1])
        ch.probs[-1] = post.f(ch.get_last()) * ch.inv_temp
        ch.set_non_negative(0, True)
    if k2 == "ensemble":
        a_ = [1.5, 2.0, 3.2][seed % 3]            # a non-default stretch parameter must survive the round trip too
        if a_ != 2.0:
            from contracts.common import seed_chain
            ch = EnsembleSampler(posterior=post, starting_positions=ch.walker_positions.copy(), bounds=bounds, alpha=a_,
                                 display_progress=False)
            seed_chain(ch, seed)
        if steps:
            quiet(ch.advance, max(1, steps // 25))
    else:
        quiet(ch.advance, steps)
    cls = type(ch)
    tmp = tempfile.mkdtemp(prefix="c09_")
    path = os.path.join(tmp, "chain.npz")
    try:
        try:
            ch.save(path)
        except Exception as e:
            vc.inputs["error"] = f"{type(e).__name__}: {e}"[:200]
            vc.ensures("save_possible_at_any_point", False)
            return
        try:
            kwl = {"posterior": post}
            if k2 == "hmc":
                kwl["grad"] = post.grad
            re = cls.load(path, **kwl)
        except Exception as e:
            vc.inputs["error"] = f"{type(e).__name__}: {e}"[:200]
            vc.ensures("load_possible", False)
            return
    finally:
        try:
            os.remove(path)
            os.rmdir(tmp)
        except OSError:
            pass
    X0, P0 = stored_points(ch)
    try:
        X1, P1 = stored_points(re)
        same = X0.shape == X1.shape and np.array_equal(X0, X1) and np.array_equal(P0, P1)
        same = same and re.chain_length == ch.chain_length and re.n_parameters == ch.n_parameters
        if ch.__dict__.get("bounds") is not None:
            same = same and np.array_equal(re.bounds.lower, ch.bounds.lower) and np.array_equal(re.bounds.upper, ch.bounds.upper)
        if hasattr(ch, "inv_temp"):
            same = same and re.inv_temp == ch.inv_temp
        if hasattr(ch, "params"):
            for a, b in zip(ch.params, re.params):
                same = same and a.sigma == b.sigma and a.bounded == b.bounded and a.non_negative == b.non_negative \
                    and a.proposal.__name__ == b.proposal.__name__ and a.chk_int == b.chk_int and a.try_count == b.try_count
        if hasattr(ch, "ES"):
            same = same and re.ES.epsilon == ch.ES.epsilon and re.ES.chk_int == ch.ES.chk_int and re.steps == ch.steps
            same = same and np.array_equal(np.asarray(re.mass.inv_mass, dtype=float), np.asarray(ch.mass.inv_mass, dtype=float))
        if k2 == "ensemble":
            same = same and np.array_equal(re.walker_positions, ch.walker_positions) and np.array_equal(re.walker_probs, ch.walker_probs)
    except Exception as e:
        vc.inputs["error"] = f"{type(e).__name__}: {e}"[:200]
        same = False
    vc.ensures("reloaded_state_equals_saved_state", bool(same))
    # read-outs
    try:
        b, t = (0, 1)
        ok = np.array_equal(re.get_probabilities(burn=b, thin=t), ch.get_probabilities(burn=b, thin=t)) if len(P0) else True
        if len(P0):
            ok = ok and np.array_equal(re.get_sample(burn=b, thin=t), ch.get_sample(burn=b, thin=t))
            ok = ok and np.array_equal(re.get_parameter(0, burn=b, thin=t), ch.get_parameter(0, burn=b, thin=t))
            ok = ok and np.array_equal(np.asarray(re.mode()), np.asarray(ch.mode()))
    except Exception as e:
        vc.inputs["error"] = f"readout {type(e).__name__}: {e}"[:200]
        ok = False
    vc.ensures("same_readouts", bool(ok))
    # continuation with the generator states copied at the moment of saving
    try:
        _copy_rng_states(ch, re)
        m = 3 if k2 == "ensemble" else 30
        quiet(re.advance, m)
        quiet(ch.advance, m)
        Xa, Pa = stored_points(ch)
        Xb, Pb = stored_points(re)
        cont = Xa.shape == Xb.shape and np.array_equal(Xa, Xb) and np.array_equal(Pa, Pb) and ch.chain_length == re.chain_length
    except Exception as e:
        vc.inputs["error"] = f"continue {type(e).__name__}: {e}"[:200]
        cont = False
    vc.ensures("identical_continuation", bool(cont))
    if steps >= 100 and k2 != "ensemble" and seed % 4 == 0:
        try:
            re.plot_diagnostics(show=False)
            re.trace_plot(show=False)
            pl = True
        except Exception as e:
            vc.inputs["error"] = f"plot {type(e).__name__}: {e}"[:200]
            pl = False
        vc.ensures("plots_available_after_reload", pl)


# ================================================================================================
# proof layer: save() -> load() restores every attribute that a further step or a read-out reads
# ================================================================================================
import ast
import z3
from pyvc import sym as S
from pyvc.sym import Sym, Unsupported, ctx
from pyvc.tensor import Tensor, SymList
from pyvc.interp import SymObj, BoundMethod, FuncVal
from pyvc.objlist import PosteriorGhost

GIBBS = "inference.mcmc.gibbs"

# attributes that are, by design, not written to the file: supplied again by the caller of load(), or re-created
NOT_PERSISTED = {"posterior", "rng", "ProgressPrinter", "grad", "print_status"}


def _fresh_value(v, name):
    """an arbitrary value of the same kind as v (the state after an arbitrary history has the same kinds of fields)"""
    c = ctx()
    if isinstance(v, bool) or v is None or isinstance(v, str):
        return v
    if isinstance(v, int):
        return Sym(c.fresh(name, "Int"))
    if isinstance(v, float):
        return Sym(c.fresh(name, "Real"))
    if isinstance(v, Sym):
        return Sym(c.fresh(name, "Bool" if v.is_bool else "Int" if v.is_int else "Real"))
    if isinstance(v, (list, SymList)):
        n = c.fresh(name + "_len", "Int")
        c.defs.append(n >= 1)
        c.mark_nonneg(n)
        ints = isinstance(v, list) and v and all(isinstance(e, int) or (isinstance(e, Sym) and e.is_int) for e in v)
        f = z3.Function(str(c.fresh(name, "Int")) + "_l", z3.IntSort(), z3.IntSort() if ints else z3.RealSort())
        return SymList(Sym(n), lambda i: Sym(f(S.z(i))))
    if isinstance(v, Tensor):
        f = z3.Function(str(c.fresh(name, "Int")) + "_t", *([z3.IntSort()] * v.ndim), z3.RealSort())
        return Tensor(v.shape, lambda *idx: Sym(f(*[S.z(i) for i in idx])))
    return v


STRUCTURAL = {"n_parameters", "n_walkers", "n_variables"}      # sizes of the object lists / arrays: kept as built


def assigned_outside_init(cls):
    """attributes of `self` stored by any method other than __init__ (of the class or a base): the state that a history
    of calls can change; everything else keeps the value the constructor gave it"""
    out = set()
    for c in cls.mro():
        for name, fv in c.attrs.items():
            if not isinstance(fv, FuncVal) or name == "__init__":
                continue
            node = fv.node
            selfname = node.args.args[0].arg if getattr(node, "args", None) and node.args.args else "self"
            for n in ast.walk(node):
                if isinstance(n, ast.Attribute) and isinstance(n.value, ast.Name) and n.value.id == selfname \
                        and isinstance(n.ctx, (ast.Store, ast.Del)):
                    out.add(n.attr)
                # in-place growth of a list / array attribute: self.x.append(...), self.x[...] = ..., self.x += ...
                if isinstance(n, ast.Call) and isinstance(n.func, ast.Attribute) and isinstance(n.func.value, ast.Attribute) \
                        and isinstance(n.func.value.value, ast.Name) and n.func.value.value.id == selfname:
                    out.add(n.func.value.attr)
                if isinstance(n, ast.Subscript) and isinstance(n.ctx, ast.Store) and isinstance(n.value, ast.Attribute) \
                        and isinstance(n.value.value, ast.Name) and n.value.value.id == selfname:
                    out.add(n.value.attr)
                if isinstance(n, ast.AugAssign) and isinstance(n.target, ast.Attribute) and isinstance(n.target.value, ast.Name) \
                        and n.target.value.id == selfname:
                    out.add(n.target.attr)
    return out


def generalise(obj, prefix="f"):
    mutable = assigned_outside_init(obj.cls) | {"inv_temp", "display_progress"}      # (constructor arguments too)
    for k, v in list(obj.fields.items()):
        if k not in mutable and not (isinstance(v, list) and v and all(isinstance(e, SymObj) for e in v)):
            continue
        if k in NOT_PERSISTED or k in STRUCTURAL or isinstance(v, (BoundMethod, FuncVal)) or callable(v):
            continue
        if isinstance(v, list) and v and all(isinstance(e, SymObj) for e in v):
            for i, e in enumerate(v):
                generalise(e, f"{prefix}_{k}{i}")
            continue
        if isinstance(v, SymObj):
            continue
        obj.fields[k] = _fresh_value(v, f"{prefix}_{k}")


class FileStore:
    """numpy.savez(name, **items) / numpy.load(name): what is stored is what is read back, each value as an array
    (lists become arrays, scalars 0-d arrays) -- the assumed contract of the .npz round trip"""

    def __init__(self):
        self.files = {}

    def savez(self, filename, **items):
        self.files[filename] = dict(items)

    def load(self, filename):
        if filename not in self.files:
            raise Unsupported("load of a file that was not saved in this contract")
        out = {}
        from pyvc import npmodel as N_
        for k, v in self.files[filename].items():
            if isinstance(v, (SymList, list)):
                v = N_.to_tensor(v, fresh=True) if (isinstance(v, SymList) or v) else Tensor((0,), lambda i: 0.0)
            elif isinstance(v, (int, float, Sym)) and not isinstance(v, bool) and not (isinstance(v, Sym) and v.is_bool):
                v = Tensor((), lambda v=v: v)          # scalars come back as 0-d arrays
            out[k] = v
        return out


def same_value(vc, name, a, b):
    """the reloaded attribute equals the saved one (element-wise for sequences)"""
    if isinstance(a, (BoundMethod, FuncVal)) or isinstance(b, (BoundMethod, FuncVal)):
        fa = a.func.qualname if isinstance(a, BoundMethod) else getattr(a, "qualname", None)
        fb = b.func.qualname if isinstance(b, BoundMethod) else getattr(b, "qualname", None)
        vc.ensures(name, fa == fb)
        return
    if isinstance(a, Tensor) and a.ndim == 0:
        a = a.at()
    if isinstance(b, Tensor) and b.ndim == 0:
        b = b.at()
    seq = (list, SymList, Tensor)
    if isinstance(a, seq) or isinstance(b, seq):
        if not (isinstance(a, seq) and isinstance(b, seq)):
            vc.ensures(name, False)
            return
        la = a.length() if isinstance(a, SymList) else (a.shape[0] if isinstance(a, Tensor) else len(a))
        lb = b.length() if isinstance(b, SymList) else (b.shape[0] if isinstance(b, Tensor) else len(b))
        at = lambda x, i: x.at(i) if isinstance(x, (SymList, Tensor)) else vc.I.iter_at(x, i)
        if isinstance(a, Tensor) and isinstance(b, Tensor) and a.ndim == 2 and b.ndim == 2:
            vc.ensures(name + ".shape", S.And(S.cmp("==", a.shape[0], b.shape[0]), S.cmp("==", a.shape[1], b.shape[1])))
            vc.ensures_forall(name, (a.shape[0], a.shape[1]), lambda i, j: S.cmp("==", a.at(i, j), b.at(i, j)))
            return
        vc.ensures(name + ".length", S.cmp("==", la, lb))
        from pyvc.sym import unwrap as _uw
        if isinstance(_uw(la), int) and isinstance(_uw(lb), int):
            if _uw(la) == _uw(lb):
                for i in range(_uw(la)):
                    vc.ensures(name, S.cmp("==", at(a, i), at(b, i)))
            return
        if (isinstance(a, list) and not a) or (isinstance(b, list) and not b):
            return                        # one side is the empty list: equal lengths is all there is to say
        vc.ensures_forall(name, la, lambda i: S.cmp("==", at(a, i), at(b, i)))
        return
    if a is None or b is None or isinstance(a, str) or isinstance(b, str):
        vc.ensures(name, a == b if not (a is None or b is None) else a is b)
        return
    vc.ensures(name, S.cmp("==", a, b))




def static_reads(vc, classes, entries):
    """read set by a walk over the real AST: every `self.<attr>` loaded in the entry methods and in every method of the
    listed classes reachable from them through `<anything>.<method>(...)` calls; returns {class name: {attr, ...}}.
    (An over-approximation of what a further step / a read-out can read; attributes that are methods are dropped by
    the caller.)"""
    methods = {}
    for cls in classes:
        for c in cls.mro():
            for name, fv in c.attrs.items():
                if isinstance(fv, FuncVal) and (cls.name, name) not in methods:
                    methods[(cls.name, name)] = fv
    by_name = {}
    for (cn, mn), fv in methods.items():
        by_name.setdefault(mn, []).append((cn, fv))
    reads = {cls.name: set() for cls in classes}
    todo = [(classes[0].name, e) for e in entries]
    seen = set()
    while todo:
        cn, mn = todo.pop()
        if (cn, mn) in seen or (cn, mn) not in methods:
            continue
        seen.add((cn, mn))
        node = methods[(cn, mn)].node
        selfname = node.args.args[0].arg if getattr(node, "args", None) and node.args.args else "self"
        for n in ast.walk(node):
            if isinstance(n, ast.Attribute) and isinstance(n.value, ast.Name) and n.value.id == selfname:
                if isinstance(n.ctx, ast.Load):
                    reads[cn].add(n.attr)
                    if (cn, n.attr) in methods:
                        todo.append((cn, n.attr))
            if isinstance(n, ast.Call) and isinstance(n.func, ast.Attribute):
                for (c2, fv) in by_name.get(n.func.attr, []):
                    todo.append((c2, n.func.attr))
            if isinstance(n, ast.Attribute) and not (isinstance(n.value, ast.Name) and n.value.id == selfname):
                # attribute of another object (a Parameter in a loop, self.bounds.lower ...): attribute names that are
                # instance data of a listed class are counted for that class
                for cls in classes:
                    if cls.name != cn and isinstance(n.ctx, ast.Load):
                        reads[cls.name].add(n.attr)
    return reads


def check_roundtrip(vc, original, loaded, reads, what):
    """every instance attribute in the read set is present on the reloaded object and equal"""
    names = sorted(a for a in reads if a in original.fields and a not in NOT_PERSISTED)
    vc.note(f"{what}: compared {names}")
    for a in names:
        if a not in loaded.fields:
            vc.ensures(f"{what}.{a}.restored", False)
            continue
        va, vb = original.fields[a], loaded.fields[a]
        if isinstance(va, list) and va and all(isinstance(e, SymObj) for e in va):
            continue          # lists of objects are compared object by object by the caller
        if isinstance(va, SymObj):
            continue
        try:
            same_value(vc, f"{what}.{a}.restored", va, vb)
        except Unsupported as e:
            raise Unsupported(f"{what}.{a}: {e} ({type(va).__name__} vs {type(vb).__name__})")
    return names


@contract("C09", "gibbs_roundtrip", native=False, replay_with="roundtrip_native")
def gibbs_roundtrip(vc):
    """GibbsChain / PcaChain share Parameter and MetropolisChain.save/load: after save -> load every attribute a
    further step or a read-out reads is restored (d in {1, 2}; any history: field values are arbitrary)"""
    store = FileStore()
    vc.I.models["numpy.savez"] = store.savez
    vc.I.models["numpy.load"] = store.load
    d = vc.choice("d", [1, 2])
    post = PosteriorGhost()
    start = vc.vector("start", d)
    widths = vc.vector("widths", d, pos=True)
    T = vc.real("temperature", pos=True)
    chain = vc.new(GIBBS, "GibbsChain", posterior=post, start=start, widths=widths, temperature=T, display_progress=False)
    limits = vc.choice("limits_on_parameter_0", ["none", "boundaries", "non_negative", "both"])
    if limits in ("boundaries", "both"):
        lo = vc.real("lower")
        vc.call(chain, "set_boundaries", 0, (lo, S.add(lo, vc.real("width", pos=True))))
    if limits in ("non_negative", "both"):
        vc.call(chain, "set_non_negative", 0, True)
    generalise(chain)
    Chain, Param = vc.cls(GIBBS, "GibbsChain"), vc.cls(GIBBS, "Parameter")
    reads = static_reads(vc, [Chain, Param], ["take_step", "get_parameter", "get_probabilities", "get_last", "get_sample",
                                             "set_boundaries", "set_non_negative", "save"])
    vc.call(chain, "save", "file.npz")
    loaded = vc.call(Chain, "load", "file.npz", posterior=post)
    got = check_roundtrip(vc, chain, loaded, reads["GibbsChain"], "chain")
    vc.ensures("chain_attributes_compared", len(got) >= 4)
    P0, P1 = vc.attr(chain, "params"), vc.attr(loaded, "params")
    vc.ensures("same_number_of_parameters", len(P1) == len(P0))
    for i in range(min(len(P0), len(P1))):
        gp = check_roundtrip(vc, P0[i], P1[i], reads["Parameter"], f"parameter")
        vc.ensures("parameter_attributes_compared", len(gp) >= 15)
    vc.ensures("posterior_is_the_one_supplied", vc.attr(loaded, "posterior") is post)


PCA = "inference.mcmc.pca"


def _vec(name, d):
    c = ctx()
    f = z3.Function(str(c.fresh(name, "Int")) + "_v", z3.IntSort(), z3.RealSort())
    return Tensor((d,), lambda i: Sym(f(S.z(i))))


def _mat(name, r, cc):
    c = ctx()
    f = z3.Function(str(c.fresh(name, "Int")) + "_m", z3.IntSort(), z3.IntSort(), z3.RealSort())
    return Tensor((r, cc), lambda i, j: Sym(f(S.z(i), S.z(j))))


def _list_of_vectors(name, n, d):
    c = ctx()
    f = z3.Function(str(c.fresh(name, "Int")) + "_lv", z3.IntSort(), z3.IntSort(), z3.RealSort())
    return SymList(n, lambda i: Tensor((d,), lambda j, i=i: Sym(f(S.z(i), S.z(j)))))


def same_vector_list(vc, name, a, b, d):
    la = a.length() if isinstance(a, SymList) else len(a)
    lb = b.length() if isinstance(b, SymList) else len(b)
    vc.ensures(name + ".length", S.cmp("==", la, lb))
    if (isinstance(a, list) and not a) or (isinstance(b, list) and not b):
        return
    at = lambda x, i: x.at(i) if isinstance(x, SymList) else vc.I.iter_at(x, i)
    vc.ensures_forall(name, (la, d), lambda i, j: S.cmp("==", at(a, i).at(j), at(b, i).at(j)))


@contract("C09", "pca_roundtrip", native=False, replay_with="roundtrip_native")
def pca_roundtrip(vc):
    """PcaChain: as gibbs_roundtrip, plus the direction set, its update schedule and history, the running covariance (when
    it exists) and the bounds"""
    store = FileStore()
    vc.I.models["numpy.savez"] = store.savez
    vc.I.models["numpy.load"] = store.load
    d = vc.choice("d", [1, 2])
    post = PosteriorGhost()
    start = vc.vector("start", d)
    widths = vc.vector("widths", d, pos=True)
    bounded_ = vc.choice("bounds", [False, True])
    has_covar = vc.choice("covariance_estimated", [False, True])
    kw = {}
    if bounded_:
        lo = vc.vector("lower", d)
        up = lo + vc.vector("gap", d, pos=True)
        vc.assume_forall(d, lambda i: S.And(S.cmp("<=", lo.at(i), start.at(i)), S.cmp("<=", start.at(i), up.at(i))))
        kw["bounds"] = (lo, up)
    with vc.raising_allowed():
        chain = vc.new(PCA, "PcaChain", posterior=post, start=start, widths=widths, display_progress=False, **kw)
    generalise(chain)
    H = vc.int("n_direction_updates", lo=0)
    chain.fields["directions"] = [_vec(f"dir{i}", d) for i in range(d)]
    chain.fields["angles_history"] = _list_of_vectors("angles", H, d)
    c = ctx()
    uh = z3.Function("update_hist", z3.IntSort(), z3.IntSort())
    chain.fields["update_history"] = SymList(H, lambda i: Sym(uh(S.z(i))))
    if has_covar:
        chain.fields["covar"] = _mat("covar", d, d)
    Chain, Param = vc.cls(PCA, "PcaChain"), vc.cls(GIBBS, "Parameter")
    reads = static_reads(vc, [Chain, Param], ["take_step", "update_directions", "get_parameter", "get_probabilities", "get_last",
                                             "get_sample", "save"])
    vc.call(chain, "save", "file.npz")
    loaded = vc.call(Chain, "load", "file.npz", posterior=post)
    skip = {"directions", "angles_history", "covar", "bounds", "process_proposal"}
    got = check_roundtrip(vc, chain, loaded, reads["PcaChain"] - skip, "chain")
    vc.ensures("chain_attributes_compared", len(got) >= 8)
    same_vector_list(vc, "chain.directions.restored", chain.fields["directions"], loaded.fields["directions"], d)
    same_vector_list(vc, "chain.angles_history.restored", chain.fields["angles_history"], loaded.fields["angles_history"], d)
    if has_covar:
        vc.ensures("chain.covar.restored.present", "covar" in loaded.fields)
        if "covar" in loaded.fields:
            same_value(vc, "chain.covar.restored", chain.fields["covar"], loaded.fields["covar"])
    else:
        vc.ensures("chain.covar.absent_stays_absent", "covar" not in loaded.fields)
    b0, b1 = chain.fields.get("bounds"), loaded.fields.get("bounds")
    vc.ensures("chain.bounds.restored.presence", (b0 is None) == (b1 is None))
    if b0 is not None and b1 is not None:
        same_value(vc, "chain.bounds.lower.restored", vc.attr(b0, "lower"), vc.attr(b1, "lower"))
        same_value(vc, "chain.bounds.upper.restored", vc.attr(b0, "upper"), vc.attr(b1, "upper"))
    same_value(vc, "chain.process_proposal.restored", chain.fields["process_proposal"], loaded.fields["process_proposal"])
    P0, P1 = vc.attr(chain, "params"), vc.attr(loaded, "params")
    vc.ensures("same_number_of_parameters", len(P1) == len(P0))
    for i in range(min(len(P0), len(P1))):
        check_roundtrip(vc, P0[i], P1[i], reads["Parameter"], "parameter")


HMC = "inference.mcmc.hmc"
EPS = "inference.mcmc.hmc.epsilon"


@contract("C09", "hmc_roundtrip", native=False, replay_with="roundtrip_native")
def hmc_roundtrip(vc):
    """HamiltonianChain: samples, log-probabilities, step counts, temperature, bounds, the mass (scalar or one value per
    parameter) and every field of the step-size selector survive save -> load"""
    store = FileStore()
    vc.I.models["numpy.savez"] = store.savez
    vc.I.models["numpy.load"] = store.load
    d = vc.choice("d", [1, 2])
    post = PosteriorGhost()
    start = vc.vector("start", d)
    bounded_ = vc.choice("bounds", [False, True])
    mass_kind = vc.choice("mass", ["default", "vector"])
    kw = {}
    if bounded_:
        lo = vc.vector("lower", d)
        up = lo + vc.vector("gap", d, pos=True)
        vc.assume_forall(d, lambda i: S.And(S.cmp("<=", lo.at(i), start.at(i)), S.cmp("<=", start.at(i), up.at(i))))
        kw["bounds"] = (lo, up)
    if mass_kind == "vector":
        kw["inverse_mass"] = vc.vector("inverse_mass", d, pos=True)
    T = vc.real("temperature", pos=True)
    grad = vc.ghost("grad", lambda x: x)
    with vc.raising_allowed():
        chain = vc.new(HMC, "HamiltonianChain", posterior=post, start=start, grad=grad, epsilon=vc.real("epsilon", pos=True),
                       temperature=T, display_progress=False, **kw)
    N = vc.int("chain_len", lo=1)
    keep = {k: chain.fields[k] for k in ("mass", "ES", "bounds", "run_leapfrog", "grad", "inv_temp") if k in chain.fields}
    generalise(chain)
    chain.fields.update(keep)
    chain.fields["theta"] = _list_of_vectors("theta", N, d)
    generalise(chain.fields["ES"], "es")
    Chain = vc.cls(HMC, "HamiltonianChain")
    ES = vc.cls(EPS, "EpsilonSelector")
    reads = static_reads(vc, [Chain, ES], ["take_step", "standard_leapfrog", "bounded_leapfrog", "get_parameter",
                                          "get_probabilities", "get_sample", "get_last", "save"])
    vc.call(chain, "save", "file.npz")
    with vc.raising_allowed():
        loaded = vc.call(Chain, "load", "file.npz", posterior=post, grad=grad)
    skip = {"theta", "mass", "ES", "bounds", "run_leapfrog", "grad", "kinetic_energy"}
    got = check_roundtrip(vc, chain, loaded, reads["HamiltonianChain"] - skip, "chain")
    vc.ensures("chain_attributes_compared", len(got) >= 6)
    same_vector_list(vc, "chain.theta.restored", chain.fields["theta"], loaded.fields["theta"], d)
    m0, m1 = chain.fields["mass"], loaded.fields.get("mass")
    vc.ensures("chain.mass.restored", m1 is not None)
    vc.ensures("chain.mass.same_kind", m1 is not None and m0.cls.name == m1.cls.name)
    if m1 is not None and m0.cls.name == m1.cls.name:
        for a in sorted(k for k in m0.fields if not callable(m0.fields[k])):
            if a in m1.fields:
                same_value(vc, f"chain.mass.{a}.restored", m0.fields[a], m1.fields[a])
            else:
                vc.ensures(f"chain.mass.{a}.restored", False)
    e0, e1 = chain.fields["ES"], loaded.fields.get("ES")
    vc.ensures("chain.step_size_selector.restored", e1 is not None)
    if e1 is None:
        return
    ge = check_roundtrip(vc, e0, e1, set(e0.fields), "step_size_selector")
    vc.ensures("selector_attributes_compared", len(ge) >= 8)
    b0, b1 = chain.fields.get("bounds"), loaded.fields.get("bounds")
    vc.ensures("chain.bounds.restored.presence", (b0 is None) == (b1 is None))
    if b0 is not None and b1 is not None:
        same_value(vc, "chain.bounds.lower.restored", vc.attr(b0, "lower"), vc.attr(b1, "lower"))
        same_value(vc, "chain.bounds.upper.restored", vc.attr(b0, "upper"), vc.attr(b1, "upper"))
    same_value(vc, "chain.run_leapfrog.restored", chain.fields["run_leapfrog"], loaded.fields["run_leapfrog"])


ENS = "inference.mcmc.ensemble"
UTIL = "inference.mcmc.utilities"


@contract("C09", "ensemble_roundtrip", native=False, replay_with="roundtrip_native")
def ensemble_roundtrip(vc):
    """EnsembleSampler (any number of walkers and iterations): walker positions and log-probabilities, counters,
    proposal statistics, stretch parameter, bounds and the retained sample survive save -> load"""
    store = FileStore()
    vc.I.models["numpy.savez"] = store.savez
    vc.I.models["numpy.load"] = store.load
    d = vc.choice("d", [1, 2])
    nw = vc.int("n_walkers", lo=2)
    it = vc.int("n_iterations", lo=0)
    bounded_ = vc.choice("bounds", [False, True])
    has_sample = vc.choice("sample_retained", [False, True])
    post = PosteriorGhost()
    alpha = vc.real("alpha")
    vc.assume(S.cmp(">", alpha, 1))
    c = ctx()
    tp = z3.Function("tp", z3.IntSort(), z3.IntSort(), z3.IntSort())
    fu = z3.Function("fu", z3.IntSort(), z3.IntSort())
    fields = dict(
        walker_positions=_mat("walker_positions", nw, d), walker_probs=_vec("walker_probs", nw), n_parameters=d, n_walkers=nw,
        n_iterations=it, chain_length=vc.int("chain_length", lo=0), alpha=alpha, max_attempts=vc.int("max_attempts", lo=1),
        display_progress=False, posterior=post,
        total_proposals=SymList(nw, lambda w: SymList(it, lambda t, w=w: Sym(tp(S.z(w), S.z(t))))),
        failed_updates=SymList(it, lambda t: Sym(fu(S.z(t)))),
        sample=None, sample_probs=None, bounds=None)
    if has_sample:
        K = vc.int("n_stored", lo=1)
        fields["sample"] = _mat("sample", K, d)
        fields["sample_probs"] = _vec("sample_probs", K)
    if bounded_:
        lo = vc.vector("lower", d)
        up = lo + vc.vector("gap", d, pos=True)
        fields["bounds"] = vc.new(UTIL, "Bounds", lower=lo, upper=up)
    # built by the real constructor (so that every derived constant, e.g. the stretch limits computed from alpha, is what
    # the constructor makes of its arguments), then given an arbitrary history
    for qn in ("EnsembleSampler.__validate_starting_positions", "EnsembleSampler._EnsembleSampler__validate_starting_positions"):
        vc.modular(qn, lambda I, func, args, kwargs: args[-1])
    ctor_kw = {"bounds": fields["bounds"]} if bounded_ else {}
    if bounded_:
        p0 = fields["walker_positions"]
        vc.assume_forall((nw, d), lambda w, j: S.And(S.cmp("<=", lo.at(j), p0.at(w, j)), S.cmp("<=", p0.at(w, j), up.at(j))))
    from pyvc.loops import LoopSpec
    vc.loop("EnsembleSampler.__init__", "for#0", LoopSpec(vc))      # (validation of each start point: no state carried)
    with vc.raising_allowed():
        sampler = vc.new(ENS, "EnsembleSampler", posterior=post, starting_positions=fields["walker_positions"], alpha=alpha,
                         display_progress=False, **ctor_kw)
    for k_, v_ in fields.items():
        if k_ not in ("posterior", "bounds", "alpha", "display_progress"):
            sampler.fields[k_] = v_
    fields = dict(sampler.fields)
    Cls = vc.cls(ENS, "EnsembleSampler")
    reads = static_reads(vc, [Cls], ["advance", "get_sample", "get_probabilities", "get_parameter", "save",
                                     "_EnsembleSampler__advance_all", "_EnsembleSampler__advance_walker", "_EnsembleSampler__proposal"])
    vc.call(sampler, "save", "file.npz")
    with vc.raising_allowed():
        loaded = vc.call(Cls, "load", "file.npz", posterior=post)
    skip = {"total_proposals", "bounds", "process_proposal", "sample", "sample_probs", "posterior", "rng", "ProgressPrinter"}
    got = check_roundtrip(vc, sampler, loaded, (reads["EnsembleSampler"] | set(fields)) - skip, "sampler")
    vc.ensures("sampler_attributes_compared", len(got) >= 9)
    t0, t1 = sampler.fields["total_proposals"], loaded.fields.get("total_proposals")
    vc.ensures("sampler.total_proposals.restored.present", t1 is not None)
    if t1 is not None and it is not None:
        l1 = t1.length() if isinstance(t1, SymList) else len(t1)
        vc.ensures("sampler.total_proposals.restored.walkers", S.cmp("==", l1, nw))
        at = lambda x, i: x.at(i) if isinstance(x, SymList) else vc.I.iter_at(x, i)
        def row_eq(w, t):
            r1 = at(t1, w)
            return S.cmp("==", r1.at(t) if isinstance(r1, (SymList, Tensor)) else vc.I.iter_at(r1, t), t0.at(w).at(t))
        vc.ensures_forall("sampler.total_proposals.restored", (nw, it), row_eq)
    for a in ("sample", "sample_probs"):
        v0, v1 = sampler.fields[a], loaded.fields.get(a)
        if v0 is None:
            vc.ensures(f"sampler.{a}.absent_stays_absent", v1 is None)
        else:
            vc.ensures(f"sampler.{a}.restored.present", v1 is not None)
            if v1 is not None:
                same_value(vc, f"sampler.{a}.restored", v0, v1)
    b0, b1 = sampler.fields.get("bounds"), loaded.fields.get("bounds")
    vc.ensures("sampler.bounds.restored.presence", (b0 is None) == (b1 is None))
    if b0 is not None and b1 is not None:
        same_value(vc, "sampler.bounds.lower.restored", vc.attr(b0, "lower"), vc.attr(b1, "lower"))
        same_value(vc, "sampler.bounds.upper.restored", vc.attr(b0, "upper"), vc.attr(b1, "upper"))
    pp = loaded.fields.get("process_proposal")
    want = "Bounds.reflect" if bounded_ else "EnsembleSampler.pass_through"
    qn = pp.func.qualname if isinstance(pp, BoundMethod) else getattr(pp, "qualname", None)      # (pass_through is static)
    vc.ensures("sampler.process_proposal.restored", qn == want)
