"""C09 -- a saved sampler reloads to an equivalent sampler that can continue."""
import os
import copy
import tempfile
import numpy as np
from pyvc.vc import contract, bounded


def _copy_rng_states(src, dst):
    if hasattr(src, "rng"):
        dst.rng = np.random.default_rng()
        dst.rng.bit_generator.state = copy.deepcopy(src.rng.bit_generator.state)
    for ps, pd in zip(getattr(src, "params", []) or [], getattr(dst, "params", []) or []):
        pd.rng = np.random.default_rng()
        pd.rng.bit_generator.state = copy.deepcopy(ps.rng.bit_generator.state)


@bounded("C09", "roundtrip_native", native_runs=36)
def roundtrip_native(vc):
    from contracts.common import Posterior, make_sampler, stored_points, quiet, seed_chain
    from inference.mcmc import GibbsChain, PcaChain, HamiltonianChain, EnsembleSampler
    kind = vc.choice("sampler", ["gibbs", "pca", "hmc", "hmc_mass", "ensemble"])
    d = vc.int("d", lo=1, hi=3)
    steps = vc.choice("steps_before_save", [0, 1, 99, 100, 101, 150])
    cfg = vc.choice("config", ["plain", "bounds", "temperature"])
    seed = vc.int("seed", lo=0, hi=10 ** 6)
    rng = np.random.default_rng(seed)
    post = Posterior("gauss", d, rng)
    bounds = (post.mu - 4.0, post.mu + 4.0) if cfg == "bounds" else None
    T = 2.0 if cfg == "temperature" and kind != "ensemble" else 1.0
    kw = {}
    k2 = kind
    if kind == "hmc_mass":
        k2 = "hmc"
        kw["inverse_mass"] = np.exp(rng.uniform(-0.5, 0.5, size=d)) if seed % 2 else (np.eye(d) * 1.3 + 0.1)
    ch = make_sampler(k2, post, d, rng, temperature=T, bounds=bounds, seed=seed, **kw)
    if k2 == "gibbs" and cfg == "bounds":
        pass
    if k2 == "gibbs" and cfg == "plain" and seed % 3 == 0:
        ch.params[0].samples[-1] = abs(ch.params[0].samples[-1])
        ch.probs[-1] = post.f(ch.get_last()) * ch.inv_temp
        ch.set_non_negative(0, True)
    if k2 == "ensemble":
        if steps:
            quiet(ch.advance, max(1, steps // 25))
    else:
        quiet(ch.advance, steps)
    cls = type(ch)
    tmp = tempfile.mkdtemp(prefix="c09_")
    path = os.path.join(tmp, "chain.npz")
    try:
        try:
            ch.save(path)
        except Exception as e:
            vc.inputs["error"] = f"{type(e).__name__}: {e}"[:200]
            vc.ensures("save_possible_at_any_point", False)
            return
        try:
            kwl = {"posterior": post}
            if k2 == "hmc":
                kwl["grad"] = post.grad
            re = cls.load(path, **kwl)
        except Exception as e:
            vc.inputs["error"] = f"{type(e).__name__}: {e}"[:200]
            vc.ensures("load_possible", False)
            return
    finally:
        try:
            os.remove(path)
            os.rmdir(tmp)
        except OSError:
            pass
    X0, P0 = stored_points(ch)
    try:
        X1, P1 = stored_points(re)
        same = X0.shape == X1.shape and np.array_equal(X0, X1) and np.array_equal(P0, P1)
        same = same and re.chain_length == ch.chain_length and re.n_parameters == ch.n_parameters
        if ch.__dict__.get("bounds") is not None:
            same = same and np.array_equal(re.bounds.lower, ch.bounds.lower) and np.array_equal(re.bounds.upper, ch.bounds.upper)
        if hasattr(ch, "inv_temp"):
            same = same and re.inv_temp == ch.inv_temp
        if hasattr(ch, "params"):
            for a, b in zip(ch.params, re.params):
                same = same and a.sigma == b.sigma and a.bounded == b.bounded and a.non_negative == b.non_negative \
                    and a.proposal.__name__ == b.proposal.__name__ and a.chk_int == b.chk_int and a.try_count == b.try_count
        if hasattr(ch, "ES"):
            same = same and re.ES.epsilon == ch.ES.epsilon and re.ES.chk_int == ch.ES.chk_int and re.steps == ch.steps
            same = same and np.array_equal(np.asarray(re.mass.inv_mass, dtype=float), np.asarray(ch.mass.inv_mass, dtype=float))
        if k2 == "ensemble":
            same = same and np.array_equal(re.walker_positions, ch.walker_positions) and np.array_equal(re.walker_probs, ch.walker_probs)
    except Exception as e:
        vc.inputs["error"] = f"{type(e).__name__}: {e}"[:200]
        same = False
    vc.ensures("reloaded_state_equals_saved_state", bool(same))
    # read-outs
    try:
        b, t = (0, 1)
        ok = np.array_equal(re.get_probabilities(burn=b, thin=t), ch.get_probabilities(burn=b, thin=t)) if len(P0) else True
        if len(P0):
            ok = ok and np.array_equal(re.get_sample(burn=b, thin=t), ch.get_sample(burn=b, thin=t))
            ok = ok and np.array_equal(re.get_parameter(0, burn=b, thin=t), ch.get_parameter(0, burn=b, thin=t))
            ok = ok and np.array_equal(np.asarray(re.mode()), np.asarray(ch.mode()))
    except Exception as e:
        vc.inputs["error"] = f"readout {type(e).__name__}: {e}"[:200]
        ok = False
    vc.ensures("same_readouts", bool(ok))
    # continuation with the generator states copied at the moment of saving
    try:
        _copy_rng_states(ch, re)
        m = 3 if k2 == "ensemble" else 30
        quiet(re.advance, m)
        quiet(ch.advance, m)
        Xa, Pa = stored_points(ch)
        Xb, Pb = stored_points(re)
        cont = Xa.shape == Xb.shape and np.array_equal(Xa, Xb) and np.array_equal(Pa, Pb) and ch.chain_length == re.chain_length
    except Exception as e:
        vc.inputs["error"] = f"continue {type(e).__name__}: {e}"[:200]
        cont = False
    vc.ensures("identical_continuation", bool(cont))
    if steps >= 100 and k2 != "ensemble" and seed % 4 == 0:
        try:
            re.plot_diagnostics(show=False)
            re.trace_plot(show=False)
            pl = True
        except Exception as e:
            vc.inputs["error"] = f"plot {type(e).__name__}: {e}"[:200]
            pl = False
        vc.ensures("plots_available_after_reload", pl)
