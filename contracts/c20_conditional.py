"""C20 -- conditional approximation evaluates and samples the true 1-D conditionals."""
import z3
from pyvc.vc import contract, bounded
from pyvc import sym as S
from pyvc.sym import Sym, ctx
from pyvc.tensor import Tensor
from pyvc.loops import LoopSpec

CND = "inference.approx.conditional"


# ---- the trapezium transform: inverse CDF of the linear density 1 + dh(2t - 1) on [0,1] -------------------------
@contract("C20", "trapezium_full")
def trapezium_full(vc):
    x = vc.real("x", lo=0.0, hi=1.0)
    dh = vc.real("dh", lo=-1.0, hi=1.0, sample=lambda r: r.choice([r.uniform(-1, 1), r.uniform(-1e-3, 1e-3), 1.0, -1.0, 0.5]))
    vc.assume(vc.Not(vc.eq(dh, 0)) if vc.mode == "sym" else abs(dh) > 1e-5)
    t = vc.callf(CND, "trapezium_full", x, dh)
    cdf = t + dh * (t * t - t)               # F(t) = integral of 1 + dh(2s - 1)
    vc.tol(rtol=1e-7, atol=1e-9)
    vc.ensures("inverts_the_cdf", vc.eq(cdf, x, scale=1.0))
    vc.ensures("stays_in_unit_interval", vc.And(vc.ge(t, 0, scale=1.0), vc.le(t, 1, scale=1.0)))


@contract("C20", "trapezium_near_zero")
def trapezium_near_zero(vc):
    x = vc.real("x", lo=0.0, hi=1.0)
    dh = vc.real("dh", lo=-1e-5, hi=1e-5)
    t = vc.callf(CND, "trapezium_near_zero", x, dh)
    cdf = t + dh * (t * t - t)
    vc.ensures("cdf_error_at_most_dh_squared", vc.And(vc.le(cdf - x, dh * dh + 1e-18), vc.le(x - cdf, dh * dh + 1e-18)))
    vc.ensures("stays_in_unit_interval", vc.And(vc.ge(t, -1e-15), vc.le(t, 1 + 1e-15)))


# ---- sampling a tabulated density -------------------------------------------------------------------------------------
class ChoiceRng:
    """module-level generator of inference.approx.conditional"""
    vc_attrs = ("choice", "random")

    def __init__(self, vc, n_samples):
        self.vc, self.n = vc, n_samples
        self.choice_call = None
        self.U = None

    def choice(self, a, size=None, p=None):
        c = ctx()
        f = z3.Function(str(c.fresh("cell", "Int")), z3.IntSort(), z3.IntSort())
        c.add_forall((size,), lambda s: z3.And(f(S.z(s)) >= 0, f(S.z(s)) < S.z(a)), "choice-range")
        self.choice_call = (a, size, p)

        def at(s):
            c.add_index_term(f(S.z(s)), a)
            c.mark_nonneg(f(S.z(s)))
            return Sym(f(S.z(s)))

        self.inds = Tensor((size,), at, dtype="int")
        return self.inds

    def random(self, size=None):
        c = ctx()
        f = z3.Function(str(c.fresh("uvec", "Int")), z3.IntSort(), z3.RealSort())
        c.add_forall((size,), lambda s: z3.And(f(S.z(s)) >= 0, f(S.z(s)) < 1), "u01")
        self.U = Tensor((size,), lambda s: Sym(f(S.z(s))))
        return self.U


@contract("C20", "piecewise_linear_sample", native=False, replay_with="conditionals_native")
def piecewise_linear_sample(vc):
    g = vc.int("grid_size", lo=2)
    ns = vc.int("n_samples", lo=1)
    x = vc.vector("x", g)                                       # any ascending grid, uniform or not
    vc.assume_forall((g, g), lambda a, b: S.Implies(a < b, x[a] < x[b]))
    pd = vc.vector("density", g, nonneg=True)
    rng = ChoiceRng(vc, ns)
    vc.I.load_module(CND).env["rng"] = rng
    c = vc.c
    # the transform is modular: its contract (trapezium_full / near_zero above) says the result lies in [0,1]
    tr = {}

    def transform(I, func, args, kwargs):
        u, dh = args
        f = z3.Function(str(c.fresh("tz", "Int")), z3.IntSort(), z3.RealSort())
        c.add_forall((ns,), lambda s: z3.And(f(S.z(s)) >= 0, f(S.z(s)) <= 1), "transform-range")
        tr["args"] = (u, dh)
        return Tensor((ns,), lambda s: Sym(f(S.z(s))))

    vc.modular("trapezium_transform", transform)
    k0 = vc.index("a_cell_with_mass", g - 1)                   # some cell carries mass (else nothing to normalise)
    vc.assume(pd[k0] + pd[k0 + 1] > 0)
    mass = lambda i: 0.5 * (pd[i] + pd[i + 1]) * (x[i + 1] - x[i])     # mass of the linear interpolant on cell i
    total = vc.sum(g - 1, mass)
    vc.assume(total > 0)        # lemma (assumed): a sum of non-negative cell masses with one positive term is positive
    out = vc.callf(CND, "piecewise_linear_sample", x, pd, ns)
    vc.ensures("cells_chosen_once_with_probabilities", rng.choice_call is not None and rng.choice_call[2] is not None)
    if rng.choice_call is None or rng.choice_call[2] is None:
        return
    a, size, p = rng.choice_call
    vc.ensures("one_choice_per_sample", S.And(S.cmp("==", a, g - 1), S.cmp("==", size, ns)))
    vc.ensures_forall("cell_probability_is_cell_mass", g - 1, lambda i: p[i] * total == mass(i))
    vc.ensures("transform_used", "args" in tr)
    if "args" not in tr:
        return
    u, dh = tr["args"]
    inds = rng.inds
    vc.ensures_forall("uniform_numbers_are_the_unit_draws", ns, lambda s: u[s] == rng.U[s])
    vc.ensures_forall("slope_is_normalised_slope_of_drawn_cell", ns,
                      lambda s: dh[s] * (pd[inds[s] + 1] + pd[inds[s]]) == pd[inds[s] + 1] - pd[inds[s]])
    vc.ensures_forall("sample_inside_its_cell", ns,
                      lambda s: S.And(out[s] >= x[inds[s]], out[s] <= x[inds[s] + 1]))
    vc.ensures_forall("sample_inside_grid", ns, lambda s: S.And(out[s] >= x[0], out[s] <= x[g - 1]))


# ---- the 1-D conditional through a point ----------------------------------------------------------------------------
@contract("C20", "conditional_slice", native=False, replay_with="conditionals_native")
def conditional_slice(vc):
    from pyvc.objlist import PosteriorGhost
    n = vc.int("n", lo=1)
    theta = vc.vector("theta", n)
    before = theta.copy()
    i = vc.index("variable_index", n)
    post = PosteriorGhost()
    C = vc.new(CND, "Conditional", posterior=post, theta=theta, variable_index=i)
    xv = vc.real("x")
    vc.call(C, "__call__", xv)
    calls = [e for e in vc.c.trace if e[0] == "posterior"]
    vc.ensures("one_posterior_evaluation", len(calls) == 1)
    if len(calls) != 1:
        return
    _, arr, snap, val = calls[0]
    vc.ensures_forall("evaluated_at_point_with_one_coordinate_replaced", n,
                      lambda j: snap[j] == S.ite(S.cmp("==", j, i), xv, before[j]))
    vc.unchanged("conditioning_point", theta, before)
    # the way get_conditionals uses it: the same object, switched to another variable, evaluated again -- no state of
    # the earlier evaluation may leak into the later one
    i2 = vc.index("second_variable_index", n)
    vc.setattr(C, "variable_index", i2)
    x2 = vc.real("x2")
    vc.call(C, "__call__", x2)
    calls = [e for e in vc.c.trace if e[0] == "posterior"]
    vc.ensures("second_evaluation", len(calls) == 2)
    if len(calls) == 2:
        snap2 = calls[1][2]
        vc.ensures_forall("second_evaluation_through_the_same_conditioning_point", n,
                          lambda j: snap2[j] == S.ite(S.cmp("==", j, i2), x2, before[j]))


class Bisect(LoopSpec):
    """search loops: the bracket end points stay inside the initial bracket"""

    def __init__(self, vc, name, lo, hi, names):
        super().__init__(vc)
        self.name, self.lo, self.hi, self.names = name, lo, hi, names
        self.fresh_locals = {names[2]: "real"}

    def invariant(self, I, fr, k):
        x1, x2 = fr.locals[self.names[0]], fr.locals[self.names[1]]
        inv = S.And(self.lo <= x1, x1 <= self.hi, self.lo <= x2, x2 <= self.hi)
        xn = fr.locals.get(self.names[2])
        if xn is not None:
            inv = S.And(inv, S.Implies(k >= 1, S.And(self.lo <= xn, xn <= self.hi)))
        return inv


def _search(vc, fname):
    a, w = vc.real("a"), vc.real("w", pos=True)
    b = a + w
    ya, yb, target = vc.real("ya"), vc.real("yb"), vc.real("target")
    vc.assume(S.Or(S.And(ya < target, target < yb), S.And(yb < target, target < ya)))
    func = vc.ghost("func", lambda x_: vc.fresh_real("fval"))
    f = vc.I.get_function(CND, fname)
    vc.loop(fname, "for#0", Bisect(vc, "bracket", a, b, ("x1", "x2", "x_new")))
    vc.divisions_defined()
    out = vc.callf(CND, fname, func, target, (a, b), (ya, yb))
    return a, b, out


@contract("C20", "binary_search_inside", native=False, replay_with="conditionals_native")
def binary_search_inside(vc):
    a, b, out = _search(vc, "binary_search")
    vc.ensures("result_inside_initial_bracket", S.And(a <= out, out <= b))


# ---------------------------------------------------------------------------------------------------
# bounded layer
# ---------------------------------------------------------------------------------------------------
import numpy as np


@bounded("C20", "sample_native", native_runs=30)
def sample_native(vc):
    """real piecewise_linear_sample on uniform and non-uniform grids with the generator intercepted: exact cell
    probabilities, inverse-CDF identity for every draw, samples inside their cell"""
    import inference.approx.conditional as C
    seed = vc.int("seed", lo=0, hi=10 ** 6)
    r = np.random.default_rng(seed)
    g = vc.int("grid_size", lo=2, hi=40)
    x = np.cumsum(10 ** r.uniform(-2, 1, size=g)) + r.normal() * 10 if seed % 2 else np.linspace(-1, 2, g) * 10 ** r.uniform(-3, 3)
    pd = np.abs(r.normal(size=g)) ** 2
    if seed % 3 == 0 and g > 4:
        pd[:2] = 0.0                # a flat zero tail
    ns = 500
    log = {}

    class Rng:
        def choice(self, a, size=None, p=None):
            log["p"] = np.array(p)
            log["inds"] = r.choice(a, size=size, p=p)
            return log["inds"]

        def random(self, size=None):
            log["u"] = r.random(size=size)
            return log["u"]

    saved = C.rng
    C.rng = Rng()
    try:
        with np.errstate(all="ignore"):
            out = C.piecewise_linear_sample(x, pd, ns)
    finally:
        C.rng = saved
    dx = np.diff(x)
    mass = 0.5 * (pd[1:] + pd[:-1]) * dx
    vc.ensures("cell_probability_is_cell_mass", bool(np.allclose(log["p"], mass / mass.sum(), rtol=1e-10, atol=1e-15)))
    i = log["inds"]
    t = (out - x[i]) / dx[i]
    vc.ensures("sample_inside_its_cell", bool(np.all(t >= -1e-12) and np.all(t <= 1 + 1e-12)))
    # inverse-CDF identity on each cell: the fraction of the cell's mass to the left of the sample equals the uniform draw
    a, b = pd[i], pd[i + 1]
    left = (a * t + 0.5 * (b - a) * t * t) / (0.5 * (a + b))
    vc.ensures("each_draw_inverts_its_cell_cdf", bool(np.allclose(left, log["u"], rtol=1e-6, atol=1e-8)))


@bounded("C20", "conditionals_native", native_runs=24)
def conditionals_native(vc):
    from inference.approx import get_conditionals, conditional_sample
    seed = vc.int("seed", lo=0, hi=10 ** 6)
    r = np.random.default_rng(seed)
    d = vc.int("d", lo=1, hi=3)
    kind = vc.choice("posterior", ["gauss", "corr", "skew", "student", "scaled", "offset", "narrow_far", "narrow_far"])
    mu = r.normal(size=d)
    sc = 10 ** r.uniform(-1, 1, size=d)
    if kind == "scaled":
        sc = sc * np.array([1e-3, 1e3, 1.0])[:d]
    if kind == "offset":
        mu = mu + 1e3
    if kind == "narrow_far":          # widths of 1e-9 .. 1e-7 of the location: far below any tolerance relative to the coordinate
        mu = r.uniform(100.0, 1000.0, size=d)
        sc = mu * 10 ** r.uniform(-9, -8.5, size=d)
    A = np.eye(d)
    if kind == "corr" and d > 1:
        M = r.normal(size=(d, d))
        A = M @ M.T / d + 0.5 * np.eye(d)

    offset = vc.choice("log_posterior_offset", [0.0, 0.0, -60.0, 350.0, -2000.0, 900.0, -1e5])     # un-normalised posteriors

    def post(th):
        return offset + post0(th)

    def post0(th):
        z = (np.asarray(th) - mu) / sc
        if kind == "skew":
            return float(-0.5 * np.sum(z * z) + np.sum(np.log1p(np.tanh(z) * 0.8 + 0.0)) if True else 0.0)
        if kind == "student":
            return float(-2.0 * np.sum(np.log1p(z * z / 3)))
        return float(-0.5 * z @ A @ z)

    wide = vc.choice("bounds_width_in_scales", [3.0, 30.0, 3e3, 1e5])      # (a conditional may be very narrow relative to the box)
    if kind == "narrow_far":
        wide = 1e5            # (the box is also enormous relative to the conditional: the search grid alone never sees the peak)
    w = wide * sc
    bounds = [(float(mu[i] - w[i] * r.uniform(0.5, 1)), float(mu[i] + w[i] * r.uniform(0.5, 1))) for i in range(d)]
    point = mu + 0.2 * sc * r.normal(size=d)
    point = np.array([min(max(point[i], bounds[i][0]), bounds[i][1]) for i in range(d)])
    if vc.bool("integer_conditioning_point") and bool(np.all(np.abs(mu) < 1e3)) and bool(np.all(sc > 0.3)):
        cand = np.round(point).astype(int)
        if all(bounds[i][0] <= cand[i] <= bounds[i][1] for i in range(d)):
            point = cand                     # a conditioning point that happens to be whole numbers, given as integers
    keep = point.copy()
    axes, prob = get_conditionals(post, bounds, point, grid_size=64)
    ok_in, ok_norm, ok_match, ok_cover = True, True, True, True
    for i in range(d):
        xs, ps = axes[:, i], prob[:, i]
        lo, hi = bounds[i]
        tol = 1e-9 * max(1.0, abs(lo), abs(hi))
        ok_in = ok_in and xs.min() >= lo - tol and xs.max() <= hi + tol and bool(np.all(np.diff(xs) > 0))
        ok_norm = ok_norm and bool(np.all(ps >= 0)) and abs(np.trapezoid(ps, xs) - 1.0) < 2e-2

        def line(v):
            t = np.array(point, dtype=float)
            t[i] = v
            return post(t)
        # reference on a fine grid over the part of the box that can carry mass (the whole box unless it is huge)
        f_lo, f_hi = (lo, hi) if wide <= 30.0 else (max(lo, mu[i] - 60 * sc[i]), min(hi, mu[i] + 60 * sc[i]))
        fine = np.linspace(f_lo, f_hi, 20001)
        lf = np.array([line(v) for v in fine])
        peak = lf.max()
        dens = np.exp(lf - peak)
        Z = np.trapezoid(dens, fine)
        true_on_grid = np.exp(np.array([line(v) for v in xs]) - peak) / Z
        ok_match = ok_match and bool(np.allclose(ps, true_on_grid, rtol=3e-2, atol=3e-3 * true_on_grid.max()))
        above = fine[lf > peak - 7.5]
        span = xs.max() - xs.min()
        ok_cover = ok_cover and above.min() >= xs.min() - 0.02 * span - tol and above.max() <= xs.max() + 0.02 * span + tol
    vc.ensures("grid_inside_bounds_ascending", bool(ok_in))
    vc.ensures("normalised_density", bool(ok_norm))
    vc.ensures("matches_true_conditional", bool(ok_match))
    vc.ensures("covers_high_density_region", bool(ok_cover))
    vc.ensures("conditioning_point_unchanged", bool(np.array_equal(point, keep)))
    smp = conditional_sample(post, bounds, point, n_samples=200)
    vc.ensures("samples_inside_bounds", smp.shape == (200, d) and all(
        smp[:, i].min() >= bounds[i][0] - 1e-9 * max(1, abs(bounds[i][0])) and smp[:, i].max() <= bounds[i][1] + 1e-9 * max(1, abs(bounds[i][1]))
        for i in range(d)))
