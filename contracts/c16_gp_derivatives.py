"""C16 -- GP derivative predictions are the derivatives of the GP prediction."""
import numpy as np
from pyvc.vc import contract, bounded


@bounded("C16", "derivatives_native", native_runs=30)
def derivatives_native(vc):
    from inference.gp import GpRegressor, SquaredExponential, ConstantMean, LinearMean, QuadraticMean
    from contracts.gp_common import hyperpars_for
    seed = vc.int("seed", lo=0, hi=10 ** 6)
    rng = np.random.default_rng(seed)
    d = vc.int("d", lo=1, hi=3)
    n = vc.int("n", lo=2, hi=12)
    x = rng.normal(size=(n, d)) * 1.5
    y = np.sin(x.sum(axis=1)) + 0.5 * x[:, 0] + 0.1 * rng.normal(size=n)
    M = [ConstantMean, LinearMean, QuadraticMean][vc.choice("mean", [0, 1, 2])]()
    K = SquaredExponential()
    K.pass_spatial_data(x)
    M.pass_spatial_data(x)
    theta = hyperpars_for(list(M.hyperpar_labels) + list(K.hyperpar_labels), rng, x)
    gp = GpRegressor(x, y, y_err=np.full(n, 0.05), kernel=K, mean=M, hyperpars=theta)
    m = int(rng.integers(1, 4))
    q = rng.normal(size=(m, d))
    h = 1e-5

    def fd(f, p):
        g = np.zeros(d)
        for c in range(d):
            e = np.zeros(d)
            e[c] = h
            g[c] = (-f(p + 2 * e) + 8 * f(p + e) - 8 * f(p - e) + f(p - 2 * e)) / (12 * h)
        return g

    mu_of = lambda p: gp(p[None, :])[0][0]
    var_of = lambda p: gp(p[None, :])[1][0] ** 2
    dmu_fd = np.array([fd(mu_of, q[k]) for k in range(m)])
    dvar_fd = np.array([fd(var_of, q[k]) for k in range(m)])
    qq = q if m > 1 or seed % 2 else q[0]                   # single points may be passed as 1-D arrays
    g_mean, g_cov = gp.gradient(qq)
    s_mean, s_var = gp.spatial_derivatives(qq)
    g_mean, s_mean, s_var = np.reshape(g_mean, (m, d)), np.reshape(s_mean, (m, d)), np.reshape(s_var, (m, d))
    g_cov = np.reshape(g_cov, (m, d, d))
    sc = max(1.0, float(np.abs(dmu_fd).max()))
    vc.ensures("gradient_mean_is_derivative_of_predictive_mean", bool(np.allclose(g_mean, dmu_fd, rtol=1e-5, atol=1e-6 * sc)))
    vc.ensures("spatial_derivative_mean_is_derivative_of_predictive_mean", bool(np.allclose(s_mean, dmu_fd, rtol=1e-5, atol=1e-6 * sc)))
    vc.ensures("variance_derivative_is_derivative_of_predictive_variance",
               bool(np.allclose(s_var, dvar_fd, rtol=1e-4, atol=1e-6 * max(1.0, float(np.abs(dvar_fd).max())))))
    # gradient covariance: prior gradient covariance (second mixed derivative of the kernel) minus the explained part
    a, L = np.exp(gp.cov_hyperpars[0]), np.exp(gp.cov_hyperpars[1:])
    ok_sym, ok_psd, ok_formula = True, True, True
    Kxx = gp.cov.build_covariance(gp.cov_hyperpars) + gp.sig
    for k in range(m):
        Cg = g_cov[k]
        ok_sym = ok_sym and np.allclose(Cg, Cg.T, rtol=1e-9, atol=1e-12)
        ok_psd = ok_psd and np.linalg.eigvalsh(0.5 * (Cg + Cg.T)).min() >= -1e-9 * max(1.0, np.trace(Cg))
        kq = gp.cov(q[k][None, :], x, gp.cov_hyperpars)[0]
        dk = ((x - q[k][None, :]) / L[None, :] ** 2) * kq[:, None]          # d k(q, x_i) / d q_c, shape (n, d)
        want = np.diag(a ** 2 / L ** 2) - dk.T @ np.linalg.solve(Kxx, dk)
        ok_formula = ok_formula and np.allclose(Cg, want, rtol=1e-6, atol=1e-8 * max(1.0, np.abs(want).max()))
    vc.ensures("gradient_covariance_symmetric", bool(ok_sym))
    vc.ensures("gradient_covariance_positive_semidefinite", bool(ok_psd))
    vc.ensures("gradient_covariance_is_prior_minus_explained", bool(ok_formula))
