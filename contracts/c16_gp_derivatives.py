"""C16 -- GP derivative predictions are the derivatives of the GP prediction."""
import numpy as np
from pyvc.vc import contract, bounded


@bounded("C16", "derivatives_native", native_runs=30)
def derivatives_native(vc):
    from inference.gp import GpRegressor, SquaredExponential, ConstantMean, LinearMean, QuadraticMean
    from contracts.gp_common import hyperpars_for
    seed = vc.int("seed", lo=0, hi=10 ** 6)
    rng = np.random.default_rng(seed)
    d = vc.int("d", lo=1, hi=3)
    n = vc.int("n", lo=2, hi=12)
    x = rng.normal(size=(n, d)) * 1.5
    y = np.sin(x.sum(axis=1)) + 0.5 * x[:, 0] + 0.1 * rng.normal(size=n)
    M = [ConstantMean, LinearMean, QuadraticMean][vc.choice("mean", [0, 1, 2])]()
    K = SquaredExponential()
    K.pass_spatial_data(x)
    M.pass_spatial_data(x)
    theta = hyperpars_for(list(M.hyperpar_labels) + list(K.hyperpar_labels), rng, x)
    gp = GpRegressor(x, y, y_err=np.full(n, 0.05), kernel=K, mean=M, hyperpars=theta)
    m = int(rng.integers(1, 4))
    q = rng.normal(size=(m, d))
    h = 1e-5

    def fd(f, p):
        g = np.zeros(d)
        for c in range(d):
            e = np.zeros(d)
            e[c] = h
            g[c] = (-f(p + 2 * e) + 8 * f(p + e) - 8 * f(p - e) + f(p - 2 * e)) / (12 * h)
        return g

    mu_of = lambda p: gp(p[None, :])[0][0]
    var_of = lambda p: gp(p[None, :])[1][0] ** 2
    dmu_fd = np.array([fd(mu_of, q[k]) for k in range(m)])
    dvar_fd = np.array([fd(var_of, q[k]) for k in range(m)])
    qq = q if m > 1 or seed % 2 else q[0]                   # single points may be passed as 1-D arrays
    g_mean, g_cov = gp.gradient(qq)
    s_mean, s_var = gp.spatial_derivatives(qq)
    g_mean, s_mean, s_var = np.reshape(g_mean, (m, d)), np.reshape(s_mean, (m, d)), np.reshape(s_var, (m, d))
    g_cov = np.reshape(g_cov, (m, d, d))
    # the predictions depend on the VALUES of the query points only: one buffer queried, moved in place, queried again -- and a
    # query does not change what later queries return
    qb = np.array(qq, dtype=float) + 0.25
    gp.gradient(qb), gp.spatial_derivatives(qb)
    qb[...] = qq
    g2, c2 = gp.gradient(qb)
    s2, v2 = gp.spatial_derivatives(qb)
    vc.ensures("query_buffer_moved_in_place", bool(np.array_equal(np.reshape(g2, (m, d)), g_mean) and np.array_equal(np.reshape(c2, (m, d, d)), g_cov)
                                                   and np.array_equal(np.reshape(s2, (m, d)), s_mean) and np.array_equal(np.reshape(v2, (m, d)), s_var)))
    sc = max(1.0, float(np.abs(dmu_fd).max()))
    vc.ensures("gradient_mean_is_derivative_of_predictive_mean", bool(np.allclose(g_mean, dmu_fd, rtol=1e-5, atol=1e-6 * sc)))
    vc.ensures("spatial_derivative_mean_is_derivative_of_predictive_mean", bool(np.allclose(s_mean, dmu_fd, rtol=1e-5, atol=1e-6 * sc)))
    vc.ensures("variance_derivative_is_derivative_of_predictive_variance",
               bool(np.allclose(s_var, dvar_fd, rtol=1e-4, atol=1e-6 * max(1.0, float(np.abs(dvar_fd).max())))))
    # gradient covariance: prior gradient covariance (second mixed derivative of the kernel) minus the explained part
    a, L = np.exp(gp.cov_hyperpars[0]), np.exp(gp.cov_hyperpars[1:])
    ok_sym, ok_psd, ok_formula = True, True, True
    Kxx = gp.cov.build_covariance(gp.cov_hyperpars) + gp.sig
    for k in range(m):
        Cg = g_cov[k]
        ok_sym = ok_sym and np.allclose(Cg, Cg.T, rtol=1e-9, atol=1e-12)
        ok_psd = ok_psd and np.linalg.eigvalsh(0.5 * (Cg + Cg.T)).min() >= -1e-9 * max(1.0, np.trace(Cg))
        kq = gp.cov(q[k][None, :], x, gp.cov_hyperpars)[0]
        dk = ((x - q[k][None, :]) / L[None, :] ** 2) * kq[:, None]          # d k(q, x_i) / d q_c, shape (n, d)
        want = np.diag(a ** 2 / L ** 2) - dk.T @ np.linalg.solve(Kxx, dk)
        ok_formula = ok_formula and np.allclose(Cg, want, rtol=1e-6, atol=1e-8 * max(1.0, np.abs(want).max()))
    vc.ensures("gradient_covariance_symmetric", bool(ok_sym))
    vc.ensures("gradient_covariance_positive_semidefinite", bool(ok_psd))
    vc.ensures("gradient_covariance_is_prior_minus_explained", bool(ok_formula))


@bounded("C16", "derivatives_any_kernel_native", native_runs=16)
def derivatives_any_kernel_native(vc):
    """every covariance function for which gradient() / spatial_derivatives() RETURN a result (rather than refusing with
    NotImplementedError) returns the derivative of the regressor's own predictions: sums of kernels, kernels plus noise,
    rational-quadratic and change-point kernels (reference: finite differences of __call__)"""
    from inference.gp import GpRegressor, SquaredExponential, RationalQuadratic, WhiteNoise, ChangePoint, ConstantMean
    from contracts.gp_common import hyperpars_for
    seed = vc.int("seed", lo=0, hi=10 ** 6)
    rng = np.random.default_rng(seed)
    d = vc.int("d", lo=1, hi=2)
    n = vc.int("n", lo=3, hi=10)
    kind = vc.choice("kernel", ["se+se", "se+noise", "rq", "se+rq", "changepoint", "se+se+noise"])
    x = rng.normal(size=(n, d)) * 1.5
    y = np.sin(x.sum(axis=1)) + 0.5 * x[:, 0] + 0.1 * rng.normal(size=n)
    K = {"se+se": lambda: SquaredExponential() + SquaredExponential(), "se+noise": lambda: SquaredExponential() + WhiteNoise(),
         "rq": lambda: RationalQuadratic(), "se+rq": lambda: SquaredExponential() + RationalQuadratic(),
         "changepoint": lambda: ChangePoint(kernels=[SquaredExponential(), SquaredExponential()], axis=0),
         "se+se+noise": lambda: SquaredExponential() + SquaredExponential() + WhiteNoise()}[kind]()
    M = ConstantMean()
    K.pass_spatial_data(x)
    M.pass_spatial_data(x)
    theta = hyperpars_for(list(M.hyperpar_labels) + list(K.hyperpar_labels), rng, x)
    gp = GpRegressor(x, y, y_err=np.full(n, 0.05), kernel=K, mean=M, hyperpars=theta)
    q = rng.normal(size=(2, d))
    h = 1e-5

    def fd(f, p):
        g = np.zeros(d)
        for c in range(d):
            e = np.zeros(d)
            e[c] = h
            g[c] = (-f(p + 2 * e) + 8 * f(p + e) - 8 * f(p - e) + f(p - 2 * e)) / (12 * h)
        return g

    mu_of = lambda p: gp(p[None, :])[0][0]
    var_of = lambda p: gp(p[None, :])[1][0] ** 2
    dmu_fd = np.array([fd(mu_of, q[k]) for k in range(2)])
    dvar_fd = np.array([fd(var_of, q[k]) for k in range(2)])
    sc = max(1.0, float(np.abs(dmu_fd).max()))
    ok_g = ok_s = ok_v = ok_psd = True
    try:
        g_mean, g_cov = gp.gradient(q)
        ok_g = bool(np.allclose(np.reshape(g_mean, (2, d)), dmu_fd, rtol=1e-5, atol=1e-6 * sc))
        for Cg in np.reshape(g_cov, (2, d, d)):
            ok_psd = ok_psd and bool(np.linalg.eigvalsh(0.5 * (Cg + Cg.T)).min() >= -1e-9 * max(1.0, abs(np.trace(Cg))))
    except NotImplementedError:
        pass
    try:
        s_mean, s_var = gp.spatial_derivatives(q)
        ok_s = bool(np.allclose(np.reshape(s_mean, (2, d)), dmu_fd, rtol=1e-5, atol=1e-6 * sc))
        ok_v = bool(np.allclose(np.reshape(s_var, (2, d)), dvar_fd, rtol=1e-4, atol=1e-6 * max(1.0, float(np.abs(dvar_fd).max()))))
    except NotImplementedError:
        pass
    vc.ensures("gradient_mean_is_derivative_of_predictive_mean_or_refused", ok_g)
    vc.ensures("gradient_covariance_positive_semidefinite_or_refused", ok_psd)
    vc.ensures("spatial_derivative_mean_is_derivative_of_predictive_mean_or_refused", ok_s)
    vc.ensures("variance_derivative_is_derivative_of_predictive_variance_or_refused", ok_v)


# ================================================================================================
# proof layer
# ================================================================================================
import ast
import z3
from pyvc import sym as S
from pyvc.sym import Sym, Unsupported
from pyvc.tensor import Tensor, SymList
from pyvc import matalg as M
from pyvc.diff import derivative

REG = "inference.gp.regression"
COV = "inference.gp.covariance"
MEAN = "inference.gp.mean"


def _names(func):
    loop = [n for n in ast.walk(func.node) if isinstance(n, ast.For)][0]
    return [n.func.value.id for n in ast.walk(loop) if isinstance(n, ast.Call) and isinstance(n.func, ast.Attribute)
            and n.func.attr == "append" and isinstance(n.func.value, ast.Name)]


def _jac(st, t):
    """J_t = A_t Diag(k(p_t, x)):  J[c, j] = d k(p_t, x_j) / d p_t,c   (kernel contract of gradient_terms)"""
    A = M.atom("A", st.d, st.n, params=(t,))
    kq = M.selector(t, st.m) @ st.Kqx                    # 1 x n
    return A * kq


@contract("C16", "gradient_predictions", native=False, replay_with="derivatives_native")
def gradient_predictions(vc):
    """gradient(): for every query point the mean is J alpha + dm/dq (the derivative of the predictive mean
    K_qx alpha + m(q)) and the covariance is Diag(R) - J (K+S)^-1 J^T (prior gradient covariance minus the part
    explained by the data)"""
    from contracts.gp_matrix import GpState, MapLoop
    st = GpState(vc)
    gp = st.regressor()
    alpha = st.Ci @ st.r

    def exp_mean(t):
        tz = S.z(t)
        return _jac(st, tz) @ alpha[:, None] + M.atom("gm", st.d, params=(tz,))[:, None]

    def exp_cov(t):
        tz = S.z(t)
        J = _jac(st, tz)
        return M.mat_diag(M.atom("R", st.d, params=(tz,))) - J @ st.Ci @ J.T

    func = vc.I.get_function(REG, "GpRegressor.gradient")
    vc.loop("GpRegressor.gradient", "for#0", MapLoop(vc, st, _names(func), exp_mean, exp_cov))
    vc.assume(S.And(S.cmp(">=", st.m, 2), S.cmp(">=", st.d, 2)))       # (squeeze() of singleton axes: bounded layer)
    mu, cov = vc.call(gp, "gradient", st.points)
    vc.ensures("one_gradient_vector_and_covariance_matrix_per_point", vc.ndim(mu) == 2 and vc.ndim(cov) == 3)
    t, c_ = vc.index("t", st.m), vc.index("c", st.d)
    c2 = vc.index("c2", st.d)
    vc.ensures("returned_mean_entry", S.cmp("==", mu.at(t, c_), exp_mean(t).at(c_, 0)))
    vc.ensures("returned_covariance_entry", S.cmp("==", cov.at(t, c_, c2), exp_cov(t).at(c_, c2)))
    vc.ensures("covariance_symmetric", S.cmp("==", cov.at(t, c_, c2), cov.at(t, c2, c_)))


@contract("C16", "spatial_derivatives", native=False, replay_with="derivatives_native")
def spatial_derivatives(vc):
    """spatial_derivatives(): d/dq of the predictive mean K_qx alpha + m(q) is J alpha + dm/dq and d/dq of the
    predictive variance K_qq - K_qx C^-1 K_xq is -2 J C^-1 K_xq (K_qq does not depend on q for a stationary kernel)"""
    from contracts.gp_matrix import GpState, MapLoop
    st = GpState(vc)
    gp = st.regressor()
    alpha = st.Ci @ st.r

    def exp_mean(t):
        tz = S.z(t)
        return _jac(st, tz) @ alpha[:, None] + M.atom("gm", st.d, params=(tz,))[:, None]

    def exp_var(t):
        tz = S.z(t)
        kq = M.selector(tz, st.m) @ st.Kqx
        return (_jac(st, tz) @ st.Ci @ kq.T).scale(-2)[None, :]

    func = vc.I.get_function(REG, "GpRegressor.spatial_derivatives")
    vc.loop("GpRegressor.spatial_derivatives", "for#0", MapLoop(vc, st, _names(func), exp_mean, exp_var))
    vc.assume(S.And(S.cmp(">=", st.m, 2), S.cmp(">=", st.d, 2)))
    dmu, dvar = vc.call(gp, "spatial_derivatives", st.points)
    vc.ensures("one_gradient_vector_per_point", vc.ndim(dmu) == 2 and vc.ndim(dvar) == 2)
    t, c_ = vc.index("t", st.m), vc.index("c", st.d)
    vc.ensures("returned_mean_derivative", S.cmp("==", dmu.at(t, c_), exp_mean(t).at(c_, 0)))
    vc.ensures("returned_variance_derivative", S.cmp("==", dvar.at(t, c_), exp_var(t).at(0, c_, 0)))


def _d_q(name, c):
    """differentiate with respect to coordinate c of the query point (input vector `name`)"""
    def dleaf(e):
        if e.decl().name() == name:
            k = e.arg(0)
            if z3.is_int_value(k):
                return z3.RealVal(1) if k.as_long() == c else None
            return z3.If(k == c, z3.RealVal(1), z3.RealVal(0))
        return None
    return dleaf


@contract("C16", "kernel_gradient_terms", native=False, replay_with="derivatives_native")
def kernel_gradient_terms(vc):
    """SquaredExponential.gradient_terms(q, x): A[c, j] k(q, x_j) is the derivative of the real kernel evaluation
    k(q, x_j) with respect to q_c, and R[c] delta_cc' is the mixed second derivative of k(q, q') at q' = q"""
    vc.c.numeric_filter = True
    d = vc.choice("d", [1, 2, 3])
    n = vc.int("n", lo=1)
    x = vc.matrix("x", n, d)
    q = vc.vector("q", d)
    qp = vc.vector("qp", d)
    theta = vc.vector("theta", d + 1)
    K = vc.new(COV, "SquaredExponential")
    A, R = vc.call(K, "gradient_terms", q, x, theta)
    kq = vc.call(K, "__call__", q[None, :], x, theta)
    vc.ensures("shapes", vc.ndim(A) == 2 and vc.ndim(R) == 1 and S.cmp("==", A.shape[1], n) and A.shape[0] == d and R.shape[0] == d)
    for c in range(d):
        vc.ensures_forall("A_times_k_is_dk_dq", n,
                          lambda j, c=c: A[c, j] * kq[0, j] == derivative(kq[0, j], _d_q("q", c)))
    kqq = vc.call(K, "__call__", q[None, :], qp[None, :], theta)[0, 0]
    sub = [(S.z(qp.at(c)), S.z(q.at(c))) for c in range(d)]
    for c in range(d):
        for c2 in range(d):
            mixed = derivative(derivative(kqq, _d_q("q", c)), _d_q("qp", c2))
            at_q = S.wrap(z3.substitute(S.z(mixed), *sub))
            vc.ensures("R_is_prior_gradient_covariance", at_q == (R[c] if c == c2 else 0))
    # stationarity: k(q, q) does not depend on q (used for the derivative of the predictive variance)
    k_self = vc.call(K, "__call__", q[None, :], q[None, :], theta)[0, 0]
    for c in range(d):
        vc.ensures("prior_variance_independent_of_position", derivative(k_self, _d_q("q", c)) == 0)


@contract("C16", "mean_spatial_gradient", native=False, replay_with="derivatives_native")
def mean_spatial_gradient(vc):
    """spatial_gradient(q) of each mean function is the derivative of its own evaluation m(q) with respect to q"""
    which = vc.choice("mean", ["ConstantMean", "LinearMean", "QuadraticMean"])
    d = vc.choice("d", [1, 2, 3])
    n = vc.int("n", lo=1)
    x = vc.matrix("x", n, d)
    p = {"ConstantMean": 1, "LinearMean": 1 + d, "QuadraticMean": 1 + 2 * d}[which]
    theta = vc.vector("theta", p)
    q = vc.vector("q", d)
    Mf = vc.new(MEAN, which)
    vc.call(Mf, "pass_spatial_data", x)
    val = vc.call(Mf, "__call__", q, theta)
    g = vc.call(Mf, "spatial_gradient", q, theta)
    vc.ensures("one_entry_per_dimension", vc.ndim(g) == 1 and g.shape[0] == d)
    for c in range(d):
        vc.ensures("entry_is_dm_dq", g[c] == derivative(val, _d_q("q", c)))
import contracts.matrix_laws  # noqa: F401  (numerical self-test of the matrix layer's axioms)


@bounded("C16", "derivatives_after_reconfiguration_native", native_runs=8)
def derivatives_after_reconfiguration_native(vc):
    """the derivative predictions belong to the CURRENT hyper-parameters: after set_hyperparameters(...) (and after an
    earlier derivative call, in case anything is cached) gradient / spatial_derivatives agree with finite differences of the
    re-configured regressor's own predictions"""
    from inference.gp import GpRegressor, SquaredExponential, QuadraticMean
    seed = vc.int("seed", lo=0, hi=10 ** 6)
    rng = np.random.default_rng(seed)
    d = vc.int("d", lo=1, hi=2)
    n = int(rng.integers(4, 10))
    x = rng.normal(size=(n, d)) * 1.5
    y = np.sin(x.sum(axis=1)) + 0.1 * rng.normal(size=n)
    th1 = np.concatenate([rng.normal(size=1 + 2 * d) * 0.3, [0.0], rng.uniform(-0.3, 0.3, size=d)])
    th2 = np.concatenate([rng.normal(size=1 + 2 * d) * 0.3, [0.4], rng.uniform(0.2, 0.8, size=d)])
    gp = GpRegressor(x, y, y_err=np.full(n, 0.05), kernel=SquaredExponential, mean=QuadraticMean, hyperpars=th1)
    q = rng.normal(size=(2, d))
    gp.gradient(q), gp.spatial_derivatives(q)             # (warm any cache)
    gp.set_hyperparameters(th2)
    h = 1e-5

    def fd(f, p):
        g = np.zeros(d)
        for c in range(d):
            e = np.zeros(d)
            e[c] = h
            g[c] = (-f(p + 2 * e) + 8 * f(p + e) - 8 * f(p - e) + f(p - 2 * e)) / (12 * h)
        return g
    dmu = np.array([fd(lambda p: gp(p[None, :])[0][0], q[k]) for k in range(2)])
    dvar = np.array([fd(lambda p: gp(p[None, :])[1][0] ** 2, q[k]) for k in range(2)])
    s_mean, s_var = [np.reshape(a, (2, d)) for a in gp.spatial_derivatives(q)]
    g_mean = np.reshape(gp.gradient(q)[0], (2, d))
    sc = max(1.0, float(np.abs(dmu).max()), float(np.abs(dvar).max()))
    vc.ensures("mean_derivatives_belong_to_the_current_hyperparameters",
               bool(np.allclose(s_mean, dmu, rtol=1e-5, atol=1e-6 * sc) and np.allclose(g_mean, dmu, rtol=1e-5, atol=1e-6 * sc)))
    vc.ensures("variance_derivative_belongs_to_the_current_hyperparameters", bool(np.allclose(s_var, dvar, rtol=1e-4, atol=1e-6 * sc)))
