"""helpers for the GP harnesses: random data sets, kernels, means, closed forms with plain linear algebra"""
import numpy as np


def random_problem(rng, d=None, n=None, noise="err"):
    from inference.gp import (SquaredExponential, RationalQuadratic, WhiteNoise, HeteroscedasticNoise, ChangePoint,
                              ConstantMean, LinearMean, QuadraticMean)
    d = d or int(rng.integers(1, 4))
    n = n or int(rng.integers(2, 13))
    x = rng.normal(size=(n, d)) * 10 ** rng.uniform(-0.5, 0.5) + rng.normal() * 3
    y = np.sin(x.sum(axis=1)) + 0.3 * rng.normal(size=n) + rng.normal() * 2
    kname = str(rng.choice(["SE", "RQ", "SE+WN", "RQ+SE", "CP", "SE+HN"]))
    mk = {"SE": SquaredExponential, "RQ": RationalQuadratic, "WN": WhiteNoise, "HN": HeteroscedasticNoise}
    if kname == "CP":
        K = ChangePoint(kernels=[SquaredExponential, RationalQuadratic], axis=0)
    else:
        parts = kname.split("+")
        K = mk[parts[0]]()
        for p_ in parts[1:]:
            K = K + mk[p_]()
    M = [ConstantMean, LinearMean, QuadraticMean][int(rng.integers(0, 3))]()
    y_err = 10 ** rng.uniform(-2, 0, size=n)
    return dict(d=d, n=n, x=x, y=y, kernel=K, kname=kname, mean=M, y_err=y_err)


def hyperpars_for(gp_or_parts, rng, x):
    """a random hyper-parameter vector with sensible magnitudes, from the labels"""
    labels = gp_or_parts
    span = float(np.ptp(x[:, 0])) + 1e-3
    th = []
    for lab in labels:
        if "location" in lab:
            th.append(rng.uniform(x[:, 0].min(), x[:, 0].max()))
        elif "width" in lab:
            th.append(rng.uniform(0.1, 0.6) * span)
        elif "log_sigma" in lab or "WhiteNoise" in lab:
            th.append(rng.uniform(-3, -1))
        else:
            th.append(rng.uniform(-0.8, 0.8))
    return np.array(th)


def closed_form(gp, q):
    """exact GP posterior at query rows q from plain linear algebra (independent of the regressor's code path)"""
    th_c, th_m = gp.cov_hyperpars, gp.mean_hyperpars
    Kxx = gp.cov.build_covariance(th_c) + gp.sig
    r = gp.y - gp.mean.build_mean(th_m)
    Kqx = gp.cov(q, gp.x, th_c)
    Kqq = gp.cov(q, q, th_c)
    sol = np.linalg.solve(Kxx, np.column_stack([r, Kqx.T]))
    mu = np.array([gp.mean(p, th_m) for p in q]) + Kqx @ sol[:, 0]
    cov = Kqq - Kqx @ sol[:, 1:]
    return mu, cov
