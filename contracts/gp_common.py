"""helpers for the GP harnesses: random data sets, kernels, means, closed forms with plain linear algebra"""
import numpy as np


def random_problem(rng, d=None, n=None, noise="err"):
    from inference.gp import (SquaredExponential, RationalQuadratic, WhiteNoise, HeteroscedasticNoise, ChangePoint,
                              ConstantMean, LinearMean, QuadraticMean)
    d = d or int(rng.integers(1, 4))
    n = n or int(rng.integers(1, 13))
    x = rng.normal(size=(n, d)) * 10 ** rng.uniform(-0.5, 0.5) + rng.normal() * 3
    if noise == "err" and rng.uniform() < 0.25:
        x = x + 10 ** rng.uniform(3, 6)          # coordinates far from zero relative to their spread (time stamps ...)
    y = np.sin(x.sum(axis=1)) + 0.3 * rng.normal(size=n) + rng.normal() * 2
    kname = str(rng.choice(["SE", "RQ", "SE+WN", "RQ+SE", "CP", "SE+HN", "CP3", "CP4"]))
    mk = {"SE": SquaredExponential, "RQ": RationalQuadratic, "WN": WhiteNoise, "HN": HeteroscedasticNoise}
    if kname == "CP":
        K = ChangePoint(kernels=[SquaredExponential, RationalQuadratic], axis=0)
    elif kname == "CP3":
        K = ChangePoint(kernels=[SquaredExponential, RationalQuadratic, SquaredExponential], axis=int(rng.integers(0, d)))
    elif kname == "CP4":
        K = ChangePoint(kernels=[RationalQuadratic, SquaredExponential, SquaredExponential, RationalQuadratic], axis=0)
    else:
        parts = kname.split("+")
        K = mk[parts[0]]()
        for p_ in parts[1:]:
            K = K + mk[p_]()
    M = [ConstantMean, LinearMean, QuadraticMean][int(rng.integers(0, 3))]()
    y_err = 10 ** rng.uniform(-2, 0, size=n)
    return dict(d=d, n=n, x=x, y=y, kernel=K, kname=kname, mean=M, y_err=y_err)


def hyperpars_for(gp_or_parts, rng, x):
    """a random hyper-parameter vector with sensible magnitudes, from the labels"""
    labels = gp_or_parts
    span = float(np.ptp(x[:, 0])) + 1e-3
    th = []
    for lab in labels:
        if "location" in lab:
            th.append(rng.uniform(x[:, 0].min(), x[:, 0].max()))
        elif "width" in lab:
            th.append(rng.uniform(0.1, 0.6) * span)
        elif "log_sigma" in lab or "WhiteNoise" in lab:
            th.append(rng.uniform(-3, -1))
        else:
            th.append(rng.uniform(-0.8, 0.8))
    return np.array(th)


def ref_cov(K, u, v, theta, training=False):
    """the documented covariance function evaluated pairwise with formulas written here (none of the library's
    kernel code is used): squared-exponential, rational-quadratic, white / heteroscedastic noise (a diagonal on
    the training points, zero between any other points), sums, and change-points with logistic weights."""
    name = type(K).__name__
    theta = np.asarray(theta, dtype=float)
    nu, nv = len(u), len(v)
    if name in ("SquaredExponential", "RationalQuadratic"):
        off = 1 if name == "SquaredExponential" else 2
        a, L = np.exp(theta[0]), np.exp(theta[off:])
        out = np.zeros((nu, nv))
        for i in range(nu):
            for j in range(nv):
                z = 0.5 * float(np.sum(((u[i] - v[j]) / L) ** 2))
                out[i, j] = a * a * (np.exp(-z) if off == 1 else (1.0 + z / np.exp(theta[1])) ** (-np.exp(theta[1])))
        if training:
            out = out + a * a * 1e-12 * np.eye(nu)       # the documented jitter of the training matrix
        return out
    if name == "WhiteNoise":
        return np.exp(2 * theta[0]) * np.eye(nu) if training else np.zeros((nu, nv))
    if name == "HeteroscedasticNoise":
        return np.diag(np.exp(2 * theta)) if training else np.zeros((nu, nv))
    if name == "CompositeCovariance":
        out, k0 = np.zeros((nu, nv)), 0
        for comp in K.components:
            out = out + ref_cov(comp, u, v, theta[k0:k0 + comp.n_params], training)
            k0 += comp.n_params
        return out
    if name == "ChangePoint":
        m = K.n_kernels
        counts = [c.n_params for c in K.cov]
        starts = np.concatenate([[0], np.cumsum(counts)])
        cp = theta[starts[-1]:].reshape(m - 1, 2)          # (location, width) of each change-point
        lg = lambda x, c: 1.0 / (1.0 + np.exp(-(x - c[0]) / c[1]))
        out = np.zeros((nu, nv))
        for i in range(m):
            wu, wv = np.ones(nu), np.ones(nv)
            if i > 0:                                       # switched on by the change-point before it
                wu, wv = wu * lg(u[:, K.axis], cp[i - 1]), wv * lg(v[:, K.axis], cp[i - 1])
            if i < m - 1:                                   # switched off by the change-point after it
                wu, wv = wu * (1 - lg(u[:, K.axis], cp[i])), wv * (1 - lg(v[:, K.axis], cp[i]))
            out = out + ref_cov(K.cov[i], u, v, theta[starts[i]:starts[i + 1]], training) * np.outer(wu, wv)
        return out
    raise ValueError(name)


def closed_form(gp, q):
    """exact GP posterior at query rows q from plain linear algebra and independently written kernels / means"""
    th_c, th_m = gp.cov_hyperpars, gp.mean_hyperpars
    Kxx = ref_cov(gp.cov, gp.x, gp.x, th_c, training=True) + gp.sig
    r = gp.y - gp.mean.build_mean(th_m)
    Kqx = ref_cov(gp.cov, q, gp.x, th_c)
    Kqq = ref_cov(gp.cov, q, q, th_c)
    sol = np.linalg.solve(Kxx, np.column_stack([r, Kqx.T]))
    mu = np.array([gp.mean(p, th_m) for p in q]) + Kqx @ sol[:, 0]
    cov = Kqq - Kqx @ sol[:, 1:]
    return mu, cov
