"""C19 -- density-estimator intervals, moments and normalisation are self-consistent.

No proof obligations: the quantities are outputs of Nelder-Mead, bounded Brent, QUADPACK and Simpson/Chebyshev
quadrature, and the defect class the property names (loss of accuracy far from zero) is floating-point cancellation,
which does not exist over the reals.  This is a bounded stand-in only (run-time postconditions on the real code)."""
import numpy as np
from pyvc.vc import contract, bounded


@bounded("C19", "estimators_native", native_runs=26)
def estimators_native(vc):
    _estimators(vc)


@bounded("C19", "unimodal_large_sample_native", native_runs=5)
def unimodal_large_sample_native(vc):
    """the same clauses for the configuration the random draw reaches least often: UnimodalPdf on 6000 points (it fits a
    sub-sample first and then re-fits on the whole sample: everything reported must belong to the final fit)"""
    _estimators(vc, est="unimodal", n=6000)


def _estimators(vc, est=None, n=None):
    from inference.pdf import GaussianKDE, UnimodalPdf
    from scipy.integrate import quad
    seed = vc.int("seed", lo=0, hi=10 ** 6)
    rng = np.random.default_rng(seed)
    est = est or vc.choice("estimator", ["kde", "unimodal"])
    fam = vc.choice("family", ["normal", "skew", "logistic", "left_skew", "laplace", "exponential"])
    if fam == "exponential" and est == "unimodal":
        fam = "skew"          # (a density with a jump at its mode is outside the unimodal model's family)
    n = n or vc.choice("n", [300, 3000, 6000])          # (UnimodalPdf fits a sub-sample first when n >= 4000)
    scale = 10 ** vc.choice("log10_scale", [-6, 0, 3, 6])
    loc = vc.choice("location_in_sigmas", [0.0, 30.0, 1e4, 1e6]) * scale
    base = {"normal": lambda: rng.normal(size=n), "skew": lambda: rng.gamma(4.0, size=n) / 2.0,
            "logistic": lambda: rng.logistic(size=n) * 0.55, "left_skew": lambda: 6.0 - rng.gamma(3.0, size=n) / 1.7,
            "laplace": lambda: rng.laplace(size=n) * 0.7, "exponential": lambda: rng.exponential(size=n)}[fam]()
    s = base * scale + loc
    with np.errstate(all="ignore"):
        E = GaussianKDE(s) if est == "kde" else UnimodalPdf(s)
        Eb = GaussianKDE(base) if est == "kde" else UnimodalPdf(base)
    sd = np.std(s)
    lo, hi = (E.lwr_limit, E.upr_limit)
    grid = np.linspace(lo, hi, 4001)
    pg = np.asarray(E(grid))
    total = np.trapezoid(pg, grid)
    if est == "unimodal":        # a heavy-tailed fit keeps a little mass outside [lwr_limit, upr_limit]: add the tails
        w_ = hi - lo
        total += sum(quad(E, a_, b_, limit=200)[0] for a_, b_ in
                     [(lo - 1e3 * w_, lo - 10 * w_), (lo - 10 * w_, lo), (hi, hi + 10 * w_), (hi + 10 * w_, hi + 1e3 * w_)])
    vc.ensures("density_integrates_to_one", abs(total - 1.0) < 5e-3)
    xs = np.linspace(lo + 0.05 * (hi - lo), hi - 0.05 * (hi - lo), 7)
    c = np.asarray(E.cdf(xs))
    # the integral of the density from MINUS INFINITY (the mass below the estimator's own lower limit counts: it is several
    # percent for heavy-tailed unimodal fits)
    left_tail = 0.0
    if est == "unimodal":
        w_ = hi - lo
        left_tail = sum(quad(E, a_, b_, limit=200)[0] for a_, b_ in [(lo - 1e3 * w_, lo - 10 * w_), (lo - 10 * w_, lo)])
    ci = left_tail + np.array([np.trapezoid(pg[grid <= v], grid[grid <= v]) for v in xs])
    vc.ensures("cdf_is_integral_of_density", bool(np.all(np.abs(c - ci) < 5e-3)))
    # ... for evaluation points given in any order, and one at a time
    perm = rng.permutation(xs.size)
    cp = np.asarray(E.cdf(xs[perm]))
    c1 = np.array([float(E.cdf(float(v))) for v in xs[:3]])
    vc.ensures("cdf_independent_of_the_order_of_the_points", bool(np.allclose(cp, c[perm], rtol=0, atol=1e-6))
               and bool(np.allclose(c1, c[:3], rtol=0, atol=1e-6)))
    # ... and whatever was asked before: after the calls above, a point far below the estimator's own lower limit
    if est == "unimodal":
        w_ = hi - lo
        x_far = lo - 0.35 * w_
        ref_far = sum(quad(E, a_, b_, limit=200)[0] for a_, b_ in [(lo - 1e3 * w_, lo - 10 * w_), (lo - 10 * w_, x_far)])
        got_far = float(E.cdf(x_far))
        vc.inputs["cdf_far_below_the_lower_limit"] = [got_far, float(ref_far)]
        vc.ensures("cdf_is_integral_of_density_below_the_lower_limit_after_other_calls", abs(got_far - ref_far) < 1e-3 + 0.02 * ref_far)
    # the mode is a maximum of the density in its own neighbourhood ... and the global one
    wloc = 0.25 * E.h if est == "kde" else 0.05 * E.MAP[1]
    near = np.linspace(E.mode - wloc, E.mode + wloc, 41)
    slack = 0.0
    if est == "kde":                 # kernels 3.5-4.5 bandwidths away are switched on/off at region edges (C12's truncation)
        dist = np.abs(s - E.mode) / E.h
        slack = np.sum((dist > 3.4) & (dist < 4.6)) / s.size * np.exp(-0.5 * 3.4 ** 2) / (np.sqrt(2 * np.pi) * E.h)
    vc.ensures("mode_is_a_local_maximum_of_the_density", float(E(E.mode)) >= float(np.max(E(near))) * (1 - 1e-6) - slack
               and float(E(E.mode)) >= pg.max() * 0.8)
    vc.ensures(f"{est}.mode_is_the_global_maximum", float(E(E.mode)) >= pg.max() * (1 - 2e-3))
    Fg = np.asarray(E.cdf(grid))
    for f in (0.3, 0.68, 0.95, 0.5 / n, 0.01, 0.003):          # (also fractions smaller than one sample's worth)
        a, b = E.interval(f)
        Fa, Fb = np.asarray(E.cdf(np.array([a, b])))
        Pa, Pb = np.asarray(E(np.array([a, b])))
        vc.ensures("interval_holds_requested_probability", abs((Fb - Fa) - f) < min(5e-3, 0.1 * f))
        vc.ensures("interval_ends_have_equal_density", abs(Pa - Pb) < 0.02 * pg.max())
        # a highest-density interval is the SHORTEST one holding that probability: nowhere near e.g. a whole tail (reference:
        # the shortest window of the estimator's own cdf on the grid; only gross excess is an error here -- a factor 2)
        j = np.searchsorted(Fg, Fg + f)
        ok_ = j < grid.size
        if f * n >= 0.5 and np.any(ok_) and (grid[1] - grid[0]) < 0.05 * (b - a):
            shortest = float(np.min(grid[j[ok_]] - grid[ok_]))
            vc.inputs[f"interval_length_over_shortest_{f:.4g}"] = float((b - a) / shortest)
            vc.ensures("interval_is_not_grossly_longer_than_the_shortest_one", (b - a) <= 2.0 * shortest)
    # moments of the estimated density itself (premise: negligible mass outside the estimator's own range)
    mu, var, skw, kur = E.moments()
    if est == "kde":
        a0, b0 = lo, hi
    else:
        sM, fM = E.MAP[1], E.MAP[3]
        a0, b0 = E.mode - 5 * max(np.exp(-fM), 1.0) * sM, E.mode + 5 * max(np.exp(fM), 1.0) * sM
    gg = np.linspace(a0, b0, 20001)
    pp = np.asarray(E(gg))
    Z = np.trapezoid(pp, gg)
    inside = Z > 1 - 2e-3
    if inside:
        x0 = gg[np.argmax(pp)]
        m1 = x0 + np.trapezoid(pp * (gg - x0), gg) / Z
        v2 = np.trapezoid(pp * (gg - m1) ** 2, gg) / Z
        s3 = np.trapezoid(pp * (gg - m1) ** 3, gg) / Z / v2 ** 1.5
        k4 = np.trapezoid(pp * (gg - m1) ** 4, gg) / Z / v2 ** 2 - 3.0
        ok = abs(mu - m1) < 2e-2 * np.sqrt(v2) and abs(var - v2) < 3e-2 * v2 and abs(skw - s3) < 5e-2 and abs(kur - k4) < 0.15
        vc.inputs["moments"] = [float(mu), float(var), float(skw), float(kur)]
        vc.inputs["reference"] = [float(m1), float(v2), float(s3), float(k4)]
        vc.ensures("moments_are_those_of_the_estimated_density", bool(ok))
    # covariance under shifting / rescaling of the data
    mb, vb, sb, kb = Eb.moments()
    Ib = Eb.interval(0.68)
    Is = E.interval(0.68)
    tol = 3e-2
    vc.ensures(f"{est}.mode_and_interval_shift_and_scale_with_data",
               abs(E.mode - (Eb.mode * scale + loc)) < tol * sd and abs(Is[0] - (Ib[0] * scale + loc)) < tol * sd
               and abs(Is[1] - (Ib[1] * scale + loc)) < tol * sd)
    if inside:
        vc.ensures(f"{est}.moments_transform_covariantly", abs(mu - (mb * scale + loc)) < tol * sd and abs(var - vb * scale ** 2) < 2 * tol * sd ** 2
                   and abs(skw - sb) < 0.1 and abs(kur - kb) < 0.3)


# The kernel estimator's self-consistency (its cdf is the integral of its density, both normalised) rests on both being the exact
# kernel sums up to the stated truncation: the C12 contracts (proof layer and bounded layer, which also covers user-chosen
# bandwidths and clustered samples whose range is thousands of bandwidths) are checked under this property as well.
from contracts.c12_kde import (kde_native as _kn, construction as _kc, region_lookup as _kr, density_evaluation as _kd,
                               cdf_evaluation as _kcdf, truncation_theorem as _kt)
bounded("C19", "kde_exact_sums_native", native_runs=24)(_kn)
contract("C19", "kde_construction", native=False, replay_with="kde_exact_sums_native")(_kc)
contract("C19", "kde_region_lookup", native=False, replay_with="kde_exact_sums_native")(_kr)
contract("C19", "kde_density_evaluation", native=False, replay_with="kde_exact_sums_native")(_kd)
contract("C19", "kde_cdf_evaluation", native=False, replay_with="kde_exact_sums_native")(_kcdf)
contract("C19", "kde_truncation_theorem", native=False, replay_with="kde_exact_sums_native")(_kt)


# ---- proof layer for the moment formulas ---------------------------------------------------------------------------------
# moments() of both estimators is straight-line code around the estimator's own density and scipy's Simpson rule.  With the
# density an arbitrary function P (ghost) and the Simpson rule an arbitrary linear functional sum_i w_i y_i on the grid (assumed),
# the four returned numbers must be the mean, variance, skewness and EXCESS kurtosis of the weights w_i P(x_i) on the grid that
# spans the estimator's own integration range -- for every grid size, range and density.
from pyvc import sym as S
from pyvc.sym import Sym
from pyvc.tensor import Tensor


def _moments_contract(vc, cls_module, cls_name, fields, lo_hi):
    import z3
    from pyvc.npmodel import simpson_weights
    P = z3.Function("density", z3.RealSort(), z3.RealSort())
    grids = []

    def density(I, func, args, kwargs):
        x = args[1]
        grids.append(x)
        fz = x.frozen()
        return Tensor(x.shape, lambda i: Sym(P(S.z(S.to_real(S.z(fz.at(i)))))))

    vc.modular(f"{cls_name}.__call__", density)
    est = vc.obj(cls_module, cls_name, **fields)
    mu, var, skw, kur = vc.call(est, "moments")
    vc.ensures("density_evaluated_on_one_grid", len(grids) == 1)
    if len(grids) != 1:
        return
    x = grids[0]
    n = x.shape[0]
    lo, hi = lo_hi
    vc.ensures_forall("grid_spans_the_integration_range", n,
                      lambda i: S.cmp("==", x.at(i), S.add(lo, S.div(S.mul(S.sub(hi, lo), i), S.sub(n, 1)))))
    W = simpson_weights(x)
    mode = fields["mode"]
    p = lambda i: Sym(P(S.z(S.to_real(S.z(x.at(i))))))
    # (the estimated density integrates to one under the quadrature -- the normalisation clause of the property, decided in the
    # bounded layer; with it the first moment may be taken about any origin, e.g. the mode)
    vc.assume(S.cmp("==", vc.sum(n, lambda i: W(i) * p(i)), 1))
    m1 = vc.sum(n, lambda i: W(i) * (p(i) * x.at(i)))
    vc.ensures("mean_is_first_moment_of_the_density", S.cmp("==", mu, m1))
    dx = lambda i: x.at(i) - mu

    def c(i, k):            # w_i P(x_i) (x_i - mu)^k, written as a product of k factors
        t = p(i) * dx(i) ** 2
        for _ in range(k - 2):
            t = t * dx(i)
        return W(i) * t
    v2 = vc.sum(n, lambda i: c(i, 2))
    vc.ensures("variance_is_second_central_moment", S.cmp("==", var, v2))
    s3, s4 = vc.sum(n, lambda i: c(i, 3)), vc.sum(n, lambda i: c(i, 4))
    vc.ensures("skewness_is_third_central_moment_over_variance_to_three_halves", S.cmp("==", skw, s3 / var ** 1.5))
    vc.ensures("kurtosis_is_fourth_central_moment_over_variance_squared_minus_three", S.cmp("==", kur, s4 / var ** 2 - 3.0))


@contract("C19", "kde_moments", native=False, replay_with="estimators_native")
def kde_moments(vc):
    lo = vc.real("lwr_limit")
    w = vc.real("range", pos=True)
    h = vc.real("h", pos=True)
    mode = vc.real("mode")
    # class invariant (C12.construction): the integration range is the sample range plus two bandwidths on either side
    vc.assume(S.cmp(">=", w, 4 * h))
    _moments_contract(vc, "inference.pdf.kde", "GaussianKDE", dict(lwr_limit=lo, upr_limit=lo + w, h=h, mode=mode), (lo, lo + w))


# (UnimodalPdf.moments is the same straight-line code on a grid of 1000 points written into the source: the same contract proves it
# (6 obligations, about a minute of solver time), but sums of 1000 explicit terms make those obligations time out when the machine
# is busy, and a check that can go UNDECIDED on the unchanged tree is worse than none.  Its formulas are covered by the bounded
# harness; the proof is kept for GaussianKDE.moments, whose grid size is symbolic.)
