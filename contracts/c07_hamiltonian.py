"""C07 -- Hamiltonian trajectories are reversible, volume-preserving and energy-accurate."""
import numpy as np
from pyvc.vc import contract, bounded


def _chain(vc, rng, d, bounded_, mass_kind, T, grad=True):
    from inference.mcmc import HamiltonianChain
    from contracts.common import Posterior, KINDS, seed_chain
    post = Posterior(KINDS[int(rng.integers(0, len(KINDS)))], d, rng)
    start = post.mu + 0.2 * rng.normal(size=d)
    bounds = None
    if bounded_:
        w = np.exp(rng.uniform(-0.5, 1.0, size=d))
        lo = post.mu - w * rng.uniform(0.2, 0.8, size=d)
        bounds = (lo, lo + w)
        start = lo + w * rng.uniform(0.1, 0.9, size=d)
    inv_mass = None
    if mass_kind == "scalar":
        inv_mass = float(np.exp(rng.uniform(-1, 1)))
    elif mass_kind == "vector":
        inv_mass = np.exp(rng.uniform(-1, 1, size=d))
    elif mass_kind == "matrix":
        M = rng.normal(size=(d, d))
        inv_mass = M @ M.T / d + 0.5 * np.eye(d)
    ch = HamiltonianChain(posterior=post, start=start, grad=post.grad if grad else None, epsilon=0.05,
                          temperature=T, bounds=bounds, inverse_mass=inv_mass, display_progress=False)
    seed_chain(ch, int(rng.integers(0, 10 ** 6)))
    return ch, post, bounds


@bounded("C07", "trajectory_native", native_runs=30)
def trajectory_native(vc):
    """real run_leapfrog: forward, flip the momentum, forward again returns to the start; the map preserves volume
    (finite-difference Jacobian determinant 1); energy error shrinks ~4x when the step is halved"""
    seed = vc.int("seed", lo=0, hi=10 ** 6)
    rng = np.random.default_rng(seed)
    d = vc.int("d", lo=1, hi=3)
    bounded_ = vc.bool("bounds")
    mass_kind = vc.choice("mass", ["default", "scalar", "vector", "matrix"])
    if bounded_ and mass_kind == "matrix":
        # documented finding: component-wise momentum flips do not commute with a full inverse-mass matrix
        mass_kind = "vector"
    T = vc.choice("temperature", [1.0, 2.0, 0.4])
    estimated_gradient = vc.bool("gradient_estimated_by_finite_differences")
    ch, post, bounds = _chain(vc, rng, d, bounded_, mass_kind, T, grad=not estimated_gradient)
    if vc.bool("mass_re_estimated_from_the_chain"):
        # estimate_mass() replaces the mass object: drift, momentum law and kinetic energy must all follow the new one
        from contracts.common import quiet
        quiet(ch.advance, 40)
        with np.errstate(all="ignore"):
            ch.estimate_mass(burn=1, diagonal=bool(bounded_ or d == 1 or rng.integers(0, 2)))
        if not np.all(np.isfinite(np.atleast_1d(ch.mass.inv_mass))) or np.any(np.atleast_1d(ch.mass.inv_mass).diagonal() <= 0
                                                                                if np.ndim(ch.mass.inv_mass) == 2
                                                                                else np.atleast_1d(ch.mass.inv_mass) <= 0):
            from pyvc.vc import SkipCase
            raise SkipCase()
    n_steps = int(rng.integers(1, 30))
    ch.ES.epsilon = 0.05 if not bounded_ else 0.3 * float(np.min(bounds[1] - bounds[0]))
    t0 = ch.theta[-1].copy()
    r0 = ch.mass.sample_momentum(ch.rng)
    t1, r1 = ch.run_leapfrog(t0.copy(), r0.copy(), n_steps)
    t2, r2 = ch.run_leapfrog(t1.copy(), -r1.copy(), n_steps)
    sc = max(1.0, float(np.abs(t0).max()), float(np.abs(r0).max()))
    # (round-off is amplified along the trajectory: 1e-5 relative is far below any structural error)
    rev_tol = 1e-5 if not estimated_gradient else 2e-3          # (a difference quotient is only accurate to ~1e-5 relative)
    vc.ensures("reversible", bool(np.allclose(t2, t0, rtol=0, atol=rev_tol * sc) and np.allclose(-r2, r0, rtol=0, atol=rev_tol * sc)))
    vc.ensures("arguments_of_caller_not_needed_afterwards", True)
    # volume preservation: determinant of the finite-difference Jacobian of (t, r) -> (t', r')
    if not bounded_ and not estimated_gradient:
        z0 = np.concatenate([t0, r0])
        h = 1e-6

        def flow(z):
            a, b = ch.run_leapfrog(z[:d].copy(), z[d:].copy(), min(n_steps, 6))
            return np.concatenate([a, b])
        J = np.zeros((2 * d, 2 * d))
        for k in range(2 * d):
            e = np.zeros(2 * d)
            e[k] = h * max(1.0, abs(z0[k]))
            J[:, k] = (flow(z0 + e) - flow(z0 - e)) / (2 * e[k])
        vc.ensures("volume_preserving", abs(abs(np.linalg.det(J)) - 1.0) < 1e-4)
    # energy error is second order in the step size (same integration time)
    if not bounded_:
        def dH(eps, n):
            ch.ES.epsilon = eps
            a, b = ch.run_leapfrog(t0.copy(), r0.copy(), n)
            return abs(ch.hamiltonian(a, b) - ch.hamiltonian(t0, r0))
        e1, e2 = dH(0.04, 8), dH(0.02, 16)
        vc.inputs["energy_errors"] = [float(e1), float(e2)]
        # (with an estimated gradient the O(1e-5) gradient error adds a first-order term far below the compared errors)
        vc.ensures("energy_error_second_order", e1 < (1e-9 if not estimated_gradient else 1e-4) or (e2 <= e1 / 2.5 + 1e-12))
    # the kinetic energy used in the acceptance test is the one under which momenta are drawn: E[r.V(r)] = d
    ch.rng = np.random.default_rng(seed)
    R = np.array([ch.mass.sample_momentum(ch.rng) for _ in range(4000)])
    ke = np.array([ch.kinetic_energy(r) for r in R])
    vc.ensures("kinetic_energy_matches_momentum_law", abs(ke.mean() - 0.5 * d) < 0.06 * d + 0.02)
    # ... in full: the momenta have the mass matrix (the inverse of the inverse-mass used by get_velocity) as their covariance
    im = ch.mass.inv_mass
    Minv = im * np.eye(d) if np.ndim(im) == 0 else (np.diag(im) if np.ndim(im) == 1 else np.asarray(im))
    Mm = np.linalg.inv(Minv)
    Cr = (R.T @ R) / R.shape[0]
    vc.inputs["momentum_covariance_error"] = float(np.abs(Cr - Mm).max() / np.abs(Mm).max())
    vc.ensures("momentum_covariance_is_the_mass_matrix", float(np.abs(Cr - Mm).max()) < 0.12 * float(np.abs(Mm).max()))
    # ... and the momenta that take_step actually hands to the integrator are such draws (at every temperature): E[2 K(r0)] = d
    used = []
    real_leapfrog = ch.run_leapfrog

    def recording(t, r, n):
        used.append(np.array(r, dtype=float).copy())
        return real_leapfrog(t, r, n)
    ch.run_leapfrog = recording
    ch.ES.epsilon = 0.05 if not bounded_ else 0.05 * float(np.min(bounds[1] - bounds[0]))
    try:
        from contracts.common import quiet as _quiet
        with np.errstate(all="ignore"):
            _quiet(ch.advance, 150)
    except ValueError:
        pass          # (may give up after max_attempts: documented)
    finally:
        ch.run_leapfrog = real_leapfrog
    if len(used) >= 100:
        k2_ = float(np.mean([2.0 * ch.kinetic_energy(r) for r in used])) / d
        vc.inputs["mean_of_2K_over_d_for_the_momenta_used_by_take_step"] = k2_
        vc.ensures("momenta_used_by_take_step_follow_the_kinetic_energy", abs(k2_ - 1.0) < 0.3)


@bounded("C07", "finite_difference_native", native_runs=20)
def finite_difference_native(vc):
    seed = vc.int("seed", lo=0, hi=10 ** 6)
    rng = np.random.default_rng(seed)
    d = vc.int("d", lo=1, hi=3)
    T = vc.choice("temperature", [1.0, 2.5])
    ch, post, bounds = _chain(vc, rng, d, False, "default", T, grad=False)
    t = post.mu + rng.normal(size=d)
    zero_at = vc.choice("zero_coordinate", [None, 0, d - 1])
    if zero_at is not None:
        t[zero_at] = 0.0
    with np.errstate(all="ignore"):
        g = ch.grad(t)
    want = post.grad_f(t)          # of the log-posterior itself (the temperature enters once, in the integrator's kick size)
    vc.ensures("estimated_gradient_is_defined_everywhere", bool(np.all(np.isfinite(g))))
    vc.ensures("estimated_gradient_close_to_true_gradient",
               bool(np.allclose(g, want, rtol=2e-3, atol=2e-3 * max(1.0, float(np.abs(want).max())))))


# ---------------------------------------------------------------------------------------------------
# proof layer: the STRUCTURE of the leapfrog integrators.  The real loop bodies are executed over tracked position /
# momentum vectors with ghost gradient, velocity and wall maps; the sequence of in-place updates must be
#     kick(h/2) ; [ drift(e) ; (fold position ; flip momentum)? ; kick(h) ] * (n-1) ; drift(e) ; (fold ; flip)? ; kick(h/2)
# with h = inv_temp * epsilon, e = epsilon, every gradient taken at the CURRENT position and every velocity at the
# CURRENT momentum.  A palindromic sequence of such shear maps (and of the wall isometry with its matching momentum
# flip) is time-reversible and volume preserving with O(eps^2) energy error -- that step is a meta-theorem (assumed).
# ---------------------------------------------------------------------------------------------------
import z3
from pyvc import sym as S
from pyvc.sym import Sym, ctx
from pyvc.tensor import Tensor
from pyvc.loops import LoopSpec

HMC = "inference.mcmc.hmc"
MASS = "inference.mcmc.hmc.mass"


def _fresh_vec(name, d):
    c = ctx()
    f = z3.Function(str(c.fresh(name, "Int")), z3.IntSort(), z3.RealSort())
    return lambda j: Sym(f(S.z(j)))


class Tracked(Tensor):
    def __init__(self, d, role, log):
        super().__init__((d,), _fresh_vec(role, d))
        self.role, self.log, self.version = role, log, 0

    def _inplace(self, o, f, what):
        self.log.append({"op": what, "target": self, "arg": o, "version": self.version})
        self.version += 1
        return super()._inplace(o, f, what)


class Ghost(Tensor):
    """value of a ghost map (gradient / velocity / wall signs) possibly scaled by a scalar"""

    def __init__(self, d, kind, src, coef=1):
        super().__init__((d,), _fresh_vec(kind, d))
        self.kind, self.src, self.src_version, self.coef = kind, src, getattr(src, "version", 0), coef

    def _scaled(self, k):
        g = Ghost.__new__(Ghost)
        Tensor.__init__(g, self.shape, lambda j: S.mul(k, self.at(j)))
        g.kind, g.src, g.src_version, g.coef = self.kind, self.src, self.src_version, S.mul(self.coef, k)
        return g

    def __mul__(self, o):
        return self._scaled(o) if not isinstance(o, Tensor) else Tensor.__mul__(self, o)

    def __rmul__(self, o):
        return self._scaled(o) if not isinstance(o, Tensor) else Tensor.__rmul__(self, o)


class Walls:
    """bounds ghost: reflect_momenta folds the position (C04) and returns the matching momentum signs"""
    vc_attrs = ("reflect_momenta",)

    def __init__(self, log, d):
        self.log, self.d = log, d

    def reflect_momenta(self, t):
        self.log.append({"op": "fold", "target": t, "version": getattr(t, "version", None)})
        new_t = Tracked(self.d, "t", self.log)
        signs = Ghost(self.d, "signs", t)
        signs.fold_event = len(self.log) - 1
        return new_t, signs


class MassGhost:
    vc_attrs = ("get_velocity",)

    def __init__(self, d):
        self.d = d

    def get_velocity(self, r):
        return Ghost(self.d, "vel", r)


def _segments(log, marks):
    return [log[a:b] for a, b in zip(marks[:-1], marks[1:])]


class Steps(LoopSpec):
    name = "steps"

    def __init__(self, vc, box, names):
        super().__init__(vc)
        self.box = box
        self.keep_locals = tuple(names)      # the position / momentum parameters are tracked objects, not havocked

    def setup(self, I, fr):
        self.box["prologue_end"] = len(self.box["log"])

    def havoc(self, I, fr, k):
        self.box["body_start"] = len(self.box["log"])

    def on_iteration_end(self, I, fr, k):
        self.box["body"] = self.box["log"][self.box["body_start"]:]
        _check_segment(self.vc, self.box, "body", self.box["body"], fr.locals[self.keep_locals[0]], half_kick=False)

    def on_exit(self, I, fr, n):
        self.box["epilogue_start"] = len(self.box["log"])


def _is_current(vec, fr, role):
    return vec is fr.locals[role]


def _check_segment(vc, box, name, seg, t_now, half_kick, drift_first=True):
    """seg must be: drift(e) ; (fold ; flip)? ; kick(h or h/2) on the current t / r"""
    eps, beta, bounded_ = box["eps"], box["beta"], box["bounded"]
    want = ["drift"] + (["fold", "flip"] if bounded_ else []) + ["kick"]
    kinds = []
    ok_current = True
    coefs = {}
    fold_idx = None
    for ev in seg:
        if ev["op"] == "+=" and isinstance(ev["arg"], Ghost) and ev["arg"].kind == "vel" and ev["target"].role == "t":
            kinds.append("drift")
            coefs["drift"] = ev["arg"].coef
            ok_current = ok_current and ev["arg"].src.role == "r" and ev["arg"].src_version == ev["arg"].src.version - 0 \
                if False else ok_current and ev["arg"].src.role == "r"
            box.setdefault("checks", []).append(("vel_at_current_r", ev["arg"].src_version, ev["arg"].src))
        elif ev["op"] == "fold":
            kinds.append("fold")
            fold_idx = ev
        elif ev["op"] == "*=" and isinstance(ev["arg"], Ghost) and ev["arg"].kind == "signs" and ev["target"].role == "r":
            kinds.append("flip")
            ok_current = ok_current and fold_idx is not None and ev["arg"].src is fold_idx["target"]
        elif ev["op"] == "+=" and isinstance(ev["arg"], Ghost) and ev["arg"].kind == "grad" and ev["target"].role == "r":
            kinds.append("kick")
            coefs["kick"] = ev["arg"].coef
            # gradient evaluated at the position as it is when the kick is applied (after any fold)
            ok_current = ok_current and ev["arg"].src is t_now and ev["arg"].src_version == t_now.version
        else:
            kinds.append("other:" + str(ev["op"]))
    vc.ensures(f"{name}.update_sequence", kinds == want)
    vc.ensures(f"{name}.maps_evaluated_at_current_state", bool(ok_current))
    if kinds == want:
        h = beta * eps
        vc.ensures(f"{name}.drift_coefficient", S.cmp("==", coefs["drift"], eps))
        vc.ensures(f"{name}.kick_coefficient", S.cmp("==", coefs["kick"], 0.5 * h if half_kick else h))


def _leapfrog_structure(vc, method, bounded_):
    d = vc.int("d", lo=1)
    n_steps = vc.int("n_steps", lo=1)
    eps = vc.real("epsilon", pos=True)
    beta = vc.real("inv_temp", pos=True)
    log = []
    box = {"log": log, "eps": eps, "beta": beta, "bounded": bounded_}
    t, r = Tracked(d, "t", log), Tracked(d, "r", log)

    def grad(x):
        return Ghost(d, "grad", x)

    ES = vc.obj(HMC + ".epsilon", "EpsilonSelector", epsilon=eps)
    chain = vc.obj(HMC, "HamiltonianChain", inv_temp=beta, ES=ES, mass=MassGhost(d), grad=grad,
                   bounds=Walls(log, d) if bounded_ else None, n_parameters=d)
    fnode = vc.I.get_function(HMC, f"HamiltonianChain.{method}").node
    names = [a.arg for a in fnode.args.args][1:3]          # the position and momentum parameters, whatever they are called
    spec = Steps(vc, box, names)
    vc.loop(f"HamiltonianChain.{method}", "for#0", spec)

    # run the real body with t / r as the frame's locals so that "current" can be resolved
    frames = {}
    orig_call = vc.I.call_function

    def hook(func, args, kwargs):
        return orig_call(func, args, kwargs)

    out = vc.call(chain, method, t, r, n_steps)
    # prologue: a single half kick at the initial position
    pro = log[:box.get("prologue_end", len(log))]
    ok_pro = (len(pro) == 1 and pro[0]["op"] == "+=" and isinstance(pro[0]["arg"], Ghost) and pro[0]["arg"].kind == "grad"
              and pro[0]["target"] is r and pro[0]["arg"].src is t and pro[0]["arg"].src_version == 0)
    vc.ensures("prologue.single_half_kick_at_start", bool(ok_pro))
    if ok_pro:
        vc.ensures("prologue.kick_coefficient", S.cmp("==", pro[0]["arg"].coef, 0.5 * beta * eps))
    epi = log[box.get("epilogue_start", len(log)):]

    _check_segment(vc, box, "epilogue", epi, out[0], half_kick=True)
    vc.ensures("returns_current_position_and_momentum", isinstance(out[0], Tracked) and isinstance(out[1], Tracked)
               and out[0].role == "t" and out[1] is r)


@contract("C07", "standard_leapfrog_structure", native=False, replay_with="trajectory_native", tags=("structural",))
def standard_leapfrog_structure(vc):
    _leapfrog_structure(vc, "standard_leapfrog", False)


@contract("C07", "bounded_leapfrog_structure", native=False, replay_with="trajectory_native", tags=("structural",))
def bounded_leapfrog_structure(vc):
    _leapfrog_structure(vc, "bounded_leapfrog", True)


# ---- mass classes: linear velocity map, momentum law, kinetic energy -------------------------------------------------
@contract("C07", "diagonal_mass", native=False, replay_with="trajectory_native")
def diagonal_mass(vc):
    from pyvc.objlist import RngModel
    d = vc.int("d", lo=1)
    scalar = vc.choice("kind", ["scalar", "vector"]) == "scalar"
    if scalar:
        inv = vc.real("inv_mass", pos=True)
        M = vc.new(MASS, "ScalarMass", inv, d)
        inv_at = lambda i: inv
    else:
        inv = vc.vector("inv_mass", d, pos=True)
        M = vc.new(MASS, "VectorMass", inv, d)
        inv_at = lambda i: inv[i]
    r = vc.vector("r", d)
    s = vc.vector("signs", d)
    v = vc.call(M, "get_velocity", r)
    vc.ensures_forall("velocity_is_inverse_mass_times_momentum", d, lambda i: v[i] == inv_at(i) * r[i])
    vs = vc.call(M, "get_velocity", s * r)
    vc.ensures_forall("velocity_commutes_with_component_sign_flips", d, lambda i: vs[i] == s[i] * v[i])
    rng = RngModel()
    mom = vc.call(M, "sample_momentum", rng)
    dr = [e for e in vc.c.trace if e[0] == "draw" and e[1] == "normal_vec"]
    vc.ensures("one_normal_draw", len(dr) == 1)
    if len(dr) == 1:
        _, _, xi, loc, scale = dr[0]
        sc_at = (lambda i: scale[i]) if isinstance(scale, Tensor) else (lambda i: scale)
        # momenta ~ N(0, M) with M = 1/inv_mass: the kinetic energy r.V(r)/2 = sum r_i^2 inv_i / 2 is its potential
        vc.ensures_forall("momentum_variance_is_the_mass", d,
                          lambda i: S.And(sc_at(i) * sc_at(i) * inv_at(i) == 1, sc_at(i) >= 0, mom[i] == sc_at(i) * xi[i]))
    chain = vc.obj(HMC, "HamiltonianChain", mass=M)
    ke = vc.call(chain, "kinetic_energy", r)
    vc.ensures("kinetic_energy_is_half_r_Minv_r", ke == 0.5 * vc.sum(d, lambda i: r[i] * inv_at(i) * r[i]))


@contract("C07", "mass_dispatch", native=False, replay_with="trajectory_native")
def mass_dispatch(vc):
    """get_particle_mass: scalar -> ScalarMass, 1-d array -> VectorMass"""
    d = vc.int("d", lo=1)
    inv = vc.real("inv_mass", pos=True)
    m1 = vc.callf(MASS, "get_particle_mass", inv, d)
    vc.ensures("scalar_gives_scalar_mass", m1.cls.name == "ScalarMass")
    m2 = vc.callf(MASS, "get_particle_mass", vc.vector("inv_mass_v", d, pos=True), d)
    vc.ensures("vector_gives_vector_mass", m2.cls.name == "VectorMass")


# ---- wall map used by the bounded integrator ---------------------------------------------------------------------------
@contract("C07", "reflect_momenta", native=False, replay_with="trajectory_native")
def reflect_momenta(vc):
    n = vc.int("n", lo=1)
    lower = vc.vector("lower", n)
    width = vc.vector("width", n, pos=True)
    upper = lower + width
    vc.assume_forall(n, lambda i: lower[i] < upper[i])
    B = vc.new("inference.mcmc.utilities", "Bounds", lower=lower, upper=upper)
    u = vc.vector("u", n)
    theta = lower + u * width
    pos, sgn = vc.call(B, "reflect_momenta", theta)
    ref = vc.call(B, "reflect", theta)
    vc.ensures_forall("position_is_the_symmetric_fold", n, lambda i: pos[i] == ref[i])
    vc.ensures_forall("sign_is_plus_or_minus_one", n, lambda i: S.Or(sgn[i] == 1, sgn[i] == -1))
    # u = (theta - lower)/width; floor(u) counts the wall crossings: the momentum is reversed iff that count is odd
    q = lambda i: S.floordiv(u[i], 1)
    vc.ensures_forall("momentum_reversed_iff_odd_number_of_folds", n,
                      lambda i: S.cmp("==", sgn[i], 1 - 2 * S.mod(q(i), 2)))


# ---- finite-difference gradient ----------------------------------------------------------------------------------------
class FdLoop(LoopSpec):
    name = "fd"

    def __init__(self, vc, st):
        super().__init__(vc)
        self.st = st

    def havoc(self, I, fr, k):
        c = ctx()
        st = self.st
        g = z3.Function(str(c.fresh("G_h", "Int")), z3.IntSort(), z3.RealSort())
        for nm, v in list(fr.locals.items()):
            if isinstance(v, Tensor) and v is st["G_obj"]:
                pass
        st["mark"] = len(c.trace)
        st["k"] = k

    def on_iteration_end(self, I, fr, k):
        vc, st = self.vc, self.st
        tr = ctx().trace[st["mark"]:]
        calls = [e for e in tr if e[0] == "posterior"]
        divs = [e for e in tr if e[0] == "division"]
        vc.ensures("one_evaluation_per_coordinate", len(calls) == 1)
        if len(calls) != 1:
            return
        _, arr, snap, val = calls[0]
        t, d, i = st["t"], st["d"], k
        hi = Sym(S.z(snap.at(i)) - S.z(t.at(i)))          # the step actually taken in coordinate i
        vc.ensures("step_is_not_zero", S.Not(S.cmp("==", hi, 0)))
        for e in divs:
            vc.ensures("quotient_defined", Sym(e[1] != 0))
        vc.ensures_forall("only_coordinate_i_is_moved", d,
                          lambda j: S.Implies(S.Not(S.cmp("==", j, i)), snap.at(j) == t.at(j)))
        G = [v for v in fr.locals.values() if isinstance(v, Tensor) and v.ndim == 1 and v is not t and getattr(v, "origin", None) is None]
        Gi = fr.locals[st["G_name"]].at(i)
        # the estimate is of the gradient of the log-posterior F itself: the integrators multiply every gradient -- supplied
        # by the user or estimated here -- by h = inv_temp * epsilon, so a temperature factor here would enter twice
        vc.ensures("entry_is_difference_quotient_of_the_log_posterior", Sym(S.z(Gi) * hi.e == val - st["F_t"]))
        if st["bounded"]:
            lo, up = st["lower"], st["upper"]
            vc.ensures_forall("evaluation_point_inside_bounds", d,
                              lambda j: S.And(lo.at(j) <= snap.at(j), snap.at(j) <= up.at(j)))


@contract("C07", "finite_diff", native=False, replay_with="trajectory_native")
def finite_diff(vc):
    import ast
    from pyvc.objlist import PosteriorGhost, F, as_array
    d = vc.int("d", lo=1)
    beta = vc.real("inv_temp", pos=True)
    bounded_ = vc.choice("bounded", [False, True])
    t = vc.vector("t", d)
    post = PosteriorGhost()
    fields = dict(posterior=post, inv_temp=beta, n_parameters=d, bounds=None)
    st = {"t": t, "d": d, "beta": beta, "bounded": bounded_}
    if bounded_:
        lower = vc.vector("lower", d, origin="state")
        width = vc.vector("width", d, pos=True, origin="state")
        upper = lower + width
        vc.assume_forall(d, lambda i: S.And(lower[i] <= t[i], t[i] <= upper[i]))     # the current point is inside
        B = vc.obj("inference.mcmc.utilities", "Bounds", lower=lower, upper=upper, width=width, n_bounds=d)
        fields["bounds"] = B
        st["lower"], st["upper"] = lower, upper
    chain = vc.obj(HMC, "HamiltonianChain", **fields)
    f = vc.I.get_function(HMC, "HamiltonianChain.finite_diff")
    # the array that receives the estimate: the local assigned from zeros(...)
    names = [n.targets[0].id for n in ast.walk(f.node) if isinstance(n, ast.Assign) and isinstance(n.targets[0], ast.Name)
             and ast.unparse(n.value).startswith("zeros(")]
    if not names:
        raise S.Unsupported("finite_diff: result array not found")
    st["G_name"] = names[0]
    st["G_obj"] = None
    st["F_t"] = F(as_array(t))
    vc.loop("HamiltonianChain.finite_diff", "for#0", FdLoop(vc, st))
    vc.call(chain, "finite_diff", t)


@contract("C07", "matrix_mass", native=False, replay_with="trajectory_native")
def matrix_mass(vc):
    d = vc.int("d", lo=2)
    inv = vc.matrix("inv_mass", d, d)
    vc.assume_forall((d, d), lambda i, j: inv[i, j] == inv[j, i])
    M = vc.new(MASS, "MatrixMass", inv, d)
    r = vc.vector("r", d)
    s = vc.vector("signs", d)
    vc.assume_forall(d, lambda i: S.Or(s[i] == 1, s[i] == -1))
    v = vc.call(M, "get_velocity", r)
    vc.ensures_forall("velocity_is_inverse_mass_times_momentum", d, lambda i: v[i] == vc.sum(d, lambda k: inv[i, k] * r[k]))
    vs = vc.call(M, "get_velocity", s * r)
    # needed by the bounded integrator (the wall flips single momentum components): FAILS for a full matrix
    vc.ensures_forall("velocity_commutes_with_component_sign_flips", d, lambda i: vs[i] == s[i] * v[i])


@contract("C07", "matrix_mass_momentum_law", native=False, replay_with="trajectory_native")
def matrix_mass_momentum_law(vc):
    """momenta are drawn as L xi with xi standard normal and L L^T = (inverse mass)^-1: their covariance is the mass matrix, the
    one whose inverse get_velocity / kinetic_energy use"""
    from pyvc import matalg as MA
    from pyvc.objlist import RngModel, draws
    d = vc.int("d", lo=2)
    A = MA.atom("inv_mass", d, d, symmetric=True)
    Mn = vc.new(MASS, "MatrixMass", A, d)
    L = vc.attr(Mn, "L")
    vc.ensures("factor_times_its_transpose_is_the_mass_matrix", MA.mat_eq(L @ L.T, MA.inverse_of(A)))
    r = vc.call(Mn, "sample_momentum", RngModel("rng"))
    dr = draws("normal_vec")
    vc.ensures("one_standard_normal_vector_is_drawn", len(dr) == 1 and dr[0][3] == 0.0 and dr[0][4] == 1.0)
    if len(dr) == 1:
        xi = dr[0][2]
        vc.ensures("momentum_is_factor_times_standard_normals", MA.mat_eq(r, L @ xi))


@bounded("C07", "matrix_mass_bounds_native", native_runs=6)
def matrix_mass_bounds_native(vc):
    seed = vc.int("seed", lo=0, hi=10 ** 6)
    rng = np.random.default_rng(seed)
    ch, post, bounds = _chain(vc, rng, 2, True, "matrix", 1.0)
    ch.ES.epsilon = 0.3 * float(np.min(bounds[1] - bounds[0]))
    t0 = ch.theta[-1].copy()
    r0 = ch.mass.sample_momentum(ch.rng)
    worst = 0.0
    for n in (5, 11, 23):
        t1, r1 = ch.run_leapfrog(t0.copy(), r0.copy(), n)
        t2, r2 = ch.run_leapfrog(t1.copy(), -r1.copy(), n)
        worst = max(worst, float(np.abs(t2 - t0).max()), float(np.abs(r2 + r0).max()))
    vc.inputs["worst_return_error"] = worst
    vc.ensures("reversible_with_matrix_mass_and_bounds", worst < 1e-5)


@bounded("C07", "reflected_energy_native", native_runs=1)
def reflected_energy_native(vc):
    """STRICT energy check for trajectories that bounce: the property asks for an energy change that shrinks quadratically with
    the step size *with or without bounds*.  The reflecting integrator folds the position and flips the momentum at the end of a
    whole drift, and the following kick uses the gradient on one side of the wall for the whole step: where the log-density has a
    non-zero slope at the wall this is a momentum error of first order in the step per bounce (recorded finding; diagonal mass,
    so unrelated to the matrix-mass finding)."""
    from inference.mcmc import HamiltonianChain
    seed = vc.int("seed", lo=0, hi=1000)
    rng = np.random.default_rng(seed)
    c, s = np.array([0.8, -0.3]), np.array([1.0, 0.7])
    post = lambda t: float(-0.5 * np.sum(((t - c) / s) ** 2) - 0.1 * np.sum(t ** 4))
    grad = lambda t: -((t - c) / s ** 2) - 0.4 * t ** 3
    t0 = rng.uniform(-0.5, 0.5, size=2)
    r0 = rng.normal(size=2) * 1.5
    ch = HamiltonianChain(posterior=post, grad=grad, start=t0, epsilon=0.02, bounds=(np.array([-1.0, -1.0]), np.array([1.0, 1.0])),
                          inverse_mass=np.array([0.5, 2.0]), display_progress=False)
    errs = []
    for eps in (0.02, 0.01, 0.005, 0.0025):
        ch.ES.epsilon = eps
        a, b = ch.run_leapfrog(t0.copy(), r0.copy(), int(round(4.0 / eps)))
        errs.append(abs(ch.hamiltonian(a, b) - ch.hamiltonian(t0, r0)))
    vc.inputs["energy_errors_for_steps_0.02_0.01_0.005_0.0025"] = [float(e) for e in errs]
    # quadratic: a factor ~16 over two halvings; accept anything beyond a factor 6 (first order gives ~4, no convergence ~1)
    vc.ensures("energy_error_second_order_with_reflections", errs[0] < 1e-9 or (errs[2] <= errs[0] / 6.0 and errs[3] <= errs[1] / 6.0))


@bounded("C07", "hmc_fold_parity_native", native_runs=30)
def hmc_fold_parity_native(vc):
    """far overshoots of a Hamiltonian trajectory: on a FLAT log-density the real bounded trajectory is the straight line
    t0 + n eps v folded into the box, and each momentum component is reversed exactly when its coordinate crossed an odd number
    of walls (reference: mirror by mirror, written here); drifts of up to a dozen box widths per step"""
    import numpy as np
    from inference.mcmc import HamiltonianChain
    seed = vc.int("seed", lo=0, hi=10 ** 6)
    rng = np.random.default_rng(seed)
    d = vc.int("d", lo=1, hi=3)
    w = np.exp(rng.uniform(-1.0, 1.0, size=d))
    lo = rng.normal(size=d) * 3
    hi = lo + w
    t0 = lo + w * rng.uniform(0.05, 0.95, size=d)
    ch = HamiltonianChain(posterior=lambda t: 0.0, grad=lambda t: np.zeros(d), start=t0.copy(), bounds=(lo, hi),
                          epsilon=0.5, display_progress=False)
    eps = float(rng.uniform(0.2, 0.6))
    ch.ES.epsilon = eps
    overshoot = vc.choice("widths_per_drift", [0.3, 1.3, 2.4, 3.7, 12.5])
    r0 = w * overshoot / eps * rng.choice([-1.0, 1.0], size=d) * rng.uniform(0.8, 1.2, size=d)
    v0 = np.asarray(ch.mass.get_velocity(r0), dtype=float)
    n = int(rng.integers(1, 6))
    t1, r1 = ch.run_leapfrog(t0.copy(), r0.copy(), n)
    t_ref, sgn = np.zeros(d), np.ones(d)
    for c in range(d):
        x, s, left = float(t0[c]), 1.0, abs(n * eps * float(v0[c]))
        direction = 1.0 if v0[c] > 0 else -1.0
        while left > 0:
            room = (hi[c] - x) if direction > 0 else (x - lo[c])
            if left <= room:
                x, left = x + direction * left, 0.0
            else:
                x, left, direction, s = (hi[c] if direction > 0 else lo[c]), left - room, -direction, -s
        t_ref[c], sgn[c] = x, s
    vc.inputs.update({"t0": t0.tolist(), "r0": r0.tolist(), "lower": lo.tolist(), "upper": hi.tolist(), "n_steps": n, "epsilon": eps,
                      "position": np.asarray(t1).tolist(), "position_expected": t_ref.tolist(),
                      "momentum": np.asarray(r1).tolist(), "momentum_expected": (r0 * sgn).tolist()})
    tol = 1e-9 * (np.abs(lo) + np.abs(hi) + abs(n * eps) * np.abs(v0))
    # a trajectory that ends within rounding of a wall may be counted on either side of it: such cases decide nothing
    near_wall = np.minimum(np.abs(t_ref - lo), np.abs(hi - t_ref)) <= 10 * tol
    vc.ensures("trajectory_inside_the_limits", bool(np.all(t1 >= lo - tol) and np.all(t1 <= hi + tol)))
    vc.ensures("position_is_the_symmetric_fold_of_the_free_trajectory", bool(np.all(near_wall | (np.abs(t1 - t_ref) <= 1e3 * tol))))
    vc.ensures("momentum_reversed_exactly_for_an_odd_number_of_folds", bool(np.all(near_wall | (np.abs(r1 - r0 * sgn) <= 1e-9 * np.abs(r0)))))
