"""EnsembleSampler.__advance_walker under contract (C01, C03, C04).

Ghost: rows(w) = the position of walker w as an array; class invariant walker_probs[w] = F(rows(w))
(the ensemble sampler has no temperature)."""
import ast
import z3
from pyvc import sym as S
from pyvc.sym import Sym, Unsupported, ctx
from pyvc.tensor import Tensor, SymList
from pyvc.loops import LoopSpec
from pyvc.objlist import RngModel, PosteriorGhost, F, ARR

ENS = "inference.mcmc.ensemble"
UTIL = "inference.mcmc.utilities"


def resolve_roles(func):
    roles = {}
    for n in ast.walk(func.node):
        if isinstance(n, ast.Assign) and len(n.targets) == 1:
            src = ast.unparse(n.value)
            t = n.targets[0]
            if isinstance(t, ast.Name):
                if "self.posterior(" in src:
                    roles.setdefault("p_new", t.id)
                elif src.startswith("exp("):
                    roles.setdefault("q", t.id)
            elif isinstance(t, ast.Tuple) and "proposal(" in src and len(t.elts) == 2:
                roles.setdefault("Y", t.elts[0].id)
                roles.setdefault("z", t.elts[1].id)
    for r in ("p_new", "q", "Y", "z"):
        if r not in roles:
            raise Unsupported(f"EnsembleSampler.__advance_walker: cannot resolve the local playing the role '{r}'")
    return roles


class EnsState:
    def __init__(self, vc, bounded):
        c = vc.c
        self.vc, self.bounded = vc, bounded
        self.d = vc.int("d", lo=1)
        self.nw = vc.int("n_walkers", lo=2)
        self.alpha = vc.real("alpha")
        c.defs.append(self.alpha.e > 1)
        d, nw = self.d, self.nw
        I_, R_ = z3.IntSort(), z3.RealSort()
        self.WP = z3.Function("WP", I_, I_, R_)
        self.WQ = z3.Function("WQ", I_, R_)
        self.rows = z3.Function("rows", I_, ARR)
        WP, WQ, rows = self.WP, self.WQ, self.rows
        c.add_forall((nw, d), lambda w, j: rows(S.z(w))[S.z(j)] == WP(S.z(w), S.z(j)), "rows")
        c.add_forall((nw,), lambda w: WQ(S.z(w)) == F(rows(S.z(w))), "walker-inv")
        self.rng = RngModel("rng")
        self.post = PosteriorGhost()
        self.positions = Tensor((nw, d), lambda w, j: Sym(WP(S.z(w), S.z(j))), origin="state:walker_positions")
        self.wprobs = Tensor((nw,), lambda w: Sym(WQ(S.z(w))), origin="state:walker_probs")
        x_lwr = vc.sqrt(2.0 / self.alpha)
        x_width = vc.sqrt(2.0 * self.alpha) - x_lwr
        self.x_lwr, self.x_width = x_lwr, x_width
        tp = SymList(nw, lambda w: SymList(vc.fresh_int("tp_len", 0), lambda t: 1))
        fu = SymList(vc.fresh_int("fu_len", 1), lambda t: Sym(z3.Function("FU", I_, I_)(S.z(t))))
        self.chain = vc.obj(ENS, "EnsembleSampler", walker_positions=self.positions, walker_probs=self.wprobs,
                            n_walkers=nw, n_parameters=d, posterior=self.post, rng=self.rng, alpha=self.alpha,
                            x_lwr=x_lwr, x_width=x_width, max_attempts=vc.int("max_attempts", lo=1),
                            total_proposals=tp, failed_updates=fu)
        if bounded:
            self.lower = vc.vector("lower", d, origin="state")
            width = vc.vector("width", d, pos=True, origin="state")
            self.upper = self.lower + width
            vc.assume_forall(d, lambda i: self.lower[i] < self.upper[i])
            self.bounds = vc.new(UTIL, "Bounds", lower=self.lower, upper=self.upper)
            self.chain.fields["bounds"] = self.bounds
            self.chain.fields["process_proposal"] = vc.I.get_attr(self.bounds, "reflect")
            lo, up = self.lower, self.upper
            c.add_forall((nw, d), lambda w, j: z3.And(S.z(lo.at(j)) <= WP(S.z(w), S.z(j)),
                                                     WP(S.z(w), S.z(j)) <= S.z(up.at(j))), "walkers-inside")
        else:
            self.bounds = None
            self.chain.fields["bounds"] = None
            self.chain.fields["process_proposal"] = vc.I.get_attr(self.chain, "pass_through")

    def limits_ok(self, j, v):
        if not self.bounded:
            return z3.BoolVal(True)
        return z3.And(S.z(self.lower.at(Sym(j))) <= v, v <= S.z(self.upper.at(Sym(j))))


class Attempts(LoopSpec):
    name = "attempts"

    def __init__(self, vc, st, roles, i):
        super().__init__(vc)
        self.st, self.roles, self.i = st, roles, i
        self.accepted = None

    def havoc(self, I, fr, k):
        self.mark = len(ctx().trace)
        for nm in self.roles.values():
            fr.locals.pop(nm, None)

    def on_break(self, I, fr, k):
        self._edge(I, fr, "accept")

    def on_iteration_end(self, I, fr, k):
        self._edge(I, fr, "reject")

    def _edge(self, I, fr, edge):
        vc, st = self.vc, self.st
        tr = ctx().trace[self.mark:]
        calls = [e for e in tr if e[0] == "posterior"]
        us = [e for e in tr if e[0] == "draw" and e[1] == "uniform01"]
        ints = [e for e in tr if e[0] == "draw" and e[1] == "integers"]
        vc.ensures(f"C01/{edge}.one_evaluation_per_decision", len(calls) == 1 and len(ints) == 1 and len(us) == 2)
        if not (len(calls) == 1 and len(ints) == 1 and len(us) == 2):
            return
        _, arr, snap, val = calls[0]
        zi = S.z(self.i)
        kdraw = S.z(ints[0][2])
        u_z, u_acc = S.z(us[0][2]), S.z(us[1][2])
        nw = S.z(st.nw)
        # the partner walker: (k + i) mod n_walkers with k in [1, n_walkers): never walker i itself
        j = S.mod(S.add(ints[0][2], self.i), st.nw)      # Python's % on the same terms the code used
        vc.ensures(f"C01/{edge}.partner_is_another_walker", Sym(z3.And(j.e != zi, j.e >= 0, j.e < nw)))
        # stretch variable z = x^2/2 with x uniform on [sqrt(2/alpha), sqrt(2 alpha)):  z in [1/alpha, alpha) with
        # density proportional to 1/sqrt(z) (change of variables, dz = x dx)
        zv = S.z(fr.locals[self.roles["z"]])
        x = S.z(st.x_lwr) + S.z(st.x_width) * u_z
        lo_, hi_ = S.z(st.x_lwr), S.z(st.x_lwr) + S.z(st.x_width)          # sqrt(2/alpha), sqrt(2 alpha)
        al = st.alpha.e
        vc.ensures(f"C01/{edge}.stretch_variable.form", Sym(zv == x * x / 2))
        # small steps for the non-linear solver: end points, ordering, range of x, range of z
        vc.lemma(f"C01/{edge}.stretch_variable.end_points", Sym(z3.And(lo_ >= 0, hi_ >= 0, lo_ * lo_ * al == 2, hi_ * hi_ == 2 * al)))
        vc.lemma(f"C01/{edge}.stretch_variable.end_points_ordered", Sym(lo_ <= hi_))
        vc.lemma(f"C01/{edge}.stretch_variable.x_range", Sym(z3.And(lo_ <= x, x <= hi_)))
        vc.lemma(f"C01/{edge}.stretch_variable.x_squared_range", Sym(z3.And(lo_ * lo_ <= x * x, x * x <= hi_ * hi_)))
        vc.ensures(f"C01/{edge}.stretch_variable.range", Sym(z3.And(x * x / 2 * al >= 1, x * x / 2 <= al)))
        # Goodman-Weare stretch move for walker i:  Y = fold( X_j + z (X_i - X_j) )
        Xi = Tensor((st.d,), lambda c_: Sym(st.WP(zi, S.z(c_))))
        Xj = Tensor((st.d,), lambda c_: Sym(st.WP(j.e, S.z(c_))))
        expected = I.call(I.get_attr(st.chain, "process_proposal"), [Xj + Sym(zv) * (Xi - Xj)])
        vc.ensures_forall(f"C01/{edge}.stretch_move", st.d,
                          lambda c_: Sym(S.z(snap.at(c_)) == S.z(expected.at(c_))))
        p_new = S.z(fr.locals[self.roles["p_new"]])
        q = S.z(fr.locals[self.roles["q"]])
        vc.ensures(f"C01/{edge}.new_value", Sym(p_new == val))
        # acceptance probability min(1, z^(d-1) pi(Y)/pi(X_i)) with the current value F(X_i)
        logz = vc.log(Sym(zv))
        expo = vc.exp((st.d - 1) * logz + Sym(val) - Sym(F(st.rows(zi))))
        vc.ensures(f"C01/{edge}.acceptance_probability", Sym(q) == expo)
        if edge == "accept":
            vc.ensures("C01/accept.metropolis_rule", Sym(u_acc <= q))
            self.accepted = (arr, snap, val)
        else:
            vc.ensures("C01/reject.metropolis_rule", Sym(z3.Not(u_acc <= q)))
        vc.ensures_forall(f"C04/{edge}.evaluation_inside_limits", st.d,
                          lambda c_: Sym(st.limits_ok(S.z(c_), S.z(snap.at(c_)))))


def ensemble_advance_walker(vc):
    bounded = vc.choice("bounded", [False, True])
    st = EnsState(vc, bounded)
    i = vc.index("i", st.nw)
    func = vc.I.get_function(ENS, "EnsembleSampler._EnsembleSampler__advance_walker")
    roles = resolve_roles(func)
    spec = Attempts(vc, st, roles, i)
    vc.loop("EnsembleSampler.__advance_walker", "for#0", spec)
    vc.call(st.chain, "_EnsembleSampler__advance_walker", i)
    pos = vc.attr(st.chain, "walker_positions")
    wp = vc.attr(st.chain, "walker_probs")
    zi = S.z(i)
    # the class invariant is re-established: every walker's stored log-probability is F of its stored position
    if spec.accepted is not None:
        arr, snap, val = spec.accepted
        vc.ensures("C03/updated_walker.logprob", Sym(S.z(wp.at(i)) == val))
        vc.ensures_forall("C03/updated_walker.position", st.d, lambda c_: Sym(S.z(pos.at(i, c_)) == S.z(snap.at(c_))))
    else:
        vc.ensures("C03/unmoved_walker.logprob", Sym(S.z(wp.at(i)) == st.WQ(zi)))
        vc.ensures_forall("C03/unmoved_walker.position", st.d, lambda c_: Sym(S.z(pos.at(i, c_)) == st.WP(zi, S.z(c_))))
    vc.ensures_forall("C03/other_walkers_untouched", (st.nw, st.d),
                      lambda w, c_: Sym(z3.Implies(S.z(w) != zi, z3.And(S.z(pos.at(w, c_)) == st.WP(S.z(w), S.z(c_)),
                                                                          S.z(wp.at(w)) == st.WQ(S.z(w))))))
    vc.ensures_forall("C04/updated_walker_inside_limits", st.d,
                      lambda c_: Sym(st.limits_ok(S.z(c_), S.z(pos.at(i, c_)))))
    vc.ensures_forall("C04/other_walkers_untouched", (st.nw, st.d),
                      lambda w, c_: Sym(z3.Implies(S.z(w) != zi, S.z(pos.at(w, c_)) == st.WP(S.z(w), S.z(c_)))))
