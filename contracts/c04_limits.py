"""C04 -- parameter limits are never violated (Bounds fold, Parameter proposals)."""
from pyvc.vc import contract

UTIL = "inference.mcmc.utilities"


def _bounds(vc, n):
    lower = vc.vector("lower", n)
    width = vc.vector("width", n, pos=True, sample=lambda r: abs(r.uniform(-1, 1)) * 10 ** r.uniform(-6, 6) + 1e-300)
    upper = lower + width
    vc.assume_forall(n, lambda i: vc.lt(lower[i], upper[i]))
    B = vc.new(UTIL, "Bounds", lower=lower, upper=upper)
    return lower, upper, B


@contract("C04", "reflect")
def reflect(vc):
    n = vc.int("n", lo=1, hi=4)
    lower, upper, B = _bounds(vc, n)
    # every point is lower + u*width for some u (width > 0): no loss of generality, and it keeps the
    # fold arithmetic linear for the solver
    u = vc.vector("u", n, sample=lambda r: r.uniform(-3, 3) * 10 ** r.choice([0, 0, 0, 1, 3, 6, 12]))
    w = upper - lower
    theta = lower + u * w
    out = vc.call(B, "reflect", theta)
    vc.ensures_forall("inside", n, lambda i: vc.And(vc.le(lower[i], out[i], scale=_sc(vc, lower, upper, i)),
                                                    vc.le(out[i], upper[i], scale=_sc(vc, lower, upper, i))))
    vc.ensures_forall("identity", n, lambda i: vc.Implies(
        vc.And(lower[i] <= theta[i], theta[i] <= upper[i]), vc.eq(out[i], theta[i], scale=_sc(vc, lower, upper, i))))
    # symmetric fold: invariant under the generating reflections and the period
    out_lo = vc.call(B, "reflect", 2 * lower - theta)
    out_hi = vc.call(B, "reflect", 2 * upper - theta)
    out_p = vc.call(B, "reflect", theta + 2 * w)
    sc = lambda i: abs(theta[i]) + _sc(vc, lower, upper, i) if vc.mode == "native" else None
    vc.ensures_forall("fold_lo", n, lambda i: vc.eq(out_lo[i], out[i], scale=sc(i)))
    vc.ensures_forall("fold_hi", n, lambda i: vc.eq(out_hi[i], out[i], scale=sc(i)))
    vc.ensures_forall("period", n, lambda i: vc.eq(out_p[i], out[i], scale=sc(i)))


def _sc(vc, lower, upper, i):
    if vc.mode != "native":
        return None
    return max(abs(lower[i]), abs(upper[i]), upper[i] - lower[i])


from contracts.mcmc_gibbs import gibbs_take_step
contract("C04", "gibbs_take_step", native=False)(gibbs_take_step)


from contracts.mcmc_pca import pca_take_step
contract("C04", "pca_take_step", native=False)(pca_take_step)


from contracts.mcmc_hmc import hmc_take_step
contract("C04", "hmc_take_step", native=False)(hmc_take_step)


from contracts.mcmc_ensemble import ensemble_advance_walker
contract("C04", "ensemble_advance_walker", native=False)(ensemble_advance_walker)
