"""C04 -- parameter limits are never violated (Bounds fold, Parameter proposals)."""
from pyvc.vc import contract

UTIL = "inference.mcmc.utilities"


def _bounds(vc, n):
    lower = vc.vector("lower", n)
    width = vc.vector("width", n, pos=True, sample=lambda r: abs(r.uniform(-1, 1)) * 10 ** r.uniform(-6, 6) + 1e-300)
    upper = lower + width
    vc.assume_forall(n, lambda i: vc.lt(lower[i], upper[i]))
    B = vc.new(UTIL, "Bounds", lower=lower, upper=upper)
    return lower, upper, B


@contract("C04", "reflect")
def reflect(vc):
    n = vc.int("n", lo=1, hi=4)
    lower, upper, B = _bounds(vc, n)
    # every point is lower + u*width for some u (width > 0): no loss of generality, and it keeps the
    # fold arithmetic linear for the solver
    u = vc.vector("u", n, sample=lambda r: r.uniform(-3, 3) * 10 ** r.choice([0, 0, 0, 1, 3, 6, 12]))
    w = upper - lower
    theta = lower + u * w
    out = vc.call(B, "reflect", theta)
    vc.ensures_forall("inside", n, lambda i: vc.And(vc.le(lower[i], out[i], scale=_sc(vc, lower, upper, i)),
                                                    vc.le(out[i], upper[i], scale=_sc(vc, lower, upper, i))))
    vc.ensures_forall("identity", n, lambda i: vc.Implies(
        vc.And(lower[i] <= theta[i], theta[i] <= upper[i]), vc.eq(out[i], theta[i], scale=_sc(vc, lower, upper, i))))
    # symmetric fold: invariant under the generating reflections and the period
    out_lo = vc.call(B, "reflect", 2 * lower - theta)
    out_hi = vc.call(B, "reflect", 2 * upper - theta)
    out_p = vc.call(B, "reflect", theta + 2 * w)
    sc = lambda i: abs(theta[i]) + _sc(vc, lower, upper, i) if vc.mode == "native" else None
    vc.ensures_forall("fold_lo", n, lambda i: vc.eq(out_lo[i], out[i], scale=sc(i)))
    vc.ensures_forall("fold_hi", n, lambda i: vc.eq(out_hi[i], out[i], scale=sc(i)))
    vc.ensures_forall("period", n, lambda i: vc.eq(out_p[i], out[i], scale=sc(i)))


def _sc(vc, lower, upper, i):
    if vc.mode != "native":
        return None
    return max(abs(lower[i]), abs(upper[i]), upper[i] - lower[i])


from contracts.mcmc_gibbs import gibbs_take_step
contract("C04", "gibbs_take_step", native=False, replay_with="limits_native")(gibbs_take_step)


from contracts.mcmc_pca import pca_take_step
contract("C04", "pca_take_step", native=False, replay_with="limits_native")(pca_take_step)


from contracts.mcmc_hmc import hmc_take_step
contract("C04", "hmc_take_step", native=False, replay_with="limits_native")(hmc_take_step)


from contracts.mcmc_ensemble import ensemble_advance_walker
contract("C04", "ensemble_advance_walker", native=False, replay_with="limits_native")(ensemble_advance_walker)


# ---------------------------------------------------------------------------------------------------
# Parameter: the limit state machine.  Class invariant (the rule Parameter.load uses):
#   bounded            => proposal is boundary_proposal, lower < upper, width == upper - lower
#   not bounded, nn    => proposal is abs_proposal
#   not bounded, not nn=> proposal is standard_proposal
# Every operation preserves it from every invariant state, changes only its own limit, and leaves the other
# limit in force; by induction this covers every order of set/clear calls.
# ---------------------------------------------------------------------------------------------------
GIBBS = "inference.mcmc.gibbs"


def _expected(bounded, nn):
    return "boundary_proposal" if bounded else ("abs_proposal" if nn else "standard_proposal")


def _proposal_name(vc, p):
    pr = vc.attr(p, "proposal")
    if vc.mode == "native":
        return pr.__name__
    return pr.func.name


def _param(vc, bounded, nn):
    lo = vc.real("lo0")
    w = vc.real("w0", pos=True)
    if vc.mode == "native":
        from inference.mcmc.gibbs import Parameter
        from pyvc.vc import Handle
        p = Parameter(1.0, 0.5)
        if nn:
            p.non_negative = True
        if bounded:
            p.set_boundaries(lo, lo + w)
        ih = None
        return Handle(p, None), lo, w
    p = vc.new(GIBBS, "Parameter", 1.0, 0.5)
    p.fields["_non_negative"] = nn
    p.fields["bounded"] = bounded
    if bounded:
        p.fields["lower"], p.fields["upper"], p.fields["width"] = lo, lo + w, w
    p.fields["proposal"] = vc.I.get_attr(p, _expected(bounded, nn))
    return p, lo, w


@contract("C04", "parameter_state_machine")
def parameter_state_machine(vc):
    bounded = vc.choice("bounded", [False, True])
    nn = vc.choice("non_negative", [False, True])
    p, lo0, w0 = _param(vc, bounded, nn)
    op = vc.choice("op", ["set_boundaries", "set_bad_boundaries", "remove_boundaries", "nn_on", "nn_off", "nn_bad"])
    b2, n2 = bounded, nn
    if op == "set_boundaries":
        lo = vc.real("lo1")
        w = vc.real("w1", pos=True)
        vc.call(p, "set_boundaries", lo, lo + w)
        b2 = True
        vc.ensures("set.limits", vc.And(vc.attr(p, "lower") == lo, vc.attr(p, "upper") == lo + w,
                                        vc.eq(vc.attr(p, "width"), w)))
    elif op == "set_bad_boundaries":
        lo = vc.real("lo1")
        hi = vc.real("hi1")
        vc.assume(lo >= hi)
        vc.call(p, "set_boundaries", lo, hi)       # rejected with a warning: nothing changes
    elif op == "remove_boundaries":
        vc.call(p, "remove_boundaries")
        b2 = False
    elif op == "nn_on":
        vc.setattr_prop(p, "non_negative", True)
        n2 = True
    elif op == "nn_off":
        vc.setattr_prop(p, "non_negative", False)
        n2 = False
    else:
        vc.setattr_prop(p, "non_negative", 1)      # not a bool: rejected with a warning
    vc.ensures("flags", vc.And(vc.attr(p, "bounded") == b2, vc.attr(p, "_non_negative") == n2))
    vc.ensures("proposal_matches_limits_in_force", _proposal_name(vc, p) == _expected(b2, n2))
    if b2 and op not in ("set_boundaries",):
        vc.ensures("other_limit_kept", vc.And(vc.attr(p, "lower") == lo0, vc.attr(p, "upper") == lo0 + w0))
    if b2:
        vc.ensures("box_well_formed", vc.And(vc.attr(p, "lower") < vc.attr(p, "upper"),
                                             vc.eq(vc.attr(p, "width"), vc.attr(p, "upper") - vc.attr(p, "lower"))))

from contracts.mcmc_native import limits_native  # noqa: registers the bounded layer


# the finite-difference gradient of HamiltonianChain evaluates the posterior too: its contract (C07) carries the clause
# "every evaluation point lies inside the bounds" and is checked under this property as well
from contracts.c07_hamiltonian import finite_diff as _finite_diff
contract("C04", "finite_diff", native=False, replay_with="limits_native")(_finite_diff)

# limits given at construction stay in force after a save / load round trip: the round-trip contracts of C09 carry the clauses
# "bounds restored" and "the reflecting map / bounded integrator is selected again", checked under this property as well
from contracts.c09_persistence import pca_roundtrip as _pr, hmc_roundtrip as _hr, ensemble_roundtrip as _er, gibbs_roundtrip as _gr
contract("C04", "gibbs_roundtrip", native=False, replay_with="limits_native")(_gr)
contract("C04", "pca_roundtrip", native=False, replay_with="limits_native")(_pr)
contract("C04", "hmc_roundtrip", native=False, replay_with="limits_native")(_hr)
contract("C04", "ensemble_roundtrip", native=False, replay_with="limits_native")(_er)


# "for Hamiltonian trajectories the momentum component is reversed exactly when its coordinate was folded an odd number of times":
# the fold-with-parity map (Bounds.reflect_momenta) and its use after every drift of the real bounded_leapfrog loop are C07
# contracts; they are obligations of this property as well (a trajectory that stays inside the limits with the wrong momentum
# parity breaks C04's clause although no recorded point leaves the box)
from contracts.c07_hamiltonian import reflect_momenta as _rm, bounded_leapfrog_structure as _bls
contract("C04", "reflect_momenta", native=False, replay_with="limits_native")(_rm)
contract("C04", "bounded_leapfrog_structure", native=False, replay_with="hmc_fold_parity_native", tags=("structural",))(_bls)

# far overshoots of the real trajectory (fold + momentum parity against a mirror-by-mirror reference): bounded companion written
# with the C07 contracts, run under this property as well
from pyvc.vc import bounded as _bounded
from contracts.c07_hamiltonian import hmc_fold_parity_native as _hfp
_bounded("C04", "hmc_fold_parity_native", native_runs=30)(_hfp)
