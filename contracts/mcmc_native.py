"""Bounded layer for the sampler properties: the real samplers are driven through random operation sequences
with seeded generators and logged posterior evaluations; the class invariants are re-checked after every
operation.  Labelled bounded; never counted as proved."""
import numpy as np
from pyvc.vc import bounded
from contracts.common import Posterior, KINDS, make_sampler, stored_points, quiet, seed_chain


def _limits(vc, kind, d, rng):
    mode = vc.choice("limits", ["none", "box", "box_far", "box_tiny", "box_negative"])
    if mode == "none":
        return None
    centre = rng.normal(size=d) * 0.5 + 1.0
    if mode == "box":
        w = np.exp(rng.uniform(-1, 1.5, size=d))
    elif mode == "box_negative":          # every coordinate negative (relative steps, abs() and sign handling)
        centre = -(np.abs(centre) + 3.0) * 10 ** rng.uniform(0, 3)
        w = np.exp(rng.uniform(-1, 1.0, size=d))
    elif mode == "box_far":
        centre = centre + 1e6
        w = np.exp(rng.uniform(-1, 1.5, size=d))
    else:
        w = np.full(d, 1e-3)
    return centre - w * rng.uniform(0.2, 0.8, size=d), centre + w * rng.uniform(0.2, 0.8, size=d)


def _build(vc, with_limits=True):
    kind = vc.choice("sampler", ["gibbs", "pca", "hmc", "hmc_fd", "ensemble", "metropolis", "ensemble_int"])
    d = vc.int("d", lo=1, hi=3)
    T = vc.choice("temperature", [1.0, 2.5, 0.5])
    seed = vc.int("seed", lo=0, hi=10 ** 6)
    rng = np.random.default_rng(seed)
    bounds = _limits(vc, kind, d, rng) if with_limits else None
    if kind == "ensemble_int":
        bounds = None
    post = Posterior(KINDS[seed % len(KINDS)], d, rng)
    if bounds is not None:
        post.mu = 0.5 * (bounds[0] + bounds[1])
        post.scale = 0.5 * (bounds[1] - bounds[0])
    kw = {}
    k2 = kind
    if kind == "hmc_fd":
        k2, kw = "hmc", {"grad": None}
    if kind == "ensemble_int":
        k2, bounds = "ensemble", None
        kw = {"integer_starts": True}            # starting positions handed over as an integer array
    if k2 == "ensemble":
        T = 1.0
    if kind == "metropolis":
        bounds = None                            # (the base class has no limits of its own)
    eps = 0.1 if bounds is None else 0.1 * float(np.min(bounds[1] - bounds[0]))
    if k2 == "hmc" and bounds is not None and d == 1 and seed % 2:
        bounds = ([float(bounds[0][0])], [float(bounds[1][0])])        # one parameter: bounds as length-1 lists
        post.mu, post.scale = np.array([0.5 * (bounds[0][0] + bounds[1][0])]), np.array([0.5 * (bounds[1][0] - bounds[0][0])])
        ch = make_sampler(k2, post, d, rng, temperature=T, bounds=(np.array(bounds[0]), np.array(bounds[1])), seed=seed, epsilon=eps, **kw)
        from inference.mcmc import HamiltonianChain
        ch = HamiltonianChain(posterior=post, start=ch.theta[-1], grad=kw.get("grad", post.grad), epsilon=eps, temperature=T,
                              bounds=bounds, display_progress=False)
        seed_chain(ch, seed)
        bounds = (np.array(bounds[0]), np.array(bounds[1]))
    else:
        ch = make_sampler(k2, post, d, rng, temperature=T, bounds=bounds, seed=seed, epsilon=eps, **kw) \
            if k2 == "hmc" else make_sampler(k2, post, d, rng, temperature=T, bounds=bounds, seed=seed, **kw)
    return kind, k2, d, T, seed, rng, bounds, post, ch


@bounded("C03", "chain_invariant_native", native_runs=40)
def chain_invariant_native(vc):
    kind, k2, d, T, seed, rng, bounds, post, ch = _build(vc)
    beta = 1.0 / T if k2 != "ensemble" else 1.0

    def check(tag):
        X, P = stored_points(ch)
        ok = len(X) == len(P)
        for k in range(len(P)):
            want = beta * post.f(X[k])
            ok = ok and abs(P[k] - want) <= 1e-9 * max(1.0, abs(want))
        vc.ensures(f"logprob_is_beta_F_of_sample.{tag}", bool(ok))
        if len(P):
            m = np.asarray(ch.mode()).reshape(-1)
            kmax = int(np.argmax(P))
            vc.ensures("mode_is_a_stored_sample_of_maximal_logprob",
                       bool(any(np.array_equal(m, X[k]) and P[k] == P[kmax] for k in range(len(P)))))
        if k2 == "ensemble":
            wp = np.array([post.f(x) for x in ch.walker_positions])
            vc.ensures("walker_logprob_is_F_of_walker", bool(np.allclose(wp, ch.walker_probs, rtol=1e-9, atol=1e-12)))

    check("start")
    n_ops = vc.int("n_ops", lo=1, hi=5)
    for _ in range(n_ops):
        op = rng.integers(0, 4)
        if op == 3:
            # saved and loaded in mid-run: what is recorded afterwards belongs to the same temperature as what was recorded before
            import os, tempfile
            tmpd = tempfile.mkdtemp(prefix="c03_")
            path = os.path.join(tmpd, "s.npz")
            try:
                ch.save(path)
                kwl = {"posterior": post}
                if k2 == "hmc":
                    kwl["grad"] = None if kind == "hmc_fd" else post.grad
                ch = type(ch).load(path, **kwl)
                seed_chain(ch, seed + 3)
            finally:
                for f_ in os.listdir(tmpd):
                    os.remove(os.path.join(tmpd, f_))
                os.rmdir(tmpd)
            quiet(ch.advance, 2)
        elif op == 0:
            ch.take_step()
        elif op == 1:
            quiet(ch.advance, int(rng.integers(0, 4)))
        elif k2 != "ensemble":
            # what a parallel-tempering exchange does to a chain
            x = stored_points(ch)[0][-1] + 0.01 * rng.normal(size=d)
            if bounds is not None:
                x = np.clip(x, bounds[0], bounds[1])
            L = post.f(x)
            ch.replace_last(x)
            ch.probs[-1] = L * ch.inv_temp
        check("after_op")


@bounded("C03", "integer_valued_logprob_native", native_runs=12)
def integer_valued_logprob_native(vc):
    """a log-density that hands back Python ints where its value is integral (`return 0` on a flat top) -- at the starting
    point(s) and later: what is recorded is still the value at the recorded sample, not its integer part"""
    kind = vc.choice("sampler", ["gibbs", "pca", "hmc", "ensemble", "metropolis"])
    d = vc.int("d", lo=1, hi=3)
    T = vc.choice("temperature", [1.0, 2.5])
    seed = vc.int("seed", lo=0, hi=10 ** 6)
    rng = np.random.default_rng(seed)
    post = Posterior("plateau", d, rng)
    post.scale = post.scale * 2.0            # every start lies on the flat top
    if kind == "ensemble":
        T = 1.0
    ch = make_sampler(kind, post, d, rng, temperature=T, seed=seed, epsilon=0.3)
    vc.inputs["starts_on_flat_top"] = bool(all(v == 0.0 for _, v in post.calls))
    beta = 1.0 / T
    for n in (0, 25, 25):
        quiet(ch.advance, n)
        X, P = stored_points(ch)
        ok = len(X) == len(P) and all(abs(P[k] - beta * post.f(X[k])) <= 1e-9 * max(1.0, abs(beta * post.f(X[k]))) for k in range(len(P)))
        vc.ensures("logprob_is_beta_F_of_sample_for_integer_valued_returns", bool(ok))
        if kind == "ensemble":
            wp = np.array([post.f(x) for x in ch.walker_positions])
            vc.ensures("walker_logprob_is_F_of_walker_for_integer_valued_returns", bool(np.allclose(wp, ch.walker_probs, rtol=1e-9, atol=1e-12)))
    vc.inputs["left_flat_top"] = bool(any(v != 0.0 for _, v in post.calls))


@bounded("C15", "default_widths_native", native_runs=8)
def default_widths_native(vc):
    """chains built without explicit proposal widths (the constructor derives them from the starting point) from starting points
    with negative, zero and positive coordinates: advancing works and adds exactly the requested number of samples, and the derived
    widths are positive"""
    from inference.mcmc import GibbsChain, PcaChain
    from inference.mcmc.gibbs import MetropolisChain
    kind = vc.choice("sampler", ["gibbs", "pca", "metropolis"])
    seed = vc.int("seed", lo=0, hi=10 ** 6)
    rng = np.random.default_rng(seed)
    d = vc.int("d", lo=1, hi=3)
    start = rng.normal(size=d) * 3.0
    signs = vc.choice("start", ["negative", "mixed", "with_zero"])
    if signs == "negative":
        start = -np.abs(start) - 0.5
    elif signs == "with_zero":
        start[0] = 0.0
    mu = start.copy()
    post = lambda t: float(-0.5 * np.sum((np.asarray(t, dtype=float) - mu) ** 2))
    cls = {"gibbs": GibbsChain, "pca": PcaChain, "metropolis": MetropolisChain}[kind]
    ch = cls(posterior=post, start=start, display_progress=False)
    seed_chain(ch, seed)
    vc.ensures("derived_widths_are_positive", all(float(p.sigma) > 0 for p in ch.params))
    quiet(ch.advance, 150)
    X, P = stored_points(ch)
    vc.ensures("advance_adds_the_requested_samples", X.shape[0] == 151 and len(P) == 151 and ch.chain_length == 151)
    vc.ensures("the_chain_moves", bool(np.all(X.std(axis=0) > 0)))


@bounded("C03", "shared_inputs_native", native_runs=20)
def shared_inputs_native(vc):
    """samplers built from the same input arrays evolve independently and leave the arrays unchanged"""
    from inference.mcmc import GibbsChain, PcaChain, HamiltonianChain, EnsembleSampler
    kind = vc.choice("sampler", ["gibbs", "pca", "hmc", "ensemble"])
    d = vc.int("d", lo=1, hi=3)
    seed = vc.int("seed", lo=0, hi=10 ** 6)
    rng = np.random.default_rng(seed)
    post = Posterior("gauss", d, rng)
    start = post.mu + 0.1 * rng.normal(size=d)
    widths = np.full(d, 0.5)
    lo, hi = post.mu - 5.0, post.mu + 5.0
    pos = start[None, :] + 0.3 * rng.normal(size=(2 * d + 2, d))
    inputs = [start, widths, lo, hi, pos]
    before = [a.copy() for a in inputs]

    def mk():
        if kind == "gibbs":
            return GibbsChain(posterior=post, start=start, widths=widths, display_progress=False)
        if kind == "pca":
            return PcaChain(posterior=post, start=start, widths=widths, bounds=(lo, hi), display_progress=False)
        if kind == "hmc":
            return HamiltonianChain(posterior=post, start=start, grad=post.grad, bounds=(lo, hi), display_progress=False)
        return EnsembleSampler(posterior=post, starting_positions=pos, bounds=(lo, hi), display_progress=False)

    a, b, solo = mk(), mk(), mk()
    seed_chain(a, 11)
    seed_chain(b, 22)
    seed_chain(solo, 11)
    for _ in range(3):
        quiet(a.advance, 2)
        quiet(b.advance, 3)
        quiet(solo.advance, 2) if False else None
    for _ in range(3):
        quiet(solo.advance, 2)
    Xa, Pa = stored_points(a)
    Xs, Ps = stored_points(solo)
    vc.ensures("interleaved_equals_isolated", bool(Xa.shape == Xs.shape and np.array_equal(Xa, Xs) and np.array_equal(Pa, Ps)))
    vc.ensures("caller_arrays_unchanged", bool(all(np.array_equal(x, y) for x, y in zip(inputs, before))))


@bounded("C04", "limits_native", native_runs=40)
def limits_native(vc):
    """every recorded sample and every point handed to the posterior lies inside the limits in force, up to a
    few units of rounding at the scale of the limits"""
    kind, k2, d, T, seed, rng, bounds, post, ch = _build(vc)
    if bounds is None:
        bounds = (np.full(d, -np.inf), np.full(d, np.inf))
    lo, hi = bounds
    scale = np.where(np.isfinite(lo), np.maximum(np.maximum(np.abs(lo), np.abs(hi)), hi - lo), 1.0)
    tol = 8 * np.finfo(float).eps * scale
    if k2 == "gibbs" and bool(np.isfinite(hi[0])) and abs(float(hi[0])) < 1e3 and vc.bool("non_negative_and_boundaries"):
        # both kinds of limit in force on parameter 0: boundaries reaching below zero AND the non-negativity switch
        up0 = abs(float(hi[0])) + 0.5
        ch.set_boundaries(0, (-up0, up0))
        post.mu[0], post.scale[0] = 0.4 * up0, 0.5 * up0          # keep the target where the allowed interval is
        ch.params[0].samples[-1] = 0.3 * up0
        ch.probs[-1] = post.f(ch.get_last()) * ch.inv_temp
        ch.set_non_negative(0, True)
        lo = lo.copy(); hi = hi.copy()
        lo[0], hi[0] = 0.0, up0
        tol[0] = 8 * np.finfo(float).eps * up0
    elif k2 == "gibbs" and vc.bool("non_negative"):
        # a non-negativity switch on a parameter without boundaries
        ch.set_boundaries(0, None, remove=True)
        ch.params[0].samples[-1] = abs(ch.params[0].samples[-1])
        ch.probs[-1] = post.f(ch.get_last()) * ch.inv_temp
        ch.set_non_negative(0, True)
        lo = lo.copy(); hi = hi.copy()
        lo[0], hi[0] = 0.0, np.inf
        tol[0] = 0.0
    # overshooting proposals: widths / step sizes far larger than the allowed interval
    if vc.bool("huge_proposals"):
        for p in getattr(ch, "params", []) or []:
            p.sigma = 1e4 * (1.0 + abs(p.sigma))
        if hasattr(ch, "ES"):
            ch.ES.epsilon *= 30.0
    # limits stay in force through a save / load round trip
    if k2 in ("pca", "hmc", "ensemble", "gibbs", "metropolis") and kind != "hmc_fd" and vc.bool("restored_from_file"):
        import os, tempfile
        tmpd = tempfile.mkdtemp(prefix="c04_")
        path = os.path.join(tmpd, "s.npz")
        try:
            ch.save(path)
            kwl = {"posterior": post}
            if k2 == "hmc":
                kwl["grad"] = post.grad
            ch2 = type(ch).load(path, **kwl)
            seed_chain(ch2, seed + 1)
            ch = ch2
        finally:
            for f_ in os.listdir(tmpd):
                os.remove(os.path.join(tmpd, f_))
            os.rmdir(tmpd)
    post.calls.clear()
    try:
        with np.errstate(all="ignore"):
            quiet(ch.advance, 6)
    except ValueError:
        pass    # HamiltonianChain may give up after max_attempts: documented
    X, P = stored_points(ch)
    has_lo, has_hi = np.isfinite(lo), np.isfinite(hi)       # only limits that are in force are checked

    def inside(x):
        return bool(np.all(x[has_lo] >= (lo - tol)[has_lo]) and np.all(x[has_hi] <= (hi + tol)[has_hi]))

    vc.ensures("stored_samples_inside_limits", all(inside(x) for x in X))
    vc.ensures("posterior_evaluated_inside_limits", all(inside(x) for x, _ in post.calls))
