"""Shared helpers for the native (bounded) harnesses: posteriors, seeded sampler factories, monitors."""
import io
import contextlib
import numpy as np


class Posterior:
    """a log-density with a log of every evaluation (argument copies and returned values)"""

    def __init__(self, kind, d, rng):
        self.kind, self.d = kind, d
        self.calls = []
        self.A = None
        if kind == "corr":
            M = rng.normal(size=(d, d))
            self.A = M @ M.T / d + np.eye(d) * 0.5
        self.mu = rng.normal(size=d) * 0.5 + 1.0 if kind != "origin" else np.zeros(d)
        self.scale = np.exp(rng.uniform(-1, 1, size=d))

    def f(self, x):
        x = np.asarray(x, dtype=float)
        z = (x - self.mu) / self.scale
        if self.kind in ("gauss", "origin"):
            return float(-0.5 * np.sum(z * z))
        if self.kind == "corr":
            return float(-0.5 * (x - self.mu) @ self.A @ (x - self.mu))
        if self.kind == "banana":
            r = z.copy()
            if self.d > 1:
                r[1:] = r[1:] - 0.3 * (z[0] ** 2 - 1)
            return float(-0.5 * np.sum(r * r))
        if self.kind == "bimodal":
            return float(np.logaddexp(-0.5 * np.sum((z - 1.5) ** 2), -0.5 * np.sum((z + 1.5) ** 2)))
        if self.kind == "student":
            return float(-2.0 * np.sum(np.log1p(z * z / 3.0)))
        if self.kind == "plateau":          # flat top (value exactly 0, handed back as a Python int) with Gaussian shoulders
            return float(-0.5 * np.sum(np.maximum(np.abs(z) - 1.5, 0.0) ** 2))
        raise ValueError(self.kind)

    def grad_f(self, x):
        x = np.asarray(x, dtype=float)
        h = 1e-6 * (1 + np.abs(x))
        g = np.zeros(self.d)
        for i in range(self.d):
            e = np.zeros(self.d)
            e[i] = h[i]
            g[i] = (self.f(x + e) - self.f(x - e)) / (2 * h[i])
        return g

    def __call__(self, x):
        v = self.f(x)
        self.calls.append((np.array(x, dtype=float).copy(), v))
        if self.kind == "plateau" and v == 0.0:
            return 0                        # what `return 0` in a user's function gives: an int, not a float
        return v

    def grad(self, x):
        return self.grad_f(x)


KINDS = ["gauss", "corr", "banana", "bimodal", "student"]       # all smooth; "plateau" (C1 only) is used by name where wanted


def quiet(fn, *a, **k):
    with contextlib.redirect_stdout(io.StringIO()):
        return fn(*a, **k)


def seed_chain(chain, seed):
    """give every generator of a sampler a fixed seed"""
    if hasattr(chain, "rng"):
        chain.rng = np.random.default_rng(seed)
    for i, p in enumerate(getattr(chain, "params", []) or []):
        p.rng = np.random.default_rng(seed * 1000 + i + 1)


def make_sampler(kind, post, d, rng, temperature=1.0, bounds=None, seed=1, **kw):
    from inference.mcmc import GibbsChain, PcaChain, HamiltonianChain, EnsembleSampler
    start = post.mu + 0.1 * rng.normal(size=d)
    if bounds is not None:
        lo, hi = bounds
        start = np.clip(start, lo + 0.05 * (hi - lo), hi - 0.05 * (hi - lo))
    if kind in ("gibbs", "metropolis"):
        from inference.mcmc.gibbs import MetropolisChain
        cls_ = GibbsChain if kind == "gibbs" else MetropolisChain          # (MetropolisChain: the base class of both)
        ch = cls_(posterior=post, start=start, widths=np.full(d, 0.5), temperature=temperature,
                  display_progress=False)
        if bounds is not None:
            for i in range(d):
                ch.set_boundaries(i, (bounds[0][i], bounds[1][i]))
    elif kind == "pca":
        ch = PcaChain(posterior=post, start=start, widths=np.full(d, 0.5), temperature=temperature,
                      bounds=bounds, display_progress=False)
    elif kind == "hmc":
        ch = HamiltonianChain(posterior=post, start=start, grad=kw.get("grad", post.grad), epsilon=kw.get("epsilon", 0.1),
                              temperature=temperature, bounds=bounds, inverse_mass=kw.get("inverse_mass"),
                              display_progress=False)
    elif kind == "ensemble":
        nw = kw.get("n_walkers", 2 * d + 2)
        pos = start[None, :] + 0.3 * rng.normal(size=(nw, d))
        if bounds is not None:
            pos = bounds[0] + (bounds[1] - bounds[0]) * rng.uniform(0.05, 0.95, size=(nw, d))
        if kw.get("integer_starts"):
            pos = np.round(pos * 3).astype(int) + np.arange(nw)[:, None] * (np.arange(d)[None, :] + 1)
        ch = EnsembleSampler(posterior=post, starting_positions=pos, bounds=bounds, display_progress=False)
    else:
        raise ValueError(kind)
    seed_chain(ch, seed)
    return ch


def stored_points(chain):
    """(samples as (N,d) array, log-probs as (N,) array) of any sampler, straight from its storage"""
    if hasattr(chain, "params"):
        X = np.array([p.samples for p in chain.params]).T
        return X, np.array(chain.probs)
    if hasattr(chain, "theta"):
        return np.array(chain.theta), np.array(chain.probs)
    if chain.sample is None:
        return np.zeros((0, chain.n_parameters)), np.zeros(0)
    return np.array(chain.sample), np.array(chain.sample_probs)
