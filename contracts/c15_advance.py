"""C15 -- advancing a sampler adds exactly the requested number of samples."""
from pyvc.vc import contract
from pyvc.loops import LoopSpec
from pyvc import sym as S

BASE = "inference.mcmc.base"
GIBBS = "inference.mcmc.gibbs"


def take_step_summary(vc):
    """modular contract of take_step as seen from advance/run_for: exactly one more stored sample
    (proved per sampler by the C15.*.take_step_plus_one contracts)"""
    def handler(I, func, args, kwargs):
        obj = args[0]
        obj.fields["chain_length"] = S.add(obj.fields["chain_length"], 1)
        cost = vc.fresh_real("step_cost")      # arbitrary non-negative time per step
        vc.c.assume(cost >= 0)
        last = vc.c.uf_cache.get("clock_last")
        if last is not None:
            vc.c.uf_cache["clock_last"] = last + cost.e
        return None
    return handler


class CountSteps(LoopSpec):
    """a loop whose body takes one step per iteration"""
    structural = True

    def __init__(self, vc, name):
        super().__init__(vc)
        self.name = name

    def setup(self, I, fr):
        self.obj = fr.locals["self"]
        self.entry = self.obj.fields["chain_length"]

    def havoc(self, I, fr, k):
        self.obj.fields["chain_length"] = self.vc.fresh_int("len_h")

    def invariant(self, I, fr, k):
        return S.cmp("==", self.obj.fields["chain_length"], S.add(self.entry, k))


class Groups(LoopSpec):
    """outer progress loop of advance(): after j groups, j*(m // n_groups) steps were taken"""
    structural = True

    def __init__(self, vc, name, m, n_groups):
        super().__init__(vc)
        self.name, self.m, self.n_groups = name, m, n_groups

    def setup(self, I, fr):
        self.obj = fr.locals["self"]
        self.entry = self.obj.fields["chain_length"]

    def havoc(self, I, fr, k):
        self.obj.fields["chain_length"] = self.vc.fresh_int("len_h")

    def invariant(self, I, fr, k):
        per = S.floordiv(self.m, self.n_groups)
        return S.cmp("==", self.obj.fields["chain_length"], S.add(self.entry, S.mul(k, per)))


@contract("C15", "advance_count", native=False, replay_with="advance_native")
def advance_count(vc):
    m = vc.int("m", lo=0)
    L0 = vc.int("L0", lo=1)
    chain = vc.obj(GIBBS, "GibbsChain", chain_length=L0)
    vc.modular("MarkovChain.take_step", take_step_summary(vc))
    vc.modular("MetropolisChain.take_step", take_step_summary(vc))
    vc.modular("GibbsChain.take_step", take_step_summary(vc))
    vc.loop("MarkovChain.advance", "for#0", Groups(vc, "groups", m, 100))
    vc.loop("MarkovChain.advance", "comp#0", CountSteps(vc, "group_steps"))
    vc.loop("MarkovChain.advance", "comp#1", CountSteps(vc, "cleanup_steps"))
    vc.call(chain, "advance", m)
    vc.ensures("exactly_m_steps", vc.attr(chain, "chain_length") == L0 + m)


class TimedLoop(LoopSpec):
    """run_for's while loop: every pass takes at least one whole step"""
    name = "timed"

    def setup(self, I, fr):
        self.obj = fr.locals["self"]
        self.start = self.obj.fields["chain_length"]

    def _interval(self, fr):
        # the local holding the number of steps of the next batch: the argument of the inner range()
        return fr.locals[self.interval_name]

    def havoc(self, I, fr, k):
        self.obj.fields["chain_length"] = self.vc.fresh_int("len_h")
        self.head = self.obj.fields["chain_length"]

    def invariant(self, I, fr, k):
        return S.And(S.cmp(">=", self._interval(fr), 1), S.cmp(">=", self.obj.fields["chain_length"], self.start))

    def on_iteration_end(self, I, fr, k):
        self._oblige("whole_step_every_pass", S.cmp(">=", self.obj.fields["chain_length"], S.add(self.head, 1)))
        # the next batch is sized from the rate observed in THIS run: (steps taken since the call began) / (time elapsed since
        # the call began) -- so that the clock is consulted about once per second and the run stops soon after the budget
        u = self._interval(fr)
        el = fr.locals.get(self.elapsed_name)
        done = S.sub(self.obj.fields["chain_length"], self.start)
        if el is None:
            self._oblige("next_batch_is_sized_by_the_rate_of_this_run", False)
        else:
            self._oblige("next_batch_is_sized_by_the_rate_of_this_run",
                         S.And(S.cmp(">", el, 0), S.Or(S.cmp("==", u, 1), S.cmp("<=", S.mul(u, el), done))))


def _range_arg_name(vc, module, qualname, tag="for#0"):
    """name of the local passed to range() in the given loop (resolved from the AST, not hard-coded)"""
    import ast
    f = vc.I.get_function(module, qualname)
    loops = [n for n in ast.walk(f.node) if isinstance(n, ast.For)]
    loops.sort(key=lambda n: (n.lineno, n.col_offset))
    it = loops[int(tag.split("#")[1])].iter
    if isinstance(it, ast.Call) and getattr(it.func, "id", "") == "range" and isinstance(it.args[-1], ast.Name):
        return it.args[-1].id
    from pyvc.sym import Unsupported
    raise Unsupported("run_for: batch loop is not `for _ in range(<name>)`")


def _divisor_name(vc, module, qualname, target):
    """the local that divides the step count where `target` (the batch size) is re-computed"""
    import ast
    f = vc.I.get_function(module, qualname)
    for n in ast.walk(f.node):
        if isinstance(n, ast.While):
            for a in ast.walk(n):
                if isinstance(a, ast.Assign) and isinstance(a.targets[0], ast.Name) and a.targets[0].id == target:
                    for b in ast.walk(a.value):
                        if isinstance(b, ast.BinOp) and isinstance(b.op, ast.Div) and isinstance(b.right, ast.Name):
                            return b.right.id
    from pyvc.sym import Unsupported
    raise Unsupported("run_for: the batch size is not recomputed as <steps> / <elapsed>")


@contract("C15", "run_for", native=False, replay_with="advance_native")
def run_for_progress(vc):
    L0 = vc.int("L0", lo=1)
    minutes = vc.real("minutes", lo=0)
    hours = vc.real("hours", lo=0)
    days = vc.real("days", lo=0)
    chain = vc.obj(GIBBS, "GibbsChain", chain_length=L0)
    for q in ("MarkovChain.take_step", "MetropolisChain.take_step", "GibbsChain.take_step"):
        vc.modular(q, take_step_summary(vc))
    spec = TimedLoop(vc)
    spec.interval_name = _range_arg_name(vc, BASE, "MarkovChain.run_for")
    spec.elapsed_name = _divisor_name(vc, BASE, "MarkovChain.run_for", spec.interval_name)
    vc.loop("MarkovChain.run_for", "while#0", spec)
    vc.loop("MarkovChain.run_for", "for#0", CountSteps(vc, "batch"))
    vc.divisions_defined()
    vc.call(chain, "run_for", minutes=minutes, hours=hours, days=days)
    vc.ensures("never_loses_samples", vc.attr(chain, "chain_length") >= L0)


from pyvc.sym import Sym

# ---------------------------------------------------------------------------------------------------
# bounded layer: the real samplers
# ---------------------------------------------------------------------------------------------------
from pyvc.vc import bounded
import numpy as np


@bounded("C15", "advance_native", native_runs=60)
def advance_native(vc):
    from contracts.common import Posterior, KINDS, make_sampler, stored_points, quiet
    kind = vc.choice("sampler", ["gibbs", "pca", "hmc", "ensemble"])
    d = vc.int("d", lo=1, hi=3)
    m = vc.choice("m", [0, 1, 7, 99, 100, 101, 150] + list(range(2, 260, 3)))
    m2 = vc.choice("m2", [0, 1, 3, 100, 29, 57, 113])
    seed = vc.int("seed", lo=0, hi=10 ** 6)
    rng = np.random.default_rng(seed)
    post = Posterior(KINDS[seed % 3], d, rng)
    ch = make_sampler(kind, post, d, rng, seed=seed)
    per = ch.n_walkers if kind == "ensemble" else 1
    n0 = stored_points(ch)[0].shape[0]
    with vc.raising_allowed() if False else _null():
        try:
            quiet(ch.advance, m)
            quiet(ch.advance, m2)
        except Exception as e:
            vc.ensures("advance_does_not_raise", False)
            return
    X, P = stored_points(ch)
    vc.ensures("exactly_m_steps", X.shape[0] == n0 + (m + m2) * per)
    vc.ensures("probs_match_samples", P.shape[0] == X.shape[0])
    vc.ensures("chain_length_is_stored_count", ch.chain_length == X.shape[0])


class _null:
    def __enter__(self):
        return self

    def __exit__(self, *a):
        return False


advance_count.__dict__  # (keeps linters quiet)
from pyvc.vc import REGISTRY
for _c in REGISTRY["C15"]:
    if _c.name == "advance_count":
        _c.replay_with = None


class _PoolGhost:
    """multiprocessing.Pool under its documented contract: map(f, items) = [f(copy_k(item_k)) for k], results in the order of the
    items, each item pickled to a worker on its own (ASSUMED: the copies are independent of one another and of the parent's
    objects -- which is exactly what the pooled-vs-sequential clause depends on; decided in the bounded layer on real processes)"""
    vc_attrs = ("map",)

    def __init__(self):
        self.maps = []

    def _map(self, I, f, items):
        out = []
        for it in list(items):
            n_, ch = it
            cp = _ChainGhost(ch.k, copy_of=ch)
            out.append(I.call(f, [(n_, cp)], {}))
        self.maps.append((f, list(items), out))
        return out

    @property
    def map(self):
        g = self

        def m(I, f, items):
            return g._map(I, f, items)
        m.wants_interp = True
        return m


class _ChainGhost:
    vc_attrs = ("advance",)

    def __init__(self, k, copy_of=None):
        self.k, self.copy_of, self.advanced = k, copy_of, []

    def advance(self, n):
        self.advanced.append(n)


@contract("C15", "pool_advance", native=False, replay_with="pool_native")
def pool_advance(vc):
    """ChainPool.advance(n): every chain of the pool is handed to the pool exactly once, each copy is advanced by exactly n (through
    the chain's own advance, whose contract is advance_count), and the pool's chains become the advanced copies in the same order"""
    size = vc.choice("pool_size", [1, 2, 3, 4])
    n = vc.int("n", lo=0)
    chains = [_ChainGhost(k) for k in range(size)]
    pool = _PoolGhost()
    cp = vc.obj("inference.mcmc.parallel", "ChainPool", chains=list(chains), pool_size=size, pool=pool)
    vc.call(cp, "advance", n)
    out = vc.attr(cp, "chains")
    vc.ensures("one_map_over_all_chains", len(pool.maps) == 1 and len(out) == size)
    ok = len(out) == size
    for k in range(min(size, len(out))):
        c = out[k]
        ok = ok and isinstance(c, _ChainGhost) and c.copy_of is chains[k] and len(c.advanced) == 1
        if ok:
            vc.ensures("copy_k_advanced_by_exactly_n", c.advanced[0] == n)
    vc.ensures("pool_holds_the_advanced_copies_in_order", bool(ok))
    vc.ensures("originals_not_advanced_in_the_parent", all(not c.advanced for c in chains))


@bounded("C15", "pool_native", native_runs=10)
def pool_native(vc):
    """ChainPool.advance(n) on real worker processes against the same chains advanced one after another.  The chains are built
    exactly as a user builds them (their generators are NOT re-seeded one by one), the sequential twins are one deep copy of the
    whole list (so generator states, and any state the chains share, are those of the pooled chains at the moment of the call)"""
    import copy
    from inference.mcmc import GibbsChain, PcaChain, HamiltonianChain, ChainPool
    from inference.mcmc.gibbs import MetropolisChain
    from contracts.common import Posterior, stored_points, quiet
    seed = vc.int("seed", lo=0, hi=10 ** 6)
    rng = np.random.default_rng(seed)
    size = vc.choice("pool_size", [1, 2, 3, 4])
    n = vc.choice("n", [0, 1, 37, 120])
    d = vc.int("d", lo=1, hi=3)
    post = Posterior("gauss", d, rng)
    post.calls = None
    post.__class__ = _QuietPosterior
    chains = []
    mixed = vc.bool("mixed_classes")
    kinds = []
    for k in range(size):
        kind = ["gibbs", "metropolis", "gibbs", "pca", "hmc"][int(rng.integers(0, 5))] if mixed or k == 0 else kind
        kinds.append(kind)
        start = post.mu + 0.3 * rng.normal(size=d)
        if kind == "gibbs":
            c = GibbsChain(posterior=post, start=start, widths=np.full(d, 0.5), display_progress=False)
        elif kind == "metropolis":
            c = MetropolisChain(posterior=post, start=start, widths=np.full(d, 0.5), display_progress=False)
        elif kind == "pca":
            c = PcaChain(posterior=post, start=start, widths=np.full(d, 0.5), display_progress=False)
        else:
            c = HamiltonianChain(posterior=post, grad=post.grad, start=start, epsilon=0.2, display_progress=False)
        chains.append(c)
    vc.inputs["classes"] = kinds
    twins = copy.deepcopy(chains)
    cp = ChainPool(chains)
    try:
        quiet(cp.advance, n)
        out = list(cp.chains)
    finally:
        cp.pool.close()
        cp.pool.join()
    for t in twins:
        quiet(t.advance, n)
    same, counts = len(out) == size, True
    for a, b in zip(out, twins):
        Xa, Pa = stored_points(a)
        Xb, Pb = stored_points(b)
        counts = counts and Xa.shape[0] == 1 + n and a.chain_length == 1 + n
        same = same and type(a) is type(b) and Xa.shape == Xb.shape and np.array_equal(Xa, Xb) and np.array_equal(Pa, Pb)
    vc.ensures("every_pooled_chain_advanced_by_n", bool(counts))
    vc.ensures("pool_ends_in_the_state_of_sequential_advancement", bool(same))
    if size > 1 and n >= 37:
        # (chains started at different points never coincide by chance)
        X = [stored_points(c)[0][-1] for c in out]
        vc.ensures("pooled_chains_are_distinct", all(not np.array_equal(X[0], x) for x in X[1:]))


from contracts.common import Posterior as _P


class _QuietPosterior(_P):
    """(no evaluation log: the object is pickled to the workers and back)"""

    def __call__(self, x):
        return self.f(x)


@bounded("C15", "run_for_native", native_runs=30)
def run_for_native(vc):
    """timed run against a scripted clock: each step costs `cost` seconds of fake time"""
    from contracts.common import Posterior, make_sampler, quiet
    import inference.mcmc.base as base
    kind = vc.choice("sampler", ["gibbs", "hmc", "ensemble", "pca"])
    cost = vc.choice("cost", [2e-3, 0.3, 0.999, 1.0, 1.5, 7.0, 61.0, 400.0])
    minutes = vc.choice("minutes", [0.02, 0.5, 1.0, 3.0, 0.0])
    minutes = min(minutes, cost * 1500 / 60.0)      # keep the number of simulated steps small
    seed = vc.int("seed", lo=0, hi=1000)
    rng = np.random.default_rng(seed)
    post = Posterior("gauss", 2, rng)
    ch = make_sampler(kind, post, 2, rng, seed=seed)
    history = vc.choice("steps_already_in_the_chain", [0, 0, 300, 4000])
    if kind in ("hmc", "ensemble"):
        history = min(history, 200)
    if history:
        quiet(ch.advance, history if kind != "ensemble" else history // 20)      # a timed run on a chain that already holds samples

    class Clock:
        now = 1000.0
        reads = 0

        def __call__(self):
            Clock.reads += 1
            if Clock.reads > 200000:
                raise RuntimeError("clock read 200000 times: run_for is spinning")
            return Clock.now

    real_step = ch.take_step
    steps = [0]

    def step():
        Clock.now += cost
        steps[0] += 1
        # the run may overshoot by about one status interval (one second's worth of stored samples: for the ensemble
        # sampler one step stores n_walkers samples, so its interval is n_walkers times longer)
        slack = 2.0 * (ch.n_walkers if kind == "ensemble" else 1)
        if steps[0] > (minutes * 60 + slack) / cost + 50:
            raise RuntimeError("far more steps than the budget allows")
        return real_step()

    ch.take_step = step
    saved = base.time
    base.time = Clock()
    try:
        n0 = ch.chain_length
        try:
            quiet(ch.run_for, minutes=minutes)
        except (RuntimeError, ZeroDivisionError, AttributeError, UnboundLocalError) as e:
            vc.inputs["error"] = f"{type(e).__name__}: {e}"[:160]
            vc.ensures("timed_run_terminates_normally", False)
            return
    finally:
        base.time = saved
    per_step = 1 if kind != "ensemble" else ch.n_walkers
    vc.ensures("took_whole_steps", ch.chain_length - n0 == steps[0] * per_step and (steps[0] >= 1 or minutes == 0.0))
    vc.ensures("budget_used_up", Clock.now - 1000.0 >= minutes * 60.0)
    if minutes == 0.0:
        vc.ensures("zero_budget_takes_no_step", steps[0] == 0)


from contracts.mcmc_gibbs import gibbs_take_step
contract("C15", "gibbs_take_step", native=False, replay_with="advance_native")(gibbs_take_step)


from contracts.mcmc_pca import pca_take_step
contract("C15", "pca_take_step", native=False, replay_with="advance_native")(pca_take_step)


from contracts.mcmc_hmc import hmc_take_step
contract("C15", "hmc_take_step", native=False, replay_with="advance_native")(hmc_take_step)


from contracts.mcmc_native import default_widths_native  # noqa: registers the bounded contract (chains built with derived widths)


# "every sampler" includes chains advanced under parallel tempering: advance(n, swap_interval) advances every chain by exactly n,
# whatever the relation of n to the swap interval -- the C08 contract and its real-process harness, checked here as well
from contracts.c08_tempering import advance_step_count as _asc, tempering_native as _tpn
contract("C15", "tempering_advance_step_count", native=False, replay_with="tempering_native")(_asc)
bounded("C15", "tempering_native", native_runs=3)(_tpn)
