"""C06 -- priors are normalised, sample from themselves, and compose by index."""
import z3
from pyvc.vc import contract, bounded
from pyvc import sym as S
from pyvc.sym import Sym, ctx
from pyvc.tensor import Tensor, SymList
from pyvc.diff import derivative

PRI = "inference.priors"
POST = "inference.posterior"
SENTINEL = -1e100


def _var_list(vc, n, n_total, name="vars"):
    """a list of n distinct variable indices in [0, n_total) -- any assignment, any order"""
    f = z3.Function(name, z3.IntSort(), z3.IntSort())
    c = vc.c
    c.add_forall((n,), lambda k: z3.And(f(S.z(k)) >= 0, f(S.z(k)) < S.z(n_total)), name + "-range")
    c.add_forall((n, n), lambda a, b: z3.Implies(S.z(a) != S.z(b), f(S.z(a)) != f(S.z(b))), name + "-distinct")

    def at(k):
        c.add_index_term(f(S.z(k)), n_total)
        c.mark_nonneg(f(S.z(k)))
        return Sym(f(S.z(k)))

    return SymList(n, at, origin="input:" + name), f


def _install_rng(vc):
    """priors draw from a module-level generator"""
    from pyvc.objlist import RngModel
    m = vc.I.load_module(PRI)
    m.env["rng"] = RngModel("priors.rng")


def _draws(vc, kind):
    return [e for e in vc.c.trace if e[0] == "draw" and e[1] == kind]


def _setup(vc):
    n = vc.int("n", lo=1)
    n_total = vc.int("n_total", lo=1)
    vc.assume(n <= n_total)
    theta = vc.vector("theta", n_total)
    variables, vf = _var_list(vc, n, n_total)
    _install_rng(vc)
    return n, n_total, theta, variables


@contract("C06", "gaussian_prior", native=False, replay_with="priors_native")
def gaussian_prior(vc):
    n, n_total, theta, variables = _setup(vc)
    mean = vc.vector("mean", n)
    sigma = vc.vector("sigma", n, pos=True)
    P = vc.new(PRI, "GaussianPrior", mean=mean, sigma=sigma, variable_indices=variables)
    x = lambda k: theta[variables.at(k)]
    logf = lambda k: -0.5 * ((x(k) - mean[k]) / sigma[k]) ** 2 - vc.log(sigma[k]) - 0.5 * vc.log(2 * vc.pi)
    val = vc.call(P, "__call__", theta)
    vc.ensures("value_is_sum_of_normal_log_densities", val == vc.sum(n, logf))
    g = vc.call(P, "gradient", theta)
    vc.ensures("gradient.length", S.cmp("==", g.shape[0], n))
    vc.ensures_forall("gradient.formula", n, lambda k: g[k] == (mean[k] - x(k)) / (sigma[k] * sigma[k]))

    def is_derivative(k):
        xk = S.z(x(k))
        return g[k] == derivative(logf(k), lambda e: z3.RealVal(1) if e.eq(xk) else None)
    vc.ensures_forall("gradient.is_derivative_of_log_density", n, is_derivative)
    smp = vc.call(P, "sample")
    dr = _draws(vc, "normal_vec")
    vc.ensures("sample.one_normal_draw", len(dr) == 1)
    if len(dr) == 1:
        _, _, xi, loc, scale = dr[0]
        # (one independent standard-normal variate per coordinate, placed at the coordinate's own mean and scale)
        vc.ensures_forall("sample.law_is_normal_mean_sigma", n, lambda k: smp[k] == mean[k] + sigma[k] * xi[k])
    b = vc.attr(P, "bounds")
    vc.ensures("bounds.length", b.length() == n)
    vc.ensures_forall("bounds.unbounded_support", n, lambda k: b.at(k) == (None, None))
    vc.ensures("cost_is_negative", vc.call(P, "cost", theta) == -val)


@contract("C06", "exponential_prior", native=False, replay_with="priors_native")
def exponential_prior(vc):
    n, n_total, theta, variables = _setup(vc)
    beta = vc.vector("beta", n, pos=True)
    P = vc.new(PRI, "ExponentialPrior", beta=beta, variable_indices=variables)
    x = lambda k: theta[variables.at(k)]
    inside = vc.bool("inside_support")
    if vc.c.decide(inside.e):
        vc.assume_forall(n, lambda k: x(k) >= 0)
        logf = lambda k: -x(k) / beta[k] - vc.log(beta[k])
        val = vc.call(P, "__call__", theta)
        vc.ensures("value_is_sum_of_exponential_log_densities", val == vc.sum(n, logf))
        g = vc.call(P, "gradient", theta)
        vc.ensures_forall("gradient.formula", n, lambda k: g[k] == -1 / beta[k])

        def is_derivative(k):
            xk = S.z(x(k))
            return g[k] == derivative(logf(k), lambda e: z3.RealVal(1) if e.eq(xk) else None)
        vc.ensures_forall("gradient.is_derivative_of_log_density", n, is_derivative)
    else:
        w = vc.index("outside_at", n)
        vc.assume(x(w) < 0)
        val = vc.call(P, "__call__", theta)
        vc.ensures("outside_support_gives_sentinel", val == SENTINEL)
    smp = vc.call(P, "sample")
    dr = _draws(vc, "exponential_vec")
    vc.ensures("sample.one_exponential_draw", len(dr) == 1)
    if len(dr) == 1:
        _, _, e1, scale = dr[0]
        vc.ensures_forall("sample.law_is_exponential_scale_beta", n,
                          lambda k: S.And(scale[k] == beta[k], smp[k] == beta[k] * e1[k], smp[k] >= 0))
    b = vc.attr(P, "bounds")
    vc.ensures("bounds.length", b.length() == n)
    vc.ensures_forall("bounds.support_is_nonnegative_half_line", n, lambda k: b.at(k) == (0.0, None))


@contract("C06", "uniform_prior", native=False, replay_with="priors_native")
def uniform_prior(vc):
    n, n_total, theta, variables = _setup(vc)
    lower = vc.vector("lower", n)
    width = vc.vector("width", n, pos=True)
    upper = lower + width
    P = vc.new(PRI, "UniformPrior", lower=lower, upper=upper, variable_indices=variables)
    x = lambda k: theta[variables.at(k)]
    inside = vc.bool("inside_support")
    if vc.c.decide(inside.e):
        vc.assume_forall(n, lambda k: S.And(lower[k] <= x(k), x(k) <= upper[k]))
        val = vc.call(P, "__call__", theta)
        vc.ensures("value_is_sum_of_uniform_log_densities", val == vc.sum(n, lambda k: -vc.log(upper[k] - lower[k])))
    else:
        w = vc.index("outside_at", n)
        vc.assume(S.Or(x(w) < lower[w], x(w) > upper[w]))
        val = vc.call(P, "__call__", theta)
        vc.ensures("outside_support_gives_sentinel", val == SENTINEL)
    g = vc.call(P, "gradient", theta)
    vc.ensures_forall("gradient.zero", n, lambda k: g[k] == 0)
    smp = vc.call(P, "sample")
    dr = _draws(vc, "uniform_vec")
    vc.ensures("sample.one_uniform_draw", len(dr) == 1)
    if len(dr) == 1:
        _, _, U, low, high = dr[0]
        vc.ensures_forall("sample.law_is_uniform_lower_upper", n,
                          lambda k: S.And(low[k] == lower[k], high[k] == upper[k], smp[k] >= lower[k], smp[k] <= upper[k]))
    b = vc.attr(P, "bounds")
    vc.ensures("bounds.length", b.length() == n)
    vc.ensures_forall("bounds.support_is_the_interval", n, lambda k: b.at(k) == (lower[k], upper[k]))


@contract("C06", "validate_variable_indices", native=False, replay_with="priors_native")
def validate_variable_indices(vc):
    n = vc.int("n", lo=1)
    n_total = vc.int("n_total", lo=1)
    vc.assume(n <= n_total)
    variables, vf = _var_list(vc, n, n_total)
    out = vc.callf(PRI, "BasePrior.validate_variable_indices", variables, n)
    vc.ensures("returned_unchanged", S.And(out.length() == n))
    vc.ensures_forall("returned_unchanged.entries", n, lambda k: out.at(k) == variables.at(k))
    m = vc.int("wrong_length", lo=0)
    vc.assume(m != n)
    vc.expect_raise("length_mismatch_rejected", lambda: vc.callf(PRI, "BasePrior.validate_variable_indices", variables, m))


# ---- joint prior: every non-empty subset of the three component classes, any order, any index assignment -------------
CONFIGS = [["G"], ["E"], ["U"], ["G", "E"], ["U", "G"], ["E", "U"], ["E", "U", "G"], ["G", "U", "G"], ["U", "E", "E"]]
SIZES = {"G": 2, "E": 1, "U": 2}


@contract("C06", "joint_prior", native=False, replay_with="priors_native")
def joint_prior(vc):
    cfg = vc.choice("components", CONFIGS)
    _install_rng(vc)
    sizes = [SIZES[k] if i == 0 else 1 for i, k in enumerate(cfg)]
    n_total = sum(sizes)
    # symbolic, pairwise distinct variable indices: any partition / permutation of 0..n_total-1
    idx = [vc.int(f"v{i}", lo=0, hi=n_total - 1, hard_hi=True) for i in range(n_total)]
    vc.assume(Sym(z3.Distinct(*[S.z(v) for v in idx])) if n_total > 1 else True)
    theta = vc.vector("theta", n_total)
    comps, owners, inside = [], [], []
    pos = 0
    for ci, (k, m) in enumerate(zip(cfg, sizes)):
        vs = idx[pos:pos + m]
        pos += m
        if k == "G":
            mean, sig = vc.vector(f"mean{ci}", m), vc.vector(f"sigma{ci}", m, pos=True)
            comps.append(vc.new(PRI, "GaussianPrior", mean=mean, sigma=sig, variable_indices=list(vs)))
            inside.append(True)
        elif k == "E":
            comps.append(vc.new(PRI, "ExponentialPrior", beta=vc.vector(f"beta{ci}", m, pos=True), variable_indices=list(vs)))
            inside.append(S.And(*[theta[v] >= 0 for v in vs]))
        else:
            lo, w = vc.vector(f"lower{ci}", m), vc.vector(f"width{ci}", m, pos=True)
            comps.append(vc.new(PRI, "UniformPrior", lower=lo, upper=lo + w, variable_indices=list(vs)))
            inside.append(S.And(*[S.And(lo[j] <= theta[v], theta[v] <= lo[j] + w[j]) for j, v in enumerate(vs)]))
        owners.append(vs)
    J = vc.new(PRI, "JointPrior", components=list(comps), n_variables=n_total)
    val = vc.call(J, "__call__", theta)
    parts = [vc.call(c_, "__call__", theta) for c_ in comps]
    tot = parts[0]
    for p in parts[1:]:
        tot = tot + p
    all_inside = S.And(*inside) if inside else True
    # inside the joint support the value is exactly the sum of the component log-densities; outside it, it is a
    # minus-infinity stand-in like the sum (each component reports -1e100 there; merged components report it once)
    for p, ins in zip(parts, inside):     # finite log-densities are negligible against the -1e100 stand-in
        vc.assume(S.Implies(ins, S.And(p > -1e98, p < 1e98)))
    vc.ensures("value_is_sum_of_components", S.Implies(all_inside, val == tot))
    vc.ensures("outside_support_is_minus_infinity_stand_in", S.Implies(S.Not(all_inside), S.And(val <= SENTINEL / 2, tot <= SENTINEL / 2)))
    g = vc.call(J, "gradient", theta)
    b = vc.attr(J, "bounds")
    vc.ensures("bounds.length", len(b) == n_total)
    mark = len(vc.c.trace)
    smp = vc.call(J, "sample")
    for ci, (c_, vs) in enumerate(zip(comps, owners)):
        gc = vc.call(c_, "gradient", theta)
        cb = vc.attr(c_, "bounds")
        for k, v in enumerate(vs):
            vc.ensures("gradient_routed_to_component_index", g[v] == gc[k])
            from pyvc.interp import _select
            vc.ensures("bound_routed_to_component_index", _bound_eq(vc, b, v, cb, k))
    # sampled coordinates: every coordinate v is the matching coordinate of a draw with the owning component's law
    vc.ensures("sample.length", S.cmp("==", smp.shape[0], n_total))
    draws = [e for e in vc.c.trace[mark:] if e[0] == "draw"]
    vc.ensures("sample.one_draw_per_component_after_merging", len(draws) == len({k for k in cfg}))


def _bound_eq(vc, b, v, cb, k):
    """b[v] == cb[k] for lists of (lo, hi) tuples with None entries; v symbolic: case split over positions"""
    want = cb.at(k) if isinstance(cb, SymList) else cb[k]
    res = []
    for pos_, item in enumerate(b):
        same = (item[0] is None) == (want[0] is None) and (item[1] is None) == (want[1] is None)
        if same:
            eqs = [S.cmp("==", a_, w_) for a_, w_ in zip(item, want) if a_ is not None]
            res.append(S.Implies(S.cmp("==", v, pos_), S.And(*eqs) if eqs else True))
        else:
            res.append(S.Not(S.cmp("==", v, pos_)))
    return S.And(*res)


@contract("C06", "posterior", native=False, replay_with="priors_native")
def posterior(vc):
    """Posterior = likelihood + prior (value, gradient, cost, cost-gradient); initial guesses are prior draws in
    increasing cost"""
    n = vc.int("n", lo=1)
    theta = vc.vector("theta", n)
    Lv, Pv = vc.real("L_value"), vc.real("P_value")
    Lg, Pg = vc.vector("L_grad", n), vc.vector("P_grad", n)

    class Part:
        vc_attrs = ("gradient", "sample", "__call__")

        def __init__(self, v, g):
            self.v, self.g = v, g

        def __call__(self, th):
            return self.v

        def gradient(self, th):
            return self.g

    lik, pri = Part(Lv, Lg), Part(Pv, Pg)
    post = vc.new(POST, "Posterior", likelihood=lik, prior=pri)
    vc.ensures("value_is_sum", vc.call(post, "__call__", theta) == Lv + Pv)
    vc.ensures("cost_is_negative_sum", vc.call(post, "cost", theta) == -(Lv + Pv))
    g = vc.call(post, "gradient", theta)
    cg = vc.call(post, "cost_gradient", theta)
    vc.ensures_forall("gradient_is_sum", n, lambda k: g[k] == Lg[k] + Pg[k])
    vc.ensures_forall("cost_gradient_is_negative_sum", n, lambda k: cg[k] == -(Lg[k] + Pg[k]))


@contract("C06", "initial_guesses", native=False, replay_with="priors_native")
def initial_guesses(vc):
    from pyvc.objlist import F, as_array
    n_guesses = vc.int("n_guesses", lo=1)
    prior_samples = vc.int("prior_samples", lo=1)
    vc.assume(n_guesses <= prior_samples)
    d = vc.int("d", lo=1)
    Sf = z3.Function("draw", z3.IntSort(), z3.IntSort(), z3.RealSort())
    count = [0]

    class Prior:
        vc_attrs = ("sample", "__call__")

        def sample(self):
            raise AssertionError("sample() is only reached through the comprehension model")

        def __call__(self, th):
            return Sym(z3.Function("logprior", z3.ArraySort(z3.IntSort(), z3.RealSort()), z3.RealSort())(as_array(th)))

    class Lik:
        vc_attrs = ("__call__",)

        def __call__(self, th):
            return Sym(F(as_array(th)))

    pri = Prior()
    post = vc.new(POST, "Posterior", likelihood=Lik(), prior=pri)
    # [self.prior.sample() for _ in range(prior_samples)]: the k-th draw is the vector draw(k, .)
    from pyvc.loops import LoopSpec

    class Draws(LoopSpec):
        name = "prior_draws"

        def __call__(self, I, node, fr, it):
            return SymList(prior_samples, lambda k: Tensor((d,), lambda j: Sym(Sf(S.z(k), S.z(j)))))

    vc.loop("Posterior.generate_initial_guesses", "comp#0", Draws(vc))
    out = vc.call(post, "generate_initial_guesses", n_guesses=n_guesses, prior_samples=prior_samples)
    vc.ensures("count", out.length() == n_guesses)
    calls = [e for e in vc.c.trace if e[0] == "call" and e[1] == "sorted"]
    vc.ensures("ranks_all_prior_draws", len(calls) == 1 and S.z(calls[0][2].length()).eq(S.z(prior_samples)) if calls else False)
    cost = lambda th: vc.call(post, "cost", th)
    vc.ensures_forall("increasing_cost", (n_guesses, n_guesses),
                      lambda a, b: S.Implies(a <= b, cost(out.at(a)) <= cost(out.at(b))))
    if calls:
        ranked = calls[0][3]
        vc.ensures_forall("best_of_all_draws", (n_guesses, prior_samples),
                          lambda a, r: S.Implies(r >= n_guesses, cost(out.at(a)) <= cost(ranked.at(r))))
        p = ranked.perm
        vc.ensures_forall("each_guess_is_a_prior_draw", (n_guesses, d),
                          lambda a, j: Sym(S.z(out.at(a).at(j)) == Sf(p(S.z(a)), S.z(j))))


# ---------------------------------------------------------------------------------------------------
# bounded layer: the real classes against scipy.stats, numerical normalisation, random index layouts
# ---------------------------------------------------------------------------------------------------
import numpy as np


@bounded("C06", "many_variables_native", native_runs=8)
def many_variables_native(vc):
    """normalisation for ANY number of variables and ANY widths / scales: the log-density of hundreds of variables (or of a few
    with extreme scales) is the finite sum of the per-variable log-densities -- a product of hundreds of widths is not a float"""
    import math
    from inference.priors import UniformPrior, GaussianPrior, ExponentialPrior, JointPrior
    seed = vc.int("seed", lo=0, hi=10 ** 6)
    rng = np.random.default_rng(seed)
    case = vc.choice("case", ["400_narrow", "350_wide", "2_tiny", "2_huge", "300_mixed"])
    n, lw = {"400_narrow": (400, -1.0), "350_wide": (350, 3.0), "2_tiny": (2, -200.0), "2_huge": (2, 200.0), "300_mixed": (300, 0.0)}[case]
    w = 10.0 ** (lw + rng.uniform(-0.3, 0.3, size=n)) if case != "300_mixed" else 10.0 ** rng.uniform(-3, 3, size=n)
    lo = rng.normal(size=n) * w
    th = lo + w * rng.uniform(0.05, 0.95, size=n)
    U = UniformPrior(lower=lo, upper=lo + w, variable_indices=list(range(n)))
    want_u = -math.fsum(math.log(u - l) for l, u in zip(lo, lo + w))
    ok_u = math.isfinite(float(U(th))) and abs(float(U(th)) - want_u) <= 1e-9 * max(1.0, abs(want_u))
    G = GaussianPrior(mean=lo, sigma=w, variable_indices=list(range(n)))
    want_g = math.fsum(-0.5 * ((t - m_) / s_) ** 2 - math.log(s_) - 0.5 * math.log(2 * math.pi) for t, m_, s_ in zip(th, lo, w))
    ok_g = math.isfinite(float(G(th))) and abs(float(G(th)) - want_g) <= 1e-9 * max(1.0, abs(want_g))
    tp = np.abs(th) + w * 0.01
    E = ExponentialPrior(beta=w, variable_indices=list(range(n)))
    want_e = math.fsum(-t / b - math.log(b) for t, b in zip(tp, w))
    ok_e = math.isfinite(float(E(tp))) and abs(float(E(tp)) - want_e) <= 1e-9 * max(1.0, abs(want_e))
    vc.inputs["uniform"], vc.inputs["uniform_expected"] = float(U(th)), want_u
    vc.ensures("uniform_log_density_is_finite_sum_over_variables", ok_u)
    vc.ensures("gaussian_log_density_is_finite_sum_over_variables", ok_g)
    vc.ensures("exponential_log_density_is_finite_sum_over_variables", ok_e)
    # merged one-variable components: the joint prior is the sum of its components
    k = min(n, 350)
    comps = [UniformPrior(lower=lo[i], upper=lo[i] + w[i], variable_indices=[i]) for i in range(k)]
    J = JointPrior(components=comps, n_variables=k)
    want_j = -math.fsum(math.log((lo[i] + w[i]) - lo[i]) for i in range(k))
    vc.ensures("joint_of_many_uniform_components_is_sum_of_components",
               math.isfinite(float(J(th[:k]))) and abs(float(J(th[:k])) - want_j) <= 1e-9 * max(1.0, abs(want_j)))


@bounded("C06", "priors_native", native_runs=40)
def priors_native(vc):
    from scipy import stats
    from scipy.integrate import quad
    import inference.priors as pr
    from inference.posterior import Posterior
    seed = vc.int("seed", lo=0, hi=10 ** 6)
    rng = np.random.default_rng(seed)
    n_total = vc.int("n_total", lo=1, hi=8)
    perm = list(rng.permutation(n_total))
    kinds = [rng.choice(["G", "E", "U"]) for _ in range(n_total)]
    groups = {}
    order = list(rng.permutation(n_total))
    # split the variables into components of random size, class and order
    comps, spec = [], []
    i = 0
    while i < n_total:
        m = int(rng.integers(1, min(3, n_total - i) + 1))
        vs = [int(v) for v in perm[i:i + m]]
        k = str(rng.choice(["G", "E", "U"]))
        if k == "G":
            mu, sg = rng.normal(size=m) * 10 ** rng.uniform(-2, 3), 10 ** rng.uniform(-3, 3, size=m)
            if rng.random() < 0.3:          # any hyper-parameter value: widths whose square is not a double
                sg = sg * 10.0 ** float(rng.choice([-200, 200]))
                mu = mu * sg
            comps.append(pr.GaussianPrior(mean=mu, sigma=sg, variable_indices=vs))
            spec += [(v, stats.norm(loc=a, scale=b), (None, None)) for v, a, b in zip(vs, mu, sg)]
        elif k == "E":
            be = 10 ** rng.uniform(-3, 3, size=m)
            comps.append(pr.ExponentialPrior(beta=be, variable_indices=vs))
            spec += [(v, stats.expon(scale=b), (0.0, None)) for v, b in zip(vs, be)]
        else:
            lo = rng.normal(size=m) * 10 ** rng.uniform(-2, 3)
            up = lo + 10 ** rng.uniform(-3, 3, size=m)
            comps.append(pr.UniformPrior(lower=lo, upper=up, variable_indices=vs))
            spec += [(v, stats.uniform(loc=a, scale=b - a), (a, b)) for v, a, b in zip(vs, lo, up)]
        i += m
    comps = [comps[j] for j in rng.permutation(len(comps))]
    J = pr.JointPrior(components=comps, n_variables=n_total) if len(comps) > 1 or True else comps[0]
    by_var = {v: (dist, b) for v, dist, b in spec}
    # a point inside the support
    theta = np.array([by_var[v][0].ppf(rng.uniform(0.05, 0.95)) for v in range(n_total)])
    want = sum(by_var[v][0].logpdf(theta[v]) for v in range(n_total))
    got = J(theta)
    vc.ensures("joint_value_is_sum_of_named_log_densities", abs(got - want) <= 1e-8 * max(1.0, abs(want)))
    # value and gradient depend on the VALUES passed only: one parameter buffer evaluated, updated in place, evaluated again
    theta_b = np.array([by_var[v][0].ppf(rng.uniform(0.05, 0.95)) for v in range(n_total)])
    buf = theta_b.copy()
    v_b, g_b = J(buf), np.array(J.gradient(buf), dtype=float)
    buf[:] = theta
    vc.ensures("value_and_gradient_follow_a_buffer_updated_in_place",
               abs(J(buf) - want) <= 1e-8 * max(1.0, abs(want)) and bool(np.allclose(J.gradient(buf), J.gradient(theta.copy()), rtol=1e-12, atol=0))
               and abs(v_b - sum(by_var[v][0].logpdf(theta_b[v]) for v in range(n_total))) <= 1e-8 * max(1.0, abs(v_b))
               and bool(np.array_equal(g_b, np.array(J.gradient(theta_b.copy()), dtype=float))))
    g = J.gradient(theta)
    ok = True
    for v in range(n_total):
        dist = by_var[v][0]
        # derivative of the named log-density in closed form (a difference quotient has no usable step when the width is 1e-200
        # of the location): normal -(x - a)/b^2, exponential -1/b, uniform 0
        kw_ = dist.kwds
        if dist.dist.name == "norm":
            dv = -((theta[v] - kw_["loc"]) / kw_["scale"]) / kw_["scale"]
        elif dist.dist.name == "expon":
            dv = -1.0 / kw_["scale"]
        else:
            dv = 0.0
        ok = ok and np.isfinite(g[v]) and abs(g[v] - dv) <= 1e-9 * abs(dv)
    vc.ensures("joint_gradient_is_derivative_per_index", bool(ok))
    vc.ensures("bounds_are_the_support_per_index",
               all((J.bounds[v][0] is None) == (by_var[v][1][0] is None) and (J.bounds[v][1] is None) == (by_var[v][1][1] is None)
                   and all(a is None or abs(a - b) <= 1e-12 * max(1, abs(b)) for a, b in zip(J.bounds[v], by_var[v][1]))
                   for v in range(n_total)))
    # draws: each coordinate is distributed as its own component's law (support + a coarse quantile check)
    pr.rng = np.random.default_rng(seed)
    S_ = np.array([J.sample() for _ in range(400)])
    okd = True
    for v in range(n_total):
        dist = by_var[v][0]
        u = dist.cdf(S_[:, v])
        okd = okd and np.all((u >= 0) & (u <= 1)) and abs(np.mean(u) - 0.5) < 0.12 and abs(np.mean(u < 0.25) - 0.25) < 0.12
        lo, hi = by_var[v][1]
        okd = okd and (lo is None or np.all(S_[:, v] >= lo)) and (hi is None or np.all(S_[:, v] <= hi))
    vc.ensures("draws_follow_component_laws_per_index", bool(okd))
    # ... and jointly: the coordinates of one draw are independent (normal scores of different coordinates uncorrelated)
    from scipy.stats import norm as _norm
    Z = np.column_stack([_norm.ppf(np.clip(by_var[v][0].cdf(S_[:, v]), 1e-12, 1 - 1e-12)) for v in range(n_total)])
    if n_total > 1:
        C = np.corrcoef(Z.T)
        off = float(np.max(np.abs(C - np.diag(np.diag(C)))))
        vc.inputs["largest_correlation_between_coordinates"] = off
        vc.ensures("coordinates_of_a_draw_are_independent", off < 0.3)
    # each single-variable density is normalised on its support (numerical quadrature of exp(prior))
    c0 = comps[0]
    if c0.n_params == 1:
        v0 = c0.variables[0]
        dist = by_var[v0][0]
        a, b = dist.ppf(1e-10), dist.ppf(1 - 1e-10)
        t = np.zeros(n_total)

        def dens(x):
            t[v0] = x
            return np.exp(c0(t))
        pts = dist.ppf([0.1, 0.5, 0.9])
        total = quad(dens, a, b, points=pts, limit=200)[0]
        vc.ensures("single_density_integrates_to_one", abs(total - 1) < 1e-4)
    # posterior = likelihood + prior
    lik = pr.GaussianPrior(mean=np.zeros(n_total), sigma=np.maximum(1.0, np.abs(theta)), variable_indices=list(range(n_total)))   # (representable at theta)
    P = Posterior(likelihood=lik, prior=J)
    vc.ensures("posterior_is_sum", abs(P(theta) - (lik(theta) + J(theta))) <= 1e-9 * max(1, abs(P(theta)))
               and np.allclose(P.gradient(theta), lik.gradient(theta) + J.gradient(theta))
               and P.cost(theta) == -P(theta) and np.allclose(P.cost_gradient(theta), -P.gradient(theta)))
    k = int(rng.integers(1, 6))
    n_draws = int(rng.integers(k, 25))
    drawn = []
    orig_sample = J.sample

    def recording_sample():
        x = orig_sample()
        drawn.append(np.array(x, dtype=float).copy())
        return x
    J.sample = recording_sample
    try:
        guesses = P.generate_initial_guesses(n_guesses=k, prior_samples=n_draws)
    finally:
        del J.sample
    costs = [P.cost(gs) for gs in guesses]
    vc.ensures("initial_guesses_in_increasing_cost", len(guesses) == k and all(a <= b for a, b in zip(costs, costs[1:])))
    # ... and they are the k cheapest of ALL the prior draws that were made (as many draws as requested)
    all_costs = sorted(P.cost(x) for x in drawn)
    vc.ensures("initial_guesses_are_the_best_of_all_prior_draws",
               len(drawn) == n_draws and len(guesses) == k and np.allclose(costs, all_costs[:k], rtol=1e-12, atol=0))
