"""C03 -- stored log-probabilities always belong to the stored samples."""
from pyvc.vc import contract, bounded
from contracts.mcmc_gibbs import gibbs_take_step

contract("C03", "gibbs_take_step", native=False, replay_with="chain_invariant_native")(gibbs_take_step)


from contracts.mcmc_pca import pca_take_step
contract("C03", "pca_take_step", native=False, replay_with="chain_invariant_native")(pca_take_step)


from contracts.mcmc_hmc import hmc_take_step
contract("C03", "hmc_take_step", native=False, replay_with="chain_invariant_native")(hmc_take_step)


from contracts.mcmc_ensemble import ensemble_advance_walker
contract("C03", "ensemble_advance_walker", native=False, replay_with="chain_invariant_native")(ensemble_advance_walker)

from contracts.mcmc_native import chain_invariant_native, shared_inputs_native  # noqa: registers the bounded layer
