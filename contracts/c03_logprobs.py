"""C03 -- stored log-probabilities always belong to the stored samples."""
from pyvc.vc import contract, bounded
from contracts.mcmc_gibbs import gibbs_take_step

contract("C03", "gibbs_take_step", native=False, replay_with="chain_invariant_native")(gibbs_take_step)


from contracts.mcmc_pca import pca_take_step
contract("C03", "pca_take_step", native=False, replay_with="chain_invariant_native")(pca_take_step)


from contracts.mcmc_hmc import hmc_take_step
contract("C03", "hmc_take_step", native=False, replay_with="chain_invariant_native")(hmc_take_step)


from contracts.mcmc_ensemble import ensemble_advance_walker
contract("C03", "ensemble_advance_walker", native=False, replay_with="chain_invariant_native")(ensemble_advance_walker)

from contracts.mcmc_native import chain_invariant_native, shared_inputs_native  # noqa: registers the bounded layer


# ---- constructors establish the invariant ---------------------------------------------------------------------------
import z3
from pyvc import sym as S
from pyvc.sym import Sym, ctx
from pyvc.tensor import Tensor, SymList
from pyvc.objlist import PosteriorGhost, F


def _evaluations():
    return [e for e in ctx().trace if e[0] == "posterior"]


@contract("C03", "constructors_establish_invariant", native=False, replay_with="chain_invariant_native")
def constructors_establish_invariant(vc):
    """a freshly constructed Gibbs / PCA / Hamiltonian chain stores exactly one sample -- the start point -- and one
    log-probability, beta * F(start), obtained from one evaluation of the posterior at that very point"""
    kind = vc.choice("sampler", ["GibbsChain", "PcaChain", "HamiltonianChain"])
    d = vc.choice("d", [1, 2, 3])
    post = PosteriorGhost()
    start = vc.vector("start", d, origin="input")
    T = vc.real("temperature", pos=True)
    if kind == "HamiltonianChain":
        ch = vc.new("inference.mcmc.hmc", kind, posterior=post, start=start, grad=vc.ghost("grad", lambda x: x), temperature=T,
                    display_progress=False)
    else:
        mod = "inference.mcmc.gibbs" if kind == "GibbsChain" else "inference.mcmc.pca"
        ch = vc.new(mod, kind, posterior=post, start=start, widths=vc.vector("widths", d, pos=True), temperature=T,
                    display_progress=False)
    ev = _evaluations()
    vc.ensures("one_posterior_evaluation", len(ev) == 1)
    if len(ev) != 1:
        return
    _, arr, snap, val = ev[0]
    for j in range(d):
        vc.ensures("evaluated_at_the_start_point", S.cmp("==", snap.at(j), start.at(j)))
    probs = vc.attr(ch, "probs")
    vc.ensures("one_stored_logprob", len(probs) == 1)
    vc.ensures("chain_length_is_one", S.cmp("==", vc.attr(ch, "chain_length"), 1))
    vc.ensures("temperature_stored_as_inverse", S.cmp("==", S.mul(vc.attr(ch, "inv_temp"), T), 1))
    if len(probs) == 1:
        vc.ensures("stored_logprob_is_beta_F_of_start", S.cmp("==", probs[0], S.mul(vc.attr(ch, "inv_temp"), Sym(val))))
    if kind == "HamiltonianChain":
        theta = vc.attr(ch, "theta")
        vc.ensures("one_stored_sample", len(theta) == 1)
        if len(theta) == 1:
            for j in range(d):
                vc.ensures("stored_sample_is_the_start_point", S.cmp("==", theta[0].at(j), start.at(j)))
    else:
        params = vc.attr(ch, "params")
        vc.ensures("one_parameter_object_per_dimension", len(params) == d)
        for j, p in enumerate(params[:d]):
            smp = vc.attr(p, "samples")
            vc.ensures("one_stored_sample", len(smp) == 1)
            if len(smp) == 1:
                vc.ensures("stored_sample_is_the_start_point", S.cmp("==", smp[0], start.at(j)))
    vc.ensures("caller_start_vector_not_written", len(vc.writes_to_inputs()) == 0)


@contract("C03", "ensemble_constructor_establishes_invariant", native=False, replay_with="chain_invariant_native")
def ensemble_constructor_establishes_invariant(vc):
    """EnsembleSampler(...): walker w's stored log-probability is F of walker w's stored position, which is row w of the
    starting positions (a copy: the caller's array is not aliased or written)"""
    d = vc.choice("d", [1, 2])
    nw = vc.int("n_walkers", lo=3)
    post = PosteriorGhost()
    pos0 = vc.matrix("starting_positions", nw, d, origin="input")
    # the validation of the starting positions (finite, non-degenerate spread) is replaced by its contract: it returns
    # its 2-d argument unchanged or raises
    for qn in ("EnsembleSampler.__validate_starting_positions", "EnsembleSampler._EnsembleSampler__validate_starting_positions"):
        vc.modular(qn, lambda I, func, args, kwargs: args[-1])
    with vc.raising_allowed():
        s = vc.new("inference.mcmc.ensemble", "EnsembleSampler", posterior=post, starting_positions=pos0, display_progress=False)
    wp, wq = vc.attr(s, "walker_positions"), vc.attr(s, "walker_probs")
    vc.ensures("shapes", vc.ndim(wp) == 2 and vc.ndim(wq) == 1 and S.cmp("==", wp.shape[0], nw) and S.cmp("==", wq.shape[0], nw))
    vc.ensures_forall("positions_are_the_starting_positions", (nw, d), lambda w, j: S.cmp("==", wp.at(w, j), pos0.at(w, j)))
    vc.ensures("positions_are_a_copy", wp is not pos0 and getattr(wp, "base", None) is not pos0)
    w = vc.index("w", nw)
    q = wq.at(w)
    ev = [e for e in _evaluations()]
    hit = [e for e in ev if S.z(Sym(e[3])).eq(S.z(q)) or True]
    vc.ensures("logprob_of_walker_w_is_F_of_an_evaluated_point", len(ev) >= 1)
    # the evaluation whose value is stored for walker w was made at walker w's position
    ok = False
    for _, arr, snap, val in ev:
        if S.z(q).eq(val) or str(S.z(q)) == str(val):
            ok = True
            for j in range(d):
                vc.ensures("logprob_of_walker_w_belongs_to_position_w", S.cmp("==", snap.at(j), pos0.at(w, j)))
    vc.ensures("logprob_of_walker_w_is_a_posterior_value", ok)
    vc.ensures("caller_array_not_written", len(vc.writes_to_inputs()) == 0)


# a point installed by a parallel-tempering exchange is a stored sample too: the worker-side contract of C08 ("the received
# log-probability is re-expressed at the receiving chain's temperature") is checked under this property as well, together
# with the real-process harness
from contracts.c08_tempering import worker_update_position as _wup, tempering_native as _tn
contract("C03", "tempering_worker_update_position", native=False, replay_with="tempering_native")(_wup)
bounded("C03", "tempering_native", native_runs=3)(_tn)


# the recorded log-probabilities of a reloaded chain must belong to the temperature it was saved with: the round-trip contracts of C09
# carry the clause "inverse temperature restored" (and the stored log-probabilities), checked under this property as well
from contracts.c09_persistence import gibbs_roundtrip as _gr3, pca_roundtrip as _pr3, hmc_roundtrip as _hr3
contract("C03", "gibbs_roundtrip", native=False, replay_with="chain_invariant_native")(_gr3)
contract("C03", "pca_roundtrip", native=False, replay_with="chain_invariant_native")(_pr3)
contract("C03", "hmc_roundtrip", native=False, replay_with="chain_invariant_native")(_hr3)
