"""PcaChain.take_step under contract (serves C01, C03, C04, C15) -- same scheme as mcmc_gibbs."""
import ast
import z3
from pyvc import sym as S
from pyvc.sym import Sym, Unsupported, ctx
from pyvc.tensor import Tensor, SymList
from pyvc.loops import LoopSpec
from pyvc.objlist import SymObjList, RngModel, PosteriorGhost, F, ARR
from contracts.mcmc_gibbs import tuning_only, _names

PCA = "inference.mcmc.pca"
GIBBS = "inference.mcmc.gibbs"
UTIL = "inference.mcmc.utilities"


def resolve_roles(func):
    roles = {}
    for n in ast.walk(func.node):
        if isinstance(n, ast.Assign) and len(n.targets) == 1 and isinstance(n.targets[0], ast.Name):
            src = ast.unparse(n.value)
            tgt = n.targets[0].id
            if src.replace(" ", "") == "self.probs[-1]":
                roles.setdefault("p_old", tgt)
            elif src.startswith("self.get_last("):
                roles.setdefault("point", tgt)
            elif "self.posterior(" in src:
                roles.setdefault("p_new", tgt)
                # the candidate is whatever local is handed to the posterior (not "whatever process_proposal returned":
                # a restructured body may apply process_proposal elsewhere, which is exactly what must be noticed)
                for c_ in ast.walk(n.value):
                    if isinstance(c_, ast.Call) and ast.unparse(c_.func) == "self.posterior" and c_.args \
                            and isinstance(c_.args[0], ast.Name):
                        roles.setdefault("candidate", c_.args[0].id)
        if isinstance(n, ast.For) and "self.directions" in ast.unparse(n.iter):
            nm = _names(n.target)
            if len(nm) == 2:
                roles.setdefault("direction", nm[0])
                roles.setdefault("param", nm[1])
    for r in ("p_old", "point", "p_new", "candidate", "direction", "param"):
        if r not in roles:
            raise Unsupported(f"PcaChain.take_step: cannot resolve the local playing the role '{r}'")
    return roles


class PcaState:
    def __init__(self, vc, bounded):
        c = vc.c
        self.vc, self.bounded = vc, bounded
        self.d = vc.int("d", lo=1)
        self.N = vc.int("N", lo=1)
        self.beta = vc.real("beta", pos=True)
        d, N = self.d, self.N
        I_, R_ = z3.IntSort(), z3.RealSort()
        self.Sf = z3.Function("S", I_, I_, R_)
        self.Pf = z3.Function("P", I_, R_)
        self.sig = z3.Function("sig", I_, R_)
        self.V = z3.Function("V", I_, I_, R_)
        self.x_last = z3.Const("x_last", ARR)
        Sf, xl = self.Sf, self.x_last
        n1 = S.z(N) - 1
        c.add_forall((d,), lambda j: Sf(S.z(j), n1) == xl[S.z(j)], "x_last")
        c.defs.append(self.Pf(n1) == self.beta.e * F(xl))
        self.rng = RngModel("chain.rng")
        fields = {
            "samples": lambda j: SymList(N, lambda t: Sym(Sf(S.z(j), S.z(t)))),
            "sigma": lambda j: Sym(self.sig(S.z(j))),
            "try_count": lambda j: 0,
        }
        self.params = SymObjList(vc.cls(GIBBS, "Parameter"), d, fields)
        self.probs = SymList(N, lambda t: Sym(self.Pf(S.z(t))), origin="state:probs")
        self.post = PosteriorGhost()
        V = self.V
        directions = SymList(d, lambda k: Tensor((d,), lambda j: Sym(V(S.z(k), S.z(j)))))
        self.chain = vc.obj(PCA, "PcaChain", params=self.params, probs=self.probs, chain_length=N,
                            n_parameters=d, inv_temp=self.beta, posterior=self.post, rng=self.rng,
                            directions=directions, next_update=vc.int("next_update"))
        if bounded:
            self.lower = vc.vector("lower", d, origin="state")
            width = vc.vector("width", d, pos=True, origin="state")
            self.upper = self.lower + width
            vc.assume_forall(d, lambda i: self.lower[i] < self.upper[i])
            self.bounds = vc.new(UTIL, "Bounds", lower=self.lower, upper=self.upper)
            self.chain.fields["bounds"] = self.bounds
            self.chain.fields["process_proposal"] = vc.I.get_attr(self.bounds, "reflect")
            lo, up = self.lower, self.upper
            c.add_forall((d,), lambda j: z3.And(S.z(lo.at(j)) <= xl[S.z(j)], xl[S.z(j)] <= S.z(up.at(j))), "start-inside")
        else:
            self.bounds = None
            self.chain.fields["bounds"] = None
            self.chain.fields["process_proposal"] = vc.I.get_attr(self.chain, "pass_through")

    def limits_ok(self, j, v):
        if not self.bounded:
            return z3.BoolVal(True)
        return z3.And(S.z(self.lower.at(Sym(j))) <= v, v <= S.z(self.upper.at(Sym(j))))

    def havoc_tuning(self):
        c = ctx()
        s2 = z3.Function(str(c.fresh("sig_h", "Int")), z3.IntSort(), z3.RealSort())
        self.params.havoc_field("sigma", lambda j: Sym(s2(S.z(j))))


class Sweep(LoopSpec):
    name = "sweep"

    def __init__(self, vc, st, roles):
        super().__init__(vc)
        self.st, self.roles = st, roles
        self.cur = st.x_last
        self.fresh_locals = {roles["p_new"]: "real"}
        self.keep_locals = (roles["candidate"],)

    def havoc(self, I, fr, k):
        c = ctx()
        self.cur = z3.Const(str(c.fresh("cur_h", "Int")) + "_a", ARR)
        self.st.havoc_tuning()
        # `candidate` is assigned inside the retry loop before it is read; leave it undefined here
        fr.locals.pop(self.roles["candidate"], None)

    def _facts(self, pt, cur, j):
        zj = S.z(j)
        return z3.And(S.z(pt.at(j)) == cur[zj], self.st.limits_ok(zj, cur[zj]))

    def _scalars(self, fr, k):
        st = self.st
        p_old = S.z(fr.locals[self.roles["p_old"]])
        out = [p_old == st.beta.e * F(self.cur)]
        pn = fr.locals.get(self.roles["p_new"])
        if pn is not None:
            out.append(z3.Implies(S.z(k) >= 1, S.z(pn) == p_old))
        return z3.And(*out)

    def assume_inv(self, I, fr, k):
        c = ctx()
        c.assume(self._scalars(fr, k))
        pt, cur = fr.locals[self.roles["point"]].frozen(), self.cur
        c.add_forall((self.st.d,), lambda j: self._facts(pt, cur, j), "sweep-inv")

    def oblige_inv(self, what, I, fr, k):
        self.vc.ensures(f"{self.name}.{what}.values", Sym(self._scalars(fr, k)))
        pt, cur = fr.locals[self.roles["point"]].frozen(), self.cur
        self.vc.ensures_forall(f"{self.name}.{what}.point", self.st.d, lambda j: Sym(self._facts(pt, cur, j)))


class Retry(LoopSpec):
    name = "retry"

    def __init__(self, vc, st, roles, sweep):
        super().__init__(vc)
        self.st, self.roles, self.sweep = st, roles, sweep
        self.keep_locals = ()

    def setup(self, I, fr):
        self.v = fr.locals[self.roles["direction"]]
        self.p = fr.locals[self.roles["param"]]

    def havoc(self, I, fr, k):
        self.st.havoc_tuning()
        fr.locals.pop(self.roles["candidate"], None)
        fr.locals.pop(self.roles["p_new"], None)
        self.mark = len(ctx().trace)
        self.sig_fn = self.st.params.fields["sigma"]

    def _pass_events(self):
        tr = ctx().trace[self.mark:]
        calls = [e for e in tr if e[0] == "posterior"]
        us = [e for e in tr if e[0] == "draw" and e[1] == "uniform01"]
        xs = [e for e in tr if e[0] == "draw" and e[1] == "normal"]
        return calls, us, xs

    def _common(self, I, fr, edge):
        vc, st = self.vc, self.st
        calls, us, xs = self._pass_events()
        vc.ensures(f"C01/{edge}.one_evaluation_per_decision", len(calls) == 1 and len(xs) == 1)
        if len(calls) != 1 or len(xs) != 1:
            return None
        _, arr, snap, val = calls[0]
        p_new = S.z(fr.locals[self.roles["p_new"]])
        p_old = S.z(fr.locals[self.roles["p_old"]])
        cur = self.sweep.cur
        vc.ensures(f"C01/{edge}.old_value", Sym(p_old == st.beta.e * F(cur)))
        vc.ensures(f"C01/{edge}.new_value", Sym(p_new == st.beta.e * val))
        # the candidate is the (folded) point  current + direction * sigma * xi : a symmetric random-walk move
        # along the direction, pushed through the symmetric fold of C04
        xi = xs[0][2]
        pt = fr.locals[self.roles["point"]]
        sigma_k = self.sig_fn(self.p.k)
        expected = I.call(I.get_attr(st.chain, "process_proposal"), [pt + self.v * sigma_k * xi])
        vc.ensures_forall(f"C01/{edge}.proposal_is_folded_step_from_current_point", st.d,
                          lambda j: Sym(z3.And(S.z(pt.at(j)) == cur[S.z(j)], S.z(snap.at(j)) == S.z(expected.at(j)))))
        vc.ensures_forall(f"C04/{edge}.evaluation_inside_limits", st.d,
                          lambda j: Sym(st.limits_ok(S.z(j), S.z(snap.at(j)))))
        return calls[0], us, xs[0], p_new, p_old

    def on_break(self, I, fr, k):
        vc, st = self.vc, self.st
        r = self._common(I, fr, "accept")
        if r is None:
            return
        call, us, xdraw, p_new, p_old = r
        expo = S.uf("exp", p_new - p_old)
        rule = z3.Or(p_new > p_old, S.z(us[0][2]) < expo) if us else (p_new > p_old)
        vc.ensures("C01/accept.metropolis_rule", Sym(rule))
        _, arr, snap, val = call
        cand = fr.locals[self.roles["candidate"]]
        vc.ensures_forall("C03/accept.kept_point_is_evaluated_point", st.d,
                          lambda j: Sym(S.z(cand.at(j)) == S.z(snap.at(j))))
        self.sweep.cur = arr

    def on_iteration_end(self, I, fr, k):
        r = self._common(I, fr, "reject")
        if r is None:
            return
        call, us, xdraw, p_new, p_old = r
        expo = S.uf("exp", p_new - p_old)
        ok = len(us) == 1
        self.vc.ensures("C01/reject.metropolis_rule",
                        Sym(z3.And(z3.Not(p_new > p_old), z3.Not(S.z(us[0][2]) < expo))) if ok else False)


def directions_only(st):
    """modular contract of PcaChain.update_directions: it re-estimates the sampling directions and its own
    bookkeeping; samples and log-probabilities are not touched"""
    def handler(I, func, args, kwargs):
        c = ctx()
        obj = args[0]
        V2 = z3.Function(str(c.fresh("V_h", "Int")), z3.IntSort(), z3.IntSort(), z3.RealSort())
        d = st.d
        obj.fields["directions"] = SymList(d, lambda k: Tensor((d,), lambda j: Sym(V2(S.z(k), S.z(j)))))
        return None
    return handler


def pca_take_step(vc):
    from contracts.mcmc_gibbs import AddSamples
    bounded = vc.choice("bounded", [False, True])
    st = PcaState(vc, bounded)
    func = vc.I.get_function(PCA, "PcaChain.take_step")
    roles = resolve_roles(func)
    for q in ("Parameter.submit_accept_prob", "Parameter.adjust_sigma"):
        vc.modular(q, tuning_only(st))
    vc.modular("PcaChain.update_directions", directions_only(st))
    sweep = Sweep(vc, st, roles)
    vc.loop("PcaChain.take_step", "for#0", sweep)
    vc.loop("PcaChain.take_step", "while#0", Retry(vc, st, roles, sweep))
    vc.loop("PcaChain.take_step", "for#1", AddSamples(vc, st, roles, sweep))
    vc.call(st.chain, "take_step")

    N, d = st.N, st.d
    probs = vc.attr(st.chain, "probs")
    vc.ensures("C15/plus_one.probs", probs.length() == N + 1)
    vc.ensures("C15/plus_one.chain_length", vc.attr(st.chain, "chain_length") == N + 1)
    vc.ensures_forall("C15/plus_one.samples", d, lambda j: st.params.fields["samples"](j).length() == N + 1)
    cur = sweep.cur
    vc.ensures("C03/stored_logprob_is_beta_F_of_stored_point", Sym(S.z(probs.at(N)) == st.beta.e * F(cur)))
    vc.ensures_forall("C03/stored_point", d,
                      lambda j: Sym(S.z(st.params.fields["samples"](j).at(N)) == cur[S.z(j)]))
    vc.ensures_forall("C03/history_unchanged.samples", (d, N),
                      lambda j, t: Sym(S.z(st.params.fields["samples"](j).at(t)) == st.Sf(S.z(j), S.z(t))))
    vc.ensures_forall("C03/history_unchanged.probs", N, lambda t: Sym(S.z(probs.at(t)) == st.Pf(S.z(t))))
    vc.ensures_forall("C04/stored_sample_inside_limits", d,
                      lambda j: Sym(st.limits_ok(S.z(j), S.z(st.params.fields["samples"](j).at(N)))))
