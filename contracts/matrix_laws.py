"""Numerical self-test of the abstract matrix layer's axioms (pyvc.matalg): every law the normal-form rewriting uses is
evaluated on random matrices with numpy/scipy.  A bounded validation of the trusted base, registered with each
property whose proof uses the layer."""
import numpy as np
from pyvc.vc import bounded


def _laws(vc):
    from scipy.linalg import solve_triangular, solve
    seed = vc.int("seed", lo=0, hi=10 ** 6)
    rng = np.random.default_rng(seed)
    n, m = int(rng.integers(1, 7)), int(rng.integers(1, 5))
    B = rng.normal(size=(n, n))
    X = B @ B.T + n * np.eye(n) * 0.3
    L = np.linalg.cholesky(X)
    Xi = np.linalg.inv(X)
    Rhs = rng.normal(size=(n, m))
    a, b = rng.normal(size=n), rng.normal(size=n)
    A2, B2 = rng.normal(size=(n, n)), rng.normal(size=(n, n))
    Li = np.linalg.inv(L)
    ok = lambda u, v: bool(np.allclose(u, v, rtol=1e-8, atol=1e-9))
    vc.ensures("cholesky_inverse_products", ok(Li.T @ Li, Xi) and ok(Xi @ L, Li.T) and ok(L.T @ Xi, Li))
    vc.ensures("log_diagonal_is_half_logdet", ok(np.log(np.diagonal(L)).sum(), 0.5 * np.linalg.slogdet(X)[1]))
    vc.ensures("triangular_solves", ok(solve_triangular(L, Rhs, lower=True), Li @ Rhs) and ok(solve_triangular(L.T, Rhs), Li.T @ Rhs))
    vc.ensures("general_solve", ok(solve(np.eye(n) + A2 @ X, Rhs), np.linalg.inv(np.eye(n) + A2 @ X) @ Rhs))
    vc.ensures("diagonal_laws", ok(np.diag(a) @ np.diag(b), np.diag(b) @ np.diag(a)) and ok(np.diag(a) @ b, np.diag(b) @ a)
               and ok(np.ones(n) @ np.diag(a), a) and ok(A2 * a[None, :], A2 @ np.diag(a)) and ok(A2 * a[:, None], np.diag(a) @ A2)
               and ok(a[:, None] * b[None, :], np.outer(a, b)) and ok((a * b).sum(), a @ b))
    vc.ensures("trace_laws", ok((A2 * B2).sum(), np.trace(A2.T @ B2)) and ok(np.trace(A2 @ B2), np.trace(B2 @ A2))
               and ok(np.trace(A2), np.trace(A2.T)) and ok(np.trace(np.outer(a, b) @ A2), b @ A2 @ a))
    # matrix calculus by central differences along a random symmetric direction
    D = rng.normal(size=(n, n)); D = D + D.T
    h = 1e-6
    dinv = (np.linalg.inv(X + h * D) - np.linalg.inv(X - h * D)) / (2 * h)
    dlog = (np.linalg.slogdet(X + h * D)[1] - np.linalg.slogdet(X - h * D)[1]) / (2 * h)
    vc.ensures("matrix_calculus", bool(np.allclose(dinv, -Xi @ D @ Xi, rtol=1e-4, atol=1e-6)) and bool(np.isclose(dlog, np.trace(Xi @ D), rtol=1e-4, atol=1e-6)))
    vc.ensures("positive_definite_facts", bool(np.all(np.diag(Xi) > 0)) and bool(a @ Xi @ a >= 0))


for _p in ("C02", "C11", "C16", "C17"):
    bounded(_p, "matrix_layer_laws_native", native_runs=20)(_laws)
