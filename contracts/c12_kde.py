"""C12 -- GaussianKDE is a faithful, normalised Gaussian kernel-density estimate."""
import numpy as np
from pyvc.vc import contract, bounded


def sample_family(rng, kind, n):
    if kind == "normal":
        s = rng.normal(size=n)
    elif kind == "skew":
        s = rng.gamma(2.0, size=n)
    elif kind == "bimodal":
        s = np.concatenate([rng.normal(-2, 0.5, size=n // 2), rng.normal(2, 1.0, size=n - n // 2)])
    elif kind == "heavy":
        s = rng.standard_t(3, size=n)
    elif kind == "ties":
        s = np.round(rng.normal(size=n) * 3) / 3
    elif kind == "cauchy":
        s = rng.standard_cauchy(size=n)
    elif kind == "outlier":
        s = np.concatenate([rng.normal(size=n - 1), [10 ** rng.uniform(2, 5)]])
    else:
        s = rng.uniform(-1, 1, size=n)
    return s


def brute_kde(sample, h, x):
    z = (np.atleast_1d(x)[:, None] - sample[None, :]) / h
    return np.exp(-0.5 * z * z).sum(axis=1) / (sample.size * h * np.sqrt(2 * np.pi))


def brute_cdf(sample, h, x):
    from scipy.special import erf
    z = (np.atleast_1d(x)[:, None] - sample[None, :]) / (np.sqrt(2) * h)
    return 0.5 * (1 + erf(z)).mean(axis=1)


@bounded("C12", "kde_native", native_runs=36)
def kde_native(vc):
    from inference.pdf import GaussianKDE
    seed = vc.int("seed", lo=0, hi=10 ** 6)
    rng = np.random.default_rng(seed)
    np.random.seed(seed % (2 ** 31))
    kind = vc.choice("family", ["normal", "skew", "bimodal", "heavy", "ties", "uniform", "cauchy", "outlier"])
    n = vc.choice("n", [3, 10, 200, 1500])
    scale = 10 ** vc.choice("log10_scale", [-6, -2, 0, 2, 6])
    loc = vc.choice("location_in_sigmas", [0.0, 5.0, 1e3, 1e6]) * scale
    mode = vc.choice("bandwidth", ["rule", "user_small", "user_large", "user_huge", "cv", "user_tiny"])
    base = sample_family(rng, kind, n)
    if np.ptp(base) == 0:
        base[0] += 1.0
    s = base * scale + loc
    kw = {}
    if mode == "user_small":
        kw["bandwidth"] = 0.05 * np.std(s)
    elif mode == "user_tiny":         # data range of many thousands of bandwidths: a deep region look-up
        kw["bandwidth"] = np.ptp(s) / 10 ** rng.uniform(3, 4.5)
    elif mode == "user_large":
        kw["bandwidth"] = 2.0 * np.ptp(s)
    elif mode == "user_huge":
        kw["bandwidth"] = 30.0 * np.ptp(s)
    elif mode == "cv":
        kw["cross_validation"] = True
        if n > 200:
            mode = "rule"
            kw = {}
    try:
        with np.errstate(all="ignore"):
            kde = GaussianKDE(s, **kw)
    except Exception as e:
        vc.inputs["error"] = f"{type(e).__name__}: {e}"[:160]
        vc.ensures("accepts_any_nondegenerate_sample_and_bandwidth", False)
        return
    h = kde.h
    lo, hi = s.min(), s.max()
    near = rng.choice(s, size=12) + rng.uniform(-3, 3, size=12) * h      # points close to samples (matter when h << range)
    xs = np.concatenate([np.linspace(lo - 6 * h, hi + 6 * h, 61), rng.choice(s, size=5), near, [lo - 40 * h, hi + 40 * h]])
    p = np.asarray(kde(xs))
    c = np.asarray(kde.cdf(xs))
    pe, ce = brute_kde(s, h, xs), brute_cdf(s, h, xs)
    # truncation bounds: a sample left out of a region is at least 3.5 h away from every point served by the region
    phi35 = np.exp(-0.5 * 3.5 ** 2) / np.sqrt(2 * np.pi)
    from scipy.stats import norm
    vc.ensures("density_non_negative", bool(np.all(p >= 0)))
    vc.ensures("density_within_truncation_bound_of_exact_kde", bool(np.all(pe - p >= -1e-9 * pe.max()) and np.all(pe - p <= phi35 / h * 1.0000001 + 1e-12 * pe.max())))
    vc.ensures("cdf_within_truncation_bound_of_exact", bool(np.all(np.abs(c - ce) <= norm.cdf(-3.5) + 1e-9)))
    order = np.argsort(xs)
    vc.ensures("cdf_non_decreasing_from_zero_to_one", bool(np.all(np.diff(c[order]) >= -2 * norm.cdf(-3.5) - 1e-9) and c[order][0] <= 1e-3 and c[order][-1] >= 1 - 1e-3))
    # order of the sample / of the evaluation points, scalar vs array
    perm = rng.permutation(n)
    with np.errstate(all="ignore"):
        kde2 = GaussianKDE(s[perm], bandwidth=h)
        kde3 = GaussianKDE(s, bandwidth=h)
    vc.ensures("independent_of_sample_order", bool(np.allclose(np.asarray(kde2(xs)), np.asarray(kde3(xs)), rtol=1e-12, atol=0)))
    px = rng.permutation(xs.size)
    vc.ensures("independent_of_evaluation_order", bool(np.allclose(np.asarray(kde(xs[px])), p[px], rtol=1e-12, atol=0)
                                                      and np.allclose(np.asarray(kde.cdf(xs[px])), c[px], rtol=1e-12, atol=1e-15)))
    vc.ensures("scalar_and_array_agree", bool(all(abs(float(kde(float(v))) - pv) <= 1e-12 * max(pv, 1e-300) for v, pv in zip(xs[:7], p[:7]))))
    # affine equivariance of the bandwidth selection and of the estimate
    if mode in ("rule", "cv"):
        a, b = 10 ** rng.uniform(-2, 2), rng.normal() * 10
        np.random.seed(seed % (2 ** 31))
        with np.errstate(all="ignore"):
            kde_t = GaussianKDE(a * base + b, **kw)
            np.random.seed(seed % (2 ** 31))
            kde_b = GaussianKDE(base, **kw)
        vc.ensures("bandwidth_scales_with_the_data", abs(kde_t.h - a * kde_b.h) <= 1e-6 * a * kde_b.h)
        xb = np.linspace(base.min(), base.max(), 9)
        vc.ensures("estimate_rescales_and_shifts_with_the_data",
                   # (evaluation points on a region edge may fall in the neighbouring region after the map: the two
                   # estimates then differ by at most the truncation bound)
                   bool(np.allclose(np.asarray(kde_t(a * xb + b)) * a, np.asarray(kde_b(xb)), rtol=1e-9, atol=2 * phi35 / kde_b.h)))


@bounded("C12", "index_groups_exhaustive", native_runs=1)
def index_groups_exhaustive(vc):
    """unique_index_groups partitions the positions by value: every array of length <= 6 over <= 4 values"""
    import itertools
    from inference.pdf.kde import unique_index_groups
    bad, total = None, 0
    for L in range(1, 7):
        for vals in itertools.product(range(4), repeat=L):
            total += 1
            arr = np.array(vals)
            u, groups = unique_index_groups(arr)
            ok = len(u) == len(groups) and sorted(int(i) for g in groups for i in g) == list(range(L))
            ok = ok and all(np.all(arr[g] == v) for v, g in zip(u, groups)) and list(u) == sorted(set(vals))
            if not ok and bad is None:
                bad = vals
    vc.inputs["arrays_enumerated"] = total
    vc.ensures("groups_partition_positions_by_value", bad is None and total > 5000)
