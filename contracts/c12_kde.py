"""C12 -- GaussianKDE is a faithful, normalised Gaussian kernel-density estimate."""
import numpy as np
from pyvc.vc import contract, bounded


def sample_family(rng, kind, n):
    if kind == "normal":
        s = rng.normal(size=n)
    elif kind == "skew":
        s = rng.gamma(2.0, size=n)
    elif kind == "bimodal":
        s = np.concatenate([rng.normal(-2, 0.5, size=n // 2), rng.normal(2, 1.0, size=n - n // 2)])
    elif kind == "heavy":
        s = rng.standard_t(3, size=n)
    elif kind == "ties":
        s = np.round(rng.normal(size=n) * 3) / 3
    elif kind == "cauchy":
        s = rng.standard_cauchy(size=n)
    elif kind == "outlier":
        s = np.concatenate([rng.normal(size=n - 1), [10 ** rng.uniform(2, 5)]])
    else:
        s = rng.uniform(-1, 1, size=n)
    return s


def brute_kde(sample, h, x):
    z = (np.atleast_1d(x)[:, None] - sample[None, :]) / h
    return np.exp(-0.5 * z * z).sum(axis=1) / (sample.size * h * np.sqrt(2 * np.pi))


def brute_cdf(sample, h, x):
    from scipy.special import erf
    z = (np.atleast_1d(x)[:, None] - sample[None, :]) / (np.sqrt(2) * h)
    return 0.5 * (1 + erf(z)).mean(axis=1)


@bounded("C12", "kde_native", native_runs=36)
def kde_native(vc):
    from inference.pdf import GaussianKDE
    seed = vc.int("seed", lo=0, hi=10 ** 6)
    rng = np.random.default_rng(seed)
    np.random.seed(seed % (2 ** 31))
    kind = vc.choice("family", ["normal", "skew", "bimodal", "heavy", "ties", "uniform", "cauchy", "outlier"])
    n = vc.choice("n", [3, 10, 200, 1500])
    scale = 10 ** vc.choice("log10_scale", [-6, -2, 0, 2, 6])
    loc = vc.choice("location_in_sigmas", [0.0, 5.0, 1e3, 1e6]) * scale
    mode = vc.choice("bandwidth", ["rule", "user_small", "user_large", "user_huge", "cv", "user_tiny"])
    base = sample_family(rng, kind, n)
    if np.ptp(base) == 0:
        base[0] += 1.0
    s = base * scale + loc
    kw = {}
    if mode == "user_small":
        kw["bandwidth"] = 0.05 * np.std(s)
    elif mode == "user_tiny":         # data range of many thousands of bandwidths: a deep region look-up
        kw["bandwidth"] = np.ptp(s) / 10 ** rng.uniform(3, 4.5)
    elif mode == "user_large":
        kw["bandwidth"] = 2.0 * np.ptp(s)
    elif mode == "user_huge":
        kw["bandwidth"] = 30.0 * np.ptp(s)
    elif mode == "cv":
        kw["cross_validation"] = True
        if n > 200:
            mode = "rule"
            kw = {}
    try:
        with np.errstate(all="ignore"):
            kde = GaussianKDE(s, **kw)
    except Exception as e:
        vc.inputs["error"] = f"{type(e).__name__}: {e}"[:160]
        vc.ensures("accepts_any_nondegenerate_sample_and_bandwidth", False)
        return
    h = kde.h
    lo, hi = s.min(), s.max()
    near = rng.choice(s, size=12) + rng.uniform(-3, 3, size=12) * h      # points close to samples (matter when h << range)
    # (also points astronomically far from the sample: 1e25 bandwidths -- region look-ups by index arithmetic overflow there)
    xs = np.concatenate([np.linspace(lo - 6 * h, hi + 6 * h, 61), rng.choice(s, size=5), near, [lo - 40 * h, hi + 40 * h],
                         [lo - 1e25 * h, hi + 1e25 * h]])
    p = np.asarray(kde(xs))
    c = np.asarray(kde.cdf(xs))
    pe, ce = brute_kde(s, h, xs), brute_cdf(s, h, xs)
    # truncation bounds: a sample left out of a region is at least 3.5 h away from every point served by the region
    phi35 = np.exp(-0.5 * 3.5 ** 2) / np.sqrt(2 * np.pi)
    from scipy.stats import norm
    vc.ensures("density_non_negative", bool(np.all(p >= 0)))
    vc.ensures("density_within_truncation_bound_of_exact_kde", bool(np.all(pe - p >= -1e-9 * pe.max()) and np.all(pe - p <= phi35 / h * 1.0000001 + 1e-12 * pe.max())))
    vc.ensures("cdf_within_truncation_bound_of_exact", bool(np.all(np.abs(c - ce) <= norm.cdf(-3.5) + 1e-9)))
    order = np.argsort(xs)
    vc.ensures("cdf_non_decreasing_from_zero_to_one", bool(np.all(np.diff(c[order]) >= -2 * norm.cdf(-3.5) - 1e-9) and c[order][0] <= 1e-3 and c[order][-1] >= 1 - 1e-3))
    # order of the sample / of the evaluation points, scalar vs array
    perm = rng.permutation(n)
    with np.errstate(all="ignore"):
        kde2 = GaussianKDE(s[perm], bandwidth=h)
        kde3 = GaussianKDE(s, bandwidth=h)
    vc.ensures("independent_of_sample_order", bool(np.allclose(np.asarray(kde2(xs)), np.asarray(kde3(xs)), rtol=1e-12, atol=0)))
    px = rng.permutation(xs.size)
    vc.ensures("independent_of_evaluation_order", bool(np.allclose(np.asarray(kde(xs[px])), p[px], rtol=1e-12, atol=0)
                                                      and np.allclose(np.asarray(kde.cdf(xs[px])), c[px], rtol=1e-12, atol=1e-15)))
    # the values depend on the VALUES of the evaluation points only: one buffer evaluated, overwritten in place and evaluated again
    buf = xs[px].copy()
    kde(buf), kde.cdf(buf)
    buf[:] = xs
    vc.ensures("evaluation_buffer_reused_in_place", bool(np.allclose(np.asarray(kde(buf)), p, rtol=1e-12, atol=0)
                                                        and np.allclose(np.asarray(kde.cdf(buf)), c, rtol=1e-12, atol=1e-15)))
    # integer-valued evaluation points given with an integer dtype (and Python ints) are points like any other
    xi = np.unique(np.round(np.linspace(lo, hi, 7)).astype(int))
    with np.errstate(all="ignore"):
        p_int, c_int = np.asarray(kde(xi), dtype=float), np.asarray(kde.cdf(xi), dtype=float)
        p_flt, c_flt = np.asarray(kde(xi.astype(float))), np.asarray(kde.cdf(xi.astype(float)))
        p_py = float(kde(int(xi[0])))
    vc.ensures("integer_evaluation_points_agree_with_float_ones",
               bool(np.allclose(p_int, p_flt, rtol=1e-12, atol=0) and np.allclose(c_int, c_flt, rtol=1e-12, atol=1e-15)
                    and abs(p_py - float(np.atleast_1d(p_flt)[0])) <= 1e-12 * max(float(np.atleast_1d(p_flt)[0]), 1e-300)))
    vc.ensures("scalar_and_array_agree", bool(all(abs(float(kde(float(v))) - pv) <= 1e-12 * max(pv, 1e-300) for v, pv in zip(xs[:7], p[:7]))))
    # affine equivariance of the bandwidth selection and of the estimate
    if mode in ("rule", "cv"):
        a, b = 10 ** rng.uniform(-2, 2), rng.normal() * 10
        np.random.seed(seed % (2 ** 31))
        with np.errstate(all="ignore"):
            kde_t = GaussianKDE(a * base + b, **kw)
            np.random.seed(seed % (2 ** 31))
            kde_b = GaussianKDE(base, **kw)
        vc.ensures("bandwidth_scales_with_the_data", abs(kde_t.h - a * kde_b.h) <= 1e-6 * a * kde_b.h)
        xb = np.linspace(base.min(), base.max(), 9)
        vc.ensures("estimate_rescales_and_shifts_with_the_data",
                   # (evaluation points on a region edge may fall in the neighbouring region after the map: the two
                   # estimates then differ by at most the truncation bound)
                   bool(np.allclose(np.asarray(kde_t(a * xb + b)) * a, np.asarray(kde_b(xb)), rtol=1e-9, atol=2 * phi35 / kde_b.h)))


@bounded("C12", "index_groups_exhaustive", native_runs=1)
def index_groups_exhaustive(vc):
    """unique_index_groups partitions the positions by value: every array of length <= 6 over <= 4 values"""
    import itertools
    from inference.pdf.kde import unique_index_groups
    bad, total = None, 0
    for L in range(1, 7):
        for vals in itertools.product(range(4), repeat=L):
            total += 1
            arr = np.array(vals)
            u, groups = unique_index_groups(arr)
            ok = len(u) == len(groups) and sorted(int(i) for g in groups for i in g) == list(range(L))
            ok = ok and all(np.all(arr[g] == v) for v, g in zip(u, groups)) and list(u) == sorted(set(vals))
            if not ok and bad is None:
                bad = vals
    vc.inputs["arrays_enumerated"] = total
    vc.ensures("groups_partition_positions_by_value", bad is None and total > 5000)


# ================================================================================================
# proof layer
# ================================================================================================
import z3
from pyvc import sym as S
from pyvc.sym import Sym, Unsupported
from pyvc.tensor import Tensor, SymList

KDE = "inference.pdf.kde"


def _build(vc):
    """the real GaussianKDE.__init__ on an arbitrary sample (N >= 3, not all equal) with a user bandwidth h > 0; the mode
    search is replaced by its frame contract (it only reads the object)"""
    N = vc.int("N", lo=3)
    raw = vc.vector("sample", N)
    h = vc.real("h", pos=True)
    vc.modular("GaussianKDE.locate_mode", lambda I, func, args, kwargs: vc.fresh_real("mode"))
    kde = vc.new(KDE, "GaussianKDE", raw, bandwidth=h)
    s = vc.attr(kde, "sample")
    return N, raw, h, kde, s


@contract("C12", "construction", native=False, replay_with="kde_native")
def construction(vc):
    """constants, region count, region midpoints, slice bounds and CDF offsets of a GaussianKDE"""
    N, raw, h, kde, s = _build(vc)
    s0, sl = s.at(0), s.at(N - 1)
    vc.ensures_forall("sample_is_sorted", (N, N), lambda i, j: S.Implies(S.cmp("<=", i, j), S.cmp("<=", s.at(i), s.at(j))))
    vc.ensures("normalisation", S.cmp("==", S.mul(vc.attr(kde, "norm"), S.mul(S.mul(N, vc.sqrt(S.mul(2, vc.pi))), h)), 1))
    vc.ensures("cutoff_is_four_bandwidths", S.cmp("==", vc.attr(kde, "cutoff"), S.mul(4, h)))
    vc.ensures("erf_scale", S.cmp("==", S.mul(vc.attr(kde, "q"), S.mul(vc.sqrt(2), h)), 1))
    vc.ensures("integration_limits", S.And(S.cmp("==", vc.attr(kde, "lwr_limit"), S.sub(s0, S.mul(2, h))),
                                           S.cmp("==", vc.attr(kde, "upr_limit"), S.add(sl, S.mul(2, h)))))
    tree = vc.attr(kde, "tree")
    n_layers = vc.attr(tree, "n")
    edges = vc.attr(tree, "edges")
    R = S.sub(edges.shape[0], 1)                     # number of regions = 2**n
    vc.ensures("at_least_one_region", S.And(S.cmp(">=", n_layers, 0), S.cmp(">=", R, 1)))
    # THE region-width lemma: regions are no wider than the bandwidth.  n = max(int(log2(range/h)) + 1, 0) > log2(range/h)
    rng_ = S.sub(sl, s0)
    vc.assume(S.cmp(">", rng_, 0))                   # at least two distinct values (quantifier of the property)
    x = S.div(vc.log(S.div(rng_, h)), vc.log(2))
    vc.assume_lemma("log 2 > 0", S.cmp(">", vc.log(2), 0))
    vc.lemma("layers_exceed_log2_of_range_over_bandwidth", S.cmp(">", n_layers, x))
    vc.assume_lemma("t -> 2^t is increasing and 2^(log u / log 2) = u:  n > log2(u) implies 2^n > u",
                    S.Implies(S.cmp(">", n_layers, x), S.cmp(">", S.mul(S.power(2, n_layers), 1.0), S.div(rng_, h))))
    vc.ensures("regions_no_wider_than_bandwidth", S.cmp("<=", rng_, S.mul(h, R)))
    # midpoints, slices, offsets
    slices = vc.attr(kde, "slices")
    offs = vc.attr(kde, "cdf_offsets")
    w = S.div(rng_, R)
    r = vc.index("r", R)
    mid = S.add(s0, S.mul(S.add(r, S.div(1, 2)), w))
    sl_r = slices.at(r) if isinstance(slices, SymList) else slices[r]
    lo, hi = sl_r.start, sl_r.stop
    vc.ensures("one_slice_and_offset_per_region", S.And(S.cmp("==", slices.length() if isinstance(slices, SymList) else len(slices), R),
                                                       S.cmp("==", offs.shape[0], R)))
    vc.ensures("slice_bounds_in_range", S.And(S.cmp("<=", 0, lo), S.cmp("<=", lo, N), S.cmp("<=", 0, hi), S.cmp("<=", hi, N)))
    j = vc.index("j", N)
    vc.ensures("samples_left_of_the_slice_are_beyond_the_cutoff", S.Implies(S.cmp("<", j, lo), S.cmp("<", s.at(j), S.sub(mid, S.mul(4, h)))))
    vc.ensures("samples_in_the_slice_are_within_the_cutoff",
               S.Implies(S.And(S.cmp(">=", j, lo), S.cmp("<", j, hi)),
                         S.And(S.cmp(">=", s.at(j), S.sub(mid, S.mul(4, h))), S.cmp("<", s.at(j), S.add(mid, S.mul(4, h))))))
    vc.ensures("samples_right_of_the_slice_are_beyond_the_cutoff", S.Implies(S.cmp(">=", j, hi), S.cmp(">=", s.at(j), S.add(mid, S.mul(4, h)))))
    vc.ensures("cdf_offset_counts_the_samples_left_of_the_slice", S.cmp("==", S.mul(offs.at(r), N), lo))
    # look-up table of the tree: position p of `edges` order -> region
    regs = vc.attr(tree, "regions")
    vc.ensures("lookup_table_length", S.cmp("==", regs.shape[0], S.add(R, 2)))
    p = vc.index("p", S.add(R, 2))
    want = S.ite(S.cmp("==", p, 0), 0, S.ite(S.cmp("==", p, S.add(R, 1)), S.sub(R, 1), S.sub(p, 1)))
    vc.ensures("lookup_table_maps_edge_position_to_region", S.cmp("==", regs.at(p), want))
    e = vc.index("e", S.add(R, 1))
    vc.ensures("edges_are_equally_spaced_over_the_sample_range", S.cmp("==", edges.at(e), S.add(s0, S.mul(e, w))))


@contract("C12", "default_bandwidth", native=False, replay_with="kde_native")
def default_bandwidth(vc):
    """GaussianKDE(sample) without a bandwidth: h is the normal-reference rule 1.06 * sd(sample) / N**(1/5) with the
    population standard deviation of the (sorted) sample, and every constant of the estimator is derived from that h"""
    from pyvc import npmodel as NPM
    N = vc.int("N", lo=3)
    raw = vc.vector("sample", N)
    vc.modular("GaussianKDE.locate_mode", lambda I, func, args, kwargs: vc.fresh_real("mode"))
    kde = vc.new(KDE, "GaussianKDE", raw)
    s = vc.attr(kde, "sample")
    h = vc.attr(kde, "h")
    d = s - s.mean()
    var = (d * d).mean()
    sd = vc.sqrt(var)
    vc.assume(S.cmp(">", S.sub(s.at(N - 1), s.at(0)), 0))      # at least two distinct values (quantifier of the property)
    vc.assume_lemma("the variance of a sample that is not constant is positive", S.cmp(">", var, 0))
    n5 = S.power(S.mul(N, 1.0), 0.2)
    vc.assume_lemma("N**0.2 > 0 (exp is positive)", S.cmp(">", n5, 0))
    vc.ensures("bandwidth_is_normal_reference_rule", S.cmp("==", S.mul(h, n5), S.mul(1.06, sd)))
    vc.ensures("normalisation_uses_that_bandwidth", S.cmp("==", S.mul(vc.attr(kde, "norm"), S.mul(S.mul(N, vc.sqrt(S.mul(2, vc.pi))), h)), 1))
    vc.ensures("cutoff_is_four_bandwidths", S.cmp("==", vc.attr(kde, "cutoff"), S.mul(4, h)))
    vc.ensures("erf_scale", S.cmp("==", S.mul(vc.attr(kde, "q"), S.mul(vc.sqrt(2), h)), 1))
    vc.ensures("integration_limits", S.And(S.cmp("==", vc.attr(kde, "lwr_limit"), S.sub(s.at(0), S.mul(2, h))),
                                           S.cmp("==", vc.attr(kde, "upr_limit"), S.add(s.at(N - 1), S.mul(2, h)))))


@contract("C12", "region_lookup", native=False, replay_with="kde_native")
def region_lookup(vc):
    """BinaryTree.region_groups: every value is sent to the region that contains it (values outside the range to the
    nearest end region); the grouping itself is unique_index_groups (contract: a partition of the positions by value,
    checked exhaustively for small arrays in the bounded layer)"""
    n = vc.int("layers", lo=0)
    a = vc.real("lower")
    width = vc.real("width", pos=True)
    b = S.add(a, width)
    tree = vc.new(KDE, "BinaryTree", n, (a, b))
    m = vc.int("m", lo=1)
    v = vc.vector("values", m)
    got = []
    vc.modular("unique_index_groups", lambda I, f, args, kw: (got.append(args[0]), ("unique", "groups"))[1])
    res = vc.call(tree, "region_groups", v)
    vc.ensures("grouping_is_unique_index_groups_of_the_region_indices", len(got) == 1 and res == ("unique", "groups"))
    ri = got[0]
    edges = vc.attr(tree, "edges")
    R = S.sub(edges.shape[0], 1)
    w = S.div(width, R)
    t = vc.index("t", m)
    r, x = ri.at(t), v.at(t)
    vc.ensures("one_region_index_per_value", vc.ndim(ri) == 1 and S.cmp("==", ri.shape[0], m))
    vc.ensures("region_index_in_range", S.And(S.cmp(">=", r, 0), S.cmp("<", r, R)))
    vc.ensures("value_inside_its_region", S.Implies(S.And(S.cmp(">=", x, a), S.cmp("<=", x, b)),
                                                   S.And(S.cmp("<=", S.add(a, S.mul(r, w)), x), S.cmp("<=", x, S.add(a, S.mul(S.add(r, 1), w))))))
    vc.ensures("values_below_the_range_use_the_first_region", S.Implies(S.cmp("<", x, a), S.cmp("==", r, 0)))
    vc.ensures("values_above_the_range_use_the_last_region", S.Implies(S.cmp(">", x, b), S.cmp("==", r, S.sub(R, 1))))


class KdeState:
    """a constructed GaussianKDE described by the post-conditions of `construction` (modular use of that contract) and a
    tree whose region_groups obeys `region_lookup` + the partition contract of unique_index_groups"""

    def __init__(self, vc):
        self.vc = vc
        c = vc.c
        self.N = vc.int("N", lo=3)
        self.R = vc.int("R", lo=1)
        self.m = vc.int("m", lo=1)
        self.G = vc.int("n_groups", lo=1)
        N, R, m, G = self.N, self.R, self.m, self.G
        self.s = vc.vector("s", N, origin="state")
        vc.assume_forall((N, N), lambda i, j: S.Implies(S.cmp("<=", i, j), S.cmp("<=", self.s.at(i), self.s.at(j))))
        self.h = vc.real("h", pos=True)
        self.q = vc.real("q", pos=True)
        self.norm = vc.real("norm", pos=True)
        I_ = z3.IntSort()
        LO, HI = z3.Function("LO", I_, I_), z3.Function("HI", I_, I_)
        self.LO, self.HI = LO, HI
        c.add_forall((R,), lambda r: z3.And(LO(S.z(r)) >= 0, LO(S.z(r)) <= HI(S.z(r)), HI(S.z(r)) <= S.z(N)), "slice-bounds")
        def slice_of(r):
            c.add_index_term(S.z(r), R)          # the bounds facts are wanted at every region actually used
            return slice(Sym(LO(S.z(r))), Sym(HI(S.z(r))))

        self.slices = SymList(R, slice_of)
        self.offsets = Tensor((R,), lambda r: S.div(Sym(LO(S.z(r))), N), origin="state:cdf_offsets")
        # groups: a partition of the positions 0..m-1; group k serves region U(k)
        U, GL = z3.Function("U", I_, I_), z3.Function("GL", I_, I_)
        GI = z3.Function("GI", I_, I_, I_)
        grp, pos = z3.Function("grp", I_, I_), z3.Function("pos", I_, I_)
        self.U, self.GL, self.GI, self.grp, self.pos = U, GL, GI, grp, pos
        c.add_forall((G,), lambda k: z3.And(U(S.z(k)) >= 0, U(S.z(k)) < S.z(R), GL(S.z(k)) >= 1), "groups")
        c.add_forall((m,), lambda t: z3.And(grp(S.z(t)) >= 0, grp(S.z(t)) < S.z(G), pos(S.z(t)) >= 0,
                                            pos(S.z(t)) < GL(grp(S.z(t))), GI(grp(S.z(t)), pos(S.z(t))) == S.z(t)), "partition")
        self.x = vc.vector("x", m, origin="input")
        st = self

        def group(k):
            kz = S.z(k)
            g = Tensor((Sym(GL(kz)),), lambda a_: Sym(GI(kz, S.z(a_))), dtype="int")
            # membership of a position in this group (inverse of the index list): used by assignments through it
            g.member = lambda i: (Sym(grp(S.z(i)) == kz), Sym(pos(S.z(i))))
            g.group_of = kz
            return g

        class Tree:
            def get_attr(self, I, name):
                return getattr(self, name)

            def region_groups(self, values):
                st.asked = values
                return (Tensor((G,), lambda k: Sym(U(S.z(k))), dtype="int"), SymList(G, group))

        self.tree = Tree()
        self.kde = vc.obj(KDE, "GaussianKDE", sample=self.s, slices=self.slices, cdf_offsets=self.offsets, tree=self.tree,
                          norm=self.norm, q=self.q, h=self.h)

    def region_of(self, t):
        return Sym(self.U(self.grp(S.z(t))))

    def kernel_sum(self, t, term):
        """sum over the samples of the slice of t's region"""
        r = S.z(self.region_of(t))
        lo, hi = Sym(self.LO(r)), Sym(self.HI(r))
        return self.vc.sum(S.sub(hi, lo), lambda j: term(S.sub(self.x.at(t), self.s.at(S.add(lo, j)))))


from pyvc.loops import LoopSpec


class Regions(LoopSpec):
    """invariant: positions of the groups already processed hold their kernel sum, the others are still zero"""
    name = "regions"

    def __init__(self, vc, st, acc, value):
        super().__init__(vc)
        self.st, self.acc, self.value = st, acc, value
        self.keep_locals = (acc,)

    def havoc(self, I, fr, k):
        st = self.st
        f = z3.Function(str(ctx_fresh("acc")), z3.IntSort(), z3.RealSort())
        fr.locals[self.acc] = Tensor((st.m,), lambda t: Sym(f(S.z(t))))

    def _inv(self, fr, k, t, acc=None):
        st = self.st
        cur = (acc if acc is not None else fr.locals[self.acc]).at(t)
        done = Sym(st.grp(S.z(t)) < S.z(k))
        return S.And(S.Implies(done, S.cmp("==", cur, self.value(t))), S.Implies(S.Not(done), S.cmp("==", cur, 0)))

    def assume_inv(self, I, fr, k):
        st = self.st
        acc = fr.locals[self.acc].frozen()          # the array as it is NOW (the closure is instantiated lazily)
        ctx_().add_forall((st.m,), lambda t: S.z(self._inv(fr, k, Sym(t) if not isinstance(t, (int, Sym)) else t, acc)), "regions-inv")

    def oblige_inv(self, what, I, fr, k):
        st = self.st
        cur = fr.locals[self.acc]
        g = lambda t: Sym(st.grp(S.z(t)))
        self.vc.ensures_forall(f"{self.name}.{what}.earlier_groups_hold_their_kernel_sum", st.m,
                               lambda t: S.cmp("==", cur.at(t), self.value(t)), assuming=lambda t: S.cmp("<", g(t), S.sub(k, 1)))
        self.vc.ensures_forall(f"{self.name}.{what}.latest_group_holds_its_kernel_sum", st.m,
                               lambda t: S.cmp("==", cur.at(t), self.value(t)), assuming=lambda t: S.cmp("==", g(t), S.sub(k, 1)))
        self.vc.ensures_forall(f"{self.name}.{what}.other_positions_still_zero", st.m,
                               lambda t: S.cmp("==", cur.at(t), 0), assuming=lambda t: S.cmp(">=", g(t), k))


def ctx_():
    from pyvc.sym import ctx
    return ctx()


def ctx_fresh(stem):
    return ctx_().fresh(stem, "Int")


def _acc_name(func):
    import ast
    for n in ast.walk(func.node):
        if isinstance(n, ast.Assign) and isinstance(n.value, ast.Call) and ast.unparse(n.value.func) == "zeros" \
                and isinstance(n.targets[0], ast.Name):
            return n.targets[0].id
    raise Unsupported("accumulator array not found")


@contract("C12", "density_evaluation", native=False, replay_with="kde_native")
def density_evaluation(vc):
    """__call__(x): entry t is norm * sum over the slice of t's region of exp(-((x_t - s_j) q)^2)"""
    vc.c.numeric_filter = "float"
    vc.c.sigma_merge = "structural"
    st = KdeState(vc)
    func = vc.I.get_function(KDE, "GaussianKDE.__call__")
    term = lambda dx: vc.exp(S.sub(0, S.mul(S.mul(dx, st.q), S.mul(dx, st.q))))
    val = lambda t: st.kernel_sum(t, term)
    vc.loop("GaussianKDE.__call__", "for#0", Regions(vc, st, _acc_name(func), val))
    vc.assume(S.cmp(">=", st.m, 2))
    out = vc.call(st.kde, "__call__", st.x)
    vc.ensures("regions_looked_up_for_the_evaluation_points", getattr(st, "asked", None) is not None)
    vc.ensures_forall("looked_up_points_are_the_arguments", st.m, lambda t: S.cmp("==", st.asked.at(t), st.x.at(t)))
    vc.ensures("one_density_per_point", vc.ndim(out) == 1 and S.cmp("==", out.shape[0], st.m))
    vc.ensures_forall("density_is_normalised_truncated_kernel_sum", st.m, lambda t: S.cmp("==", out.at(t), S.mul(st.norm, val(t))))
    vc.ensures("sample_not_modified", len(vc.writes_to_inputs()) == 0)


@contract("C12", "cdf_evaluation", native=False, replay_with="kde_native")
def cdf_evaluation(vc):
    """cdf(x): entry t is (number of samples left of the slice)/N + (1/2N) sum over the slice of 1 + erf((x_t - s_j) q)"""
    from pyvc import npmodel as N_
    vc.c.numeric_filter = "float"
    vc.c.sigma_merge = "structural"
    st = KdeState(vc)
    func = vc.I.get_function(KDE, "GaussianKDE.cdf")
    term = lambda dx: S.add(1, N_.sp_erf(S.mul(dx, st.q)))
    val = lambda t: S.add(S.mul(S.div(S.div(1, 2), st.N), st.kernel_sum(t, term)),
                          st.offsets.at(st.region_of(t)))
    vc.loop("GaussianKDE.cdf", "for#0", Regions(vc, st, _acc_name(func), val))
    vc.assume(S.cmp(">=", st.m, 2))
    out = vc.call(st.kde, "cdf", st.x)
    vc.ensures_forall("looked_up_points_are_the_arguments", st.m, lambda t: S.cmp("==", st.asked.at(t), st.x.at(t)))
    vc.ensures("one_value_per_point", vc.ndim(out) == 1 and S.cmp("==", out.shape[0], st.m))
    vc.ensures_forall("cdf_is_offset_plus_truncated_erf_sum", st.m, lambda t: S.cmp("==", out.at(t), val(t)))


@contract("C12", "truncation_theorem", native=False, replay_with="kde_native")
def truncation_theorem(vc):
    """composition of the contracts above (no code): for an evaluation point x served by region r, every sample outside
    the slice of r is at least 3.5 bandwidths away from x, on the side the CDF offset assumes.  Hence
    0 <= exact KDE - returned density <= phi(3.5)/h and |exact CDF - returned CDF| <= Phi(-3.5)  (each omitted kernel
    contributes at most exp(-3.5^2/2)/(N h sqrt(2 pi)) resp. Phi(-3.5)/N: monotonicity of the Gaussian tail, assumed)"""
    N = vc.int("N", lo=3)
    s = vc.vector("s", N)
    vc.assume_forall((N, N), lambda i, j: S.Implies(S.cmp("<=", i, j), S.cmp("<=", s.at(i), s.at(j))))
    h = vc.real("h", pos=True)
    R = vc.int("R", lo=1)
    s0, sl = s.at(0), s.at(N - 1)
    rng_ = S.sub(sl, s0)
    vc.assume(S.cmp(">", rng_, 0))
    w = S.div(rng_, R)
    # post-conditions of `construction`
    vc.assume(S.cmp("<=", rng_, S.mul(h, R)))                                   # regions_no_wider_than_bandwidth
    r = vc.int("r", lo=0)
    vc.assume(S.cmp("<", r, R))
    mid = S.add(s0, S.mul(S.add(r, S.div(1, 2)), w))
    lo, hi = vc.int("lo", lo=0), vc.int("hi", lo=0)
    vc.assume(S.And(S.cmp("<=", lo, hi), S.cmp("<=", hi, N)))
    vc.assume_forall(N, lambda j: S.And(S.Implies(S.cmp("<", j, lo), S.cmp("<", s.at(j), S.sub(mid, S.mul(4, h)))),
                                        S.Implies(S.cmp(">=", j, hi), S.cmp(">=", s.at(j), S.add(mid, S.mul(4, h))))))
    # post-conditions of `region_lookup` for the point x
    x = vc.real("x")
    a_, b_ = s0, sl
    vc.assume(S.Implies(S.And(S.cmp(">=", x, a_), S.cmp("<=", x, b_)),
                        S.And(S.cmp("<=", S.add(a_, S.mul(r, w)), x), S.cmp("<=", x, S.add(a_, S.mul(S.add(r, 1), w))))))
    vc.assume(S.Implies(S.cmp("<", x, a_), S.cmp("==", r, 0)))
    vc.assume(S.Implies(S.cmp(">", x, b_), S.cmp("==", r, S.sub(R, 1))))
    j = vc.index("j", N)
    c35 = S.mul(S.div(7, 2), h)
    vc.ensures("samples_left_of_the_slice_are_at_least_3.5h_below_x", S.Implies(S.cmp("<", j, lo), S.cmp(">=", S.sub(x, s.at(j)), c35)))
    vc.ensures("samples_right_of_the_slice_are_at_least_3.5h_above_x", S.Implies(S.cmp(">=", j, hi), S.cmp(">=", S.sub(s.at(j), x), c35)))
