"""HamiltonianChain.take_step under contract (C01, C03, C04, C15).

run_leapfrog is modular here (its own contracts are in C07/C04): it returns some pair (t, r); when the chain
is bounded the returned position is inside the bounds (proved for bounded_leapfrog in C04)."""
import ast
import z3
from pyvc import sym as S
from pyvc.sym import Sym, Unsupported, ctx
from pyvc.tensor import Tensor, SymList
from pyvc.loops import LoopSpec
from pyvc.objlist import RngModel, PosteriorGhost, F, ARR

HMC = "inference.mcmc.hmc"
UTIL = "inference.mcmc.utilities"


def resolve_roles(func):
    roles = {}
    for n in ast.walk(func.node):
        if isinstance(n, ast.Assign) and len(n.targets) == 1:
            src = ast.unparse(n.value)
            t = n.targets[0]
            if isinstance(t, ast.Name):
                if "self.posterior(" in src:
                    roles.setdefault("p_new", t.id)
                elif src.startswith("exp("):
                    roles.setdefault("accept_prob", t.id)
            elif isinstance(t, ast.Tuple) and "self.run_leapfrog(" in src and len(t.elts) == 2:
                roles.setdefault("t_new", t.elts[0].id)
                roles.setdefault("r_new", t.elts[1].id)
    for r in ("p_new", "accept_prob", "t_new", "r_new"):
        if r not in roles:
            raise Unsupported(f"HamiltonianChain.take_step: cannot resolve the local playing the role '{r}'")
    return roles


class HmcState:
    def __init__(self, vc, bounded):
        c = vc.c
        self.vc, self.bounded = vc, bounded
        self.d = vc.int("d", lo=1)
        self.N = vc.int("N", lo=1)
        self.beta = vc.real("beta", pos=True)
        d, N = self.d, self.N
        I_, R_ = z3.IntSort(), z3.RealSort()
        self.TH = z3.Function("TH", I_, I_, R_)
        self.Pf = z3.Function("P", I_, R_)
        self.x_last = z3.Const("x_last", ARR)
        TH, xl = self.TH, self.x_last
        n1 = S.z(N) - 1
        c.add_forall((d,), lambda j: TH(n1, S.z(j)) == xl[S.z(j)], "x_last")
        c.defs.append(self.Pf(n1) == self.beta.e * F(xl))
        self.rng = RngModel("chain.rng")
        self.theta = SymList(N, lambda t: Tensor((d,), lambda j: Sym(TH(S.z(t), S.z(j)))), origin="state:theta")
        self.probs = SymList(N, lambda t: Sym(self.Pf(S.z(t))), origin="state:probs")
        self.steps_hist = SymList(N, lambda t: Sym(z3.Function("LS", I_, I_)(S.z(t))), origin="state:leapfrog_steps")
        self.post = PosteriorGhost()
        # mass: an arbitrary symmetric linear map (contracts of the mass classes are in C07)
        self.vel = z3.Function("vel", ARR, I_, R_)
        self.mass = MassGhost(self)
        self.ES = vc.obj(HMC + ".epsilon", "EpsilonSelector", epsilon=vc.real("epsilon", pos=True))
        self.chain = vc.obj(HMC, "HamiltonianChain", theta=self.theta, probs=self.probs, chain_length=N,
                            n_parameters=d, inv_temp=self.beta, posterior=self.post, rng=self.rng,
                            leapfrog_steps=self.steps_hist, mass=self.mass, ES=self.ES,
                            steps=vc.int("steps", lo=1), max_attempts=vc.int("max_attempts", lo=1))
        if bounded:
            self.lower = vc.vector("lower", d, origin="state")
            width = vc.vector("width", d, pos=True, origin="state")
            self.upper = self.lower + width
            lo, up = self.lower, self.upper
            c.add_forall((d,), lambda j: z3.And(S.z(lo.at(j)) <= xl[S.z(j)], xl[S.z(j)] <= S.z(up.at(j))), "start-inside")
        self.chain.fields["run_leapfrog"] = LeapfrogSummary(self)

    def limits_ok(self, j, v):
        if not self.bounded:
            return z3.BoolVal(True)
        return z3.And(S.z(self.lower.at(Sym(j))) <= v, v <= S.z(self.upper.at(Sym(j))))


class MassGhost:
    """particle mass seen from take_step: velocity is some function of the momentum; momenta are fresh draws"""
    vc_attrs = ("get_velocity", "sample_momentum")

    def __init__(self, st):
        self.st = st

    def get_velocity(self, r):
        from pyvc.objlist import as_array
        arr = as_array(r)
        st = self.st
        return Tensor((st.d,), lambda j: Sym(st.vel(arr, S.z(j))))

    def sample_momentum(self, rng):
        c = ctx()
        f = z3.Function(str(c.fresh("r0", "Int")), z3.IntSort(), z3.RealSort())
        r0 = Tensor((self.st.d,), lambda j: Sym(f(S.z(j))))
        c.trace.append(("draw", "momentum", r0))
        return r0


class LeapfrogSummary:
    """modular contract of run_leapfrog: returns a pair (t, r); t is inside the bounds when bounds are set;
    the arguments (copies made by the caller) may be overwritten, the chain's stored state is not touched"""

    def __init__(self, st):
        self.st = st

    def __call__(self, t0, r0, n_steps):
        c = ctx()
        st = self.st
        ft = z3.Function(str(c.fresh("lf_t", "Int")), z3.IntSort(), z3.RealSort())
        fr_ = z3.Function(str(c.fresh("lf_r", "Int")), z3.IntSort(), z3.RealSort())
        t = Tensor((st.d,), lambda j: Sym(ft(S.z(j))))
        r = Tensor((st.d,), lambda j: Sym(fr_(S.z(j))))
        if st.bounded:
            c.add_forall((st.d,), lambda j: st.limits_ok(S.z(j), ft(S.z(j))), "leapfrog-inside")
        c.trace.append(("leapfrog", t0, r0, n_steps, t, r))
        return t, r


def tuning_only_es(I, func, args, kwargs):
    """EpsilonSelector.add_probability: adjusts only the step-size tuning state"""
    return None


class Attempts(LoopSpec):
    name = "attempts"

    def __init__(self, vc, st, roles):
        super().__init__(vc)
        self.st, self.roles = st, roles
        self.fresh_locals = {}
        self.accepted = None

    def havoc(self, I, fr, k):
        self.mark = len(ctx().trace)
        for nm in (self.roles["t_new"], self.roles["r_new"], self.roles["p_new"], self.roles["accept_prob"]):
            fr.locals.pop(nm, None)

    def invariant(self, I, fr, k):
        return True

    def on_break(self, I, fr, k):
        self._edge(I, fr, "accept")

    def on_iteration_end(self, I, fr, k):
        self._edge(I, fr, "reject")

    def _edge(self, I, fr, edge):
        vc, st = self.vc, self.st
        tr = ctx().trace[self.mark:]
        calls = [e for e in tr if e[0] == "posterior"]
        us = [e for e in tr if e[0] == "draw" and e[1] == "uniform01"]
        moms = [e for e in tr if e[0] == "draw" and e[1] == "momentum"]
        lfs = [e for e in tr if e[0] == "leapfrog"]
        vc.ensures(f"C01/{edge}.one_trajectory_one_evaluation", len(calls) == 1 and len(moms) == 1 and len(lfs) == 1)
        if not (len(calls) == 1 and len(moms) == 1 and len(lfs) == 1):
            return
        _, arr, snap, val = calls[0]
        _, t0, r0a, n_steps, t1, r1 = lfs[0]
        r0 = moms[0][2]
        p_new = S.z(fr.locals[self.roles["p_new"]])
        acc = S.z(fr.locals[self.roles["accept_prob"]])
        xl = st.x_last
        # the trajectory starts from (a copy of) the current point with the freshly drawn momentum
        vc.ensures_forall(f"C01/{edge}.trajectory_starts_at_current_state", st.d,
                          lambda j: Sym(z3.And(S.z(t0.at(j)) == xl[S.z(j)], S.z(r0a.at(j)) == S.z(r0.at(j)))))
        # the candidate evaluated is the end point of that trajectory
        vc.ensures_forall(f"C01/{edge}.candidate_is_trajectory_end", st.d,
                          lambda j: Sym(S.z(snap.at(j)) == S.z(t1.at(j))))
        vc.ensures(f"C01/{edge}.new_value", Sym(p_new == st.beta.e * val))
        # acceptance probability exp(H0 - H) with H0 = KE(r0) - beta*F(x), H = KE(r1) - beta*F(y), using the
        # kinetic energy under which the momenta are drawn (C07)
        ke = I.get_attr(st.chain, "kinetic_energy")
        H0 = S.z(I.call(ke, [r0])) - st.beta.e * F(xl)
        H1 = S.z(I.call(ke, [r1])) - st.beta.e * val
        vc.ensures(f"C01/{edge}.acceptance_probability", Sym(acc == S.uf("exp", H0 - H1)))
        if edge == "accept":
            rule = z3.Or(acc >= 1, S.z(us[-1][2]) <= acc) if len(us) >= 2 else (acc >= 1)
            vc.ensures("C01/accept.metropolis_rule", Sym(rule))
            self.accepted = (arr, snap, val)
        else:
            ok = len(us) >= 2
            vc.ensures("C01/reject.metropolis_rule",
                       Sym(z3.And(z3.Not(acc >= 1), z3.Not(S.z(us[-1][2]) <= acc))) if ok else False)
        vc.ensures_forall(f"C04/{edge}.evaluation_inside_limits", st.d,
                          lambda j: Sym(st.limits_ok(S.z(j), S.z(snap.at(j)))))


def hmc_take_step(vc):
    bounded = vc.choice("bounded", [False, True])
    st = HmcState(vc, bounded)
    func = vc.I.get_function(HMC, "HamiltonianChain.take_step")
    roles = resolve_roles(func)
    vc.modular("EpsilonSelector.add_probability", tuning_only_es)
    spec = Attempts(vc, st, roles)
    vc.loop("HamiltonianChain.take_step", "for#0", spec)
    vc.allowed_raises = {"ValueError"}       # giving up after max_attempts is documented behaviour
    vc.call(st.chain, "take_step")
    N, d = st.N, st.d
    probs = vc.attr(st.chain, "probs")
    theta = vc.attr(st.chain, "theta")
    vc.ensures("C15/plus_one.probs", probs.length() == N + 1)
    vc.ensures("C15/plus_one.theta", theta.length() == N + 1)
    vc.ensures("C15/plus_one.leapfrog_steps", vc.attr(st.chain, "leapfrog_steps").length() == N + 1)
    vc.ensures("C15/plus_one.chain_length", vc.attr(st.chain, "chain_length") == N + 1)
    if spec.accepted is None:
        vc.ensures("C03/step_stores_an_accepted_candidate", False)
        return
    arr, snap, val = spec.accepted
    vc.ensures("C03/stored_logprob_is_beta_F_of_stored_point", Sym(S.z(probs.at(N)) == st.beta.e * val))
    vc.ensures_forall("C03/stored_point", d, lambda j: Sym(S.z(theta.at(N).at(j)) == S.z(snap.at(j))))
    vc.ensures_forall("C03/history_unchanged.theta", (N, d),
                      lambda t, j: Sym(S.z(theta.at(t).at(j)) == st.TH(S.z(t), S.z(j))))
    vc.ensures_forall("C03/history_unchanged.probs", N, lambda t: Sym(S.z(probs.at(t)) == st.Pf(S.z(t))))
    vc.ensures_forall("C04/stored_sample_inside_limits", d,
                      lambda j: Sym(st.limits_ok(S.z(j), S.z(theta.at(N).at(j)))))
