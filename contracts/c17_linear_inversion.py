"""C17 -- GP linear inversion returns the exact linear-Gaussian posterior."""
import numpy as np
from pyvc.vc import contract, bounded


@bounded("C17", "inversion_native", native_runs=30)
def inversion_native(vc):
    from scipy.stats import multivariate_normal
    from inference.gp import GpLinearInverter, SquaredExponential, RationalQuadratic, ConstantMean, LinearMean, QuadraticMean
    from contracts.gp_common import hyperpars_for
    seed = vc.int("seed", lo=0, hi=10 ** 6)
    rng = np.random.default_rng(seed)
    shape = vc.choice("system", ["under", "over", "square", "rank_deficient"])
    p = int(rng.integers(2, 9))
    m = {"under": max(1, p - int(rng.integers(1, p))), "over": p + int(rng.integers(1, 5)), "square": p, "rank_deficient": p}[shape]
    d = int(rng.integers(1, 3))
    pos = rng.normal(size=(p, d))
    A = rng.normal(size=(m, p))
    if shape == "rank_deficient":
        A[-1] = A[0]
        A[:, -1] = A[:, 0]
    y = rng.normal(size=m) * 2
    y_err = 10 ** rng.uniform(-1.5, 0, size=m)
    K = [SquaredExponential, RationalQuadratic][seed % 2]()
    M = [ConstantMean, LinearMean, QuadraticMean][seed % 3]()
    inv = GpLinearInverter(y=y, y_err=y_err, model_matrix=A, parameter_spatial_positions=pos,
                           prior_covariance_function=K, prior_mean_function=M)
    theta = hyperpars_for(list(M.hyperpar_labels) + list(K.hyperpar_labels), rng, pos)
    Kp = K.build_covariance(theta[inv.cov_slice])
    mp = M.build_mean(theta[inv.mean_slice])
    Sg = np.diag(y_err ** 2)
    # closed form of the linear-Gaussian posterior (data-space form, valid for any rank)
    J = A @ Kp @ A.T + Sg
    G = Kp @ A.T @ np.linalg.inv(J)
    mean_c = mp + G @ (y - A @ mp)
    cov_c = Kp - G @ A @ Kp
    mean, cov = inv.calculate_posterior(theta)
    sc = max(1.0, float(np.abs(cov_c).max()), float(np.abs(mean_c).max()))
    vc.ensures("posterior_mean_is_closed_form", bool(np.allclose(mean, mean_c, rtol=1e-6, atol=1e-7 * sc)))
    vc.ensures("posterior_covariance_is_closed_form", bool(np.allclose(cov, cov_c, rtol=1e-6, atol=1e-7 * sc)))
    vc.ensures("mean_only_path_agrees", bool(np.allclose(inv.calculate_posterior_mean(theta), mean, rtol=1e-8, atol=1e-9 * sc)))
    vc.ensures("covariance_symmetric_psd", bool(np.allclose(cov, cov.T, rtol=1e-7, atol=1e-8 * sc)
                                                and np.linalg.eigvalsh(0.5 * (cov + cov.T)).min() >= -1e-8 * sc))
    vc.ensures("covariance_no_larger_than_prior", bool(np.linalg.eigvalsh(0.5 * ((Kp - cov) + (Kp - cov).T)).min() >= -1e-8 * sc))
    want = multivariate_normal(mean=A @ mp, cov=J, allow_singular=True).logpdf(y) + 0.5 * m * np.log(2 * np.pi)
    lml = inv.marginal_likelihood(theta)
    vc.ensures("evidence_is_mvn_log_density_up_to_constant", abs(lml - want) <= 1e-7 * max(1.0, abs(want)))
    v2, g = inv.marginal_likelihood_gradient(theta)
    gf = np.zeros(theta.size)
    for k in range(theta.size):
        e = np.zeros(theta.size)
        e[k] = 1e-4
        f = inv.marginal_likelihood
        gf[k] = (-f(theta + 2 * e) + 8 * f(theta + e) - 8 * f(theta - e) + f(theta - 2 * e)) / 12e-4
    vc.ensures("evidence_value_variant_agrees", abs(v2 - lml) <= 1e-9 * max(1.0, abs(lml)))
    vc.ensures("evidence_gradient_is_true_gradient", bool(np.allclose(g, gf, rtol=2e-4, atol=2e-5 * max(1.0, float(np.abs(gf).max())))))
