"""C17 -- GP linear inversion returns the exact linear-Gaussian posterior."""
import numpy as np
from pyvc.vc import contract, bounded


@bounded("C17", "inversion_native", native_runs=30)
def inversion_native(vc):
    from scipy.stats import multivariate_normal
    from inference.gp import GpLinearInverter, SquaredExponential, RationalQuadratic, ConstantMean, LinearMean, QuadraticMean
    from contracts.gp_common import hyperpars_for
    seed = vc.int("seed", lo=0, hi=10 ** 6)
    rng = np.random.default_rng(seed)
    shape = vc.choice("system", ["under", "over", "square", "rank_deficient"])
    p = int(rng.integers(2, 9))
    m = {"under": max(1, p - int(rng.integers(1, p))), "over": p + int(rng.integers(1, 5)), "square": p, "rank_deficient": p}[shape]
    d = int(rng.integers(1, 3))
    pos = rng.normal(size=(p, d))
    A = rng.normal(size=(m, p))
    if shape == "rank_deficient":
        A[-1] = A[0]
        A[:, -1] = A[:, 0]
    y = rng.normal(size=m) * 2
    y_err = 10 ** rng.uniform(-1.5, 0, size=m)
    from inference.gp import ChangePoint
    # the prior covariance: plain kernels and change-point combinations of two and of three kernels (in a change point of
    # three or more kernels every weight depends on two neighbouring transitions)
    mkK = [SquaredExponential, RationalQuadratic,
           lambda: ChangePoint(kernels=[SquaredExponential(), RationalQuadratic(), SquaredExponential()], axis=0),
           SquaredExponential, RationalQuadratic,
           lambda: ChangePoint(kernels=[SquaredExponential(), SquaredExponential()], axis=0)][seed % 6]
    K = mkK()
    M = [ConstantMean, LinearMean, QuadraticMean][seed % 3]()
    inv = GpLinearInverter(y=y, y_err=y_err, model_matrix=A, parameter_spatial_positions=pos,
                           prior_covariance_function=K, prior_mean_function=M)
    theta = hyperpars_for(list(M.hyperpar_labels) + list(K.hyperpar_labels), rng, pos)
    Kp = K.build_covariance(theta[inv.cov_slice])
    mp = M.build_mean(theta[inv.mean_slice])
    Sg = np.diag(y_err ** 2)
    # closed form of the linear-Gaussian posterior (data-space form, valid for any rank)
    J = A @ Kp @ A.T + Sg
    G = Kp @ A.T @ np.linalg.inv(J)
    mean_c = mp + G @ (y - A @ mp)
    cov_c = Kp - G @ A @ Kp
    mean, cov = inv.calculate_posterior(theta)
    sc = max(1.0, float(np.abs(cov_c).max()), float(np.abs(mean_c).max()))
    vc.ensures("posterior_mean_is_closed_form", bool(np.allclose(mean, mean_c, rtol=1e-6, atol=1e-7 * sc)))
    vc.ensures("posterior_covariance_is_closed_form", bool(np.allclose(cov, cov_c, rtol=1e-6, atol=1e-7 * sc)))
    vc.ensures("mean_only_path_agrees", bool(np.allclose(inv.calculate_posterior_mean(theta), mean, rtol=1e-8, atol=1e-9 * sc)))
    vc.ensures("covariance_symmetric_psd", bool(np.allclose(cov, cov.T, rtol=1e-7, atol=1e-8 * sc)
                                                and np.linalg.eigvalsh(0.5 * (cov + cov.T)).min() >= -1e-8 * sc))
    vc.ensures("covariance_no_larger_than_prior", bool(np.linalg.eigvalsh(0.5 * ((Kp - cov) + (Kp - cov).T)).min() >= -1e-8 * sc))
    want = multivariate_normal(mean=A @ mp, cov=J, allow_singular=True).logpdf(y) + 0.5 * m * np.log(2 * np.pi)
    lml = inv.marginal_likelihood(theta)
    vc.ensures("evidence_is_mvn_log_density_up_to_constant", abs(lml - want) <= 1e-7 * max(1.0, abs(want)))
    v2, g = inv.marginal_likelihood_gradient(theta)
    gf = np.zeros(theta.size)
    for k in range(theta.size):
        e = np.zeros(theta.size)
        e[k] = 1e-4
        f = inv.marginal_likelihood
        gf[k] = (-f(theta + 2 * e) + 8 * f(theta + e) - 8 * f(theta - e) + f(theta - 2 * e)) / 12e-4
    vc.ensures("evidence_value_variant_agrees", abs(v2 - lml) <= 1e-9 * max(1.0, abs(lml)))
    # results depend on the VALUES of theta only: the same array object changed in place between calls (what an optimiser
    # does) gives what a fresh array with those values gives
    work = theta.copy()
    inv.calculate_posterior(work), inv.marginal_likelihood(work)
    work += 0.3 * rng.normal(size=work.size)
    fresh = work.copy()
    m_a, c_a = inv.calculate_posterior(work)
    e_a = inv.marginal_likelihood(work)
    inv2 = GpLinearInverter(y=y, y_err=y_err, model_matrix=A, parameter_spatial_positions=pos,
                            prior_covariance_function=mkK(), prior_mean_function=type(M)())
    m_b, c_b = inv2.calculate_posterior(fresh)
    e_b = inv2.marginal_likelihood(fresh)
    vc.ensures("no_dependence_on_earlier_calls_with_the_same_array",
               bool(np.allclose(m_a, m_b, rtol=1e-10, atol=1e-12 * sc) and np.allclose(c_a, c_b, rtol=1e-10, atol=1e-12 * sc))
               and abs(e_a - e_b) <= 1e-10 * max(1.0, abs(e_b)) and bool(np.allclose(inv.calculate_posterior_mean(work), m_b, rtol=1e-8, atol=1e-9 * sc)))
    vc.ensures("evidence_gradient_is_true_gradient", bool(np.allclose(g, gf, rtol=2e-4, atol=2e-5 * max(1.0, float(np.abs(gf).max())))))


@bounded("C17", "large_system_native", native_runs=6)
def large_system_native(vc):
    """hundreds of data points and small / large error bars: determinants, products and sums of squares leave the double range
    long before their logarithms do -- evidence, its gradient and the posterior must stay finite and equal to the closed form"""
    from inference.gp import GpLinearInverter, SquaredExponential, ConstantMean
    seed = vc.int("seed", lo=0, hi=10 ** 6)
    rng = np.random.default_rng(seed)
    m = vc.choice("n_data", [150, 400])
    p = vc.choice("n_parameters", [12, 40])
    log_err = vc.choice("log10_error", [-3.0, -1.7, 0.0, 3.0])
    pos = np.linspace(0, 1, p)[:, None]
    A = np.exp(-0.5 * ((np.linspace(0, 1, m)[:, None] - pos[:, 0][None, :]) / 0.08) ** 2) + 0.01 * rng.normal(size=(m, p))
    y_err = 10 ** (log_err + rng.uniform(-0.2, 0.2, size=m))
    truth = np.sin(6 * pos[:, 0])
    y = A @ truth + y_err * rng.normal(size=m)
    K, M = SquaredExponential(), ConstantMean()
    inv = GpLinearInverter(y=y, y_err=y_err, model_matrix=A, parameter_spatial_positions=pos,
                           prior_covariance_function=K, prior_mean_function=M)
    theta = np.array([0.1, 0.0, np.log(0.15)])          # mean, log-amplitude, log-length
    labels = list(M.hyperpar_labels) + list(K.hyperpar_labels)
    vc.inputs["labels"] = labels
    Kp = K.build_covariance(theta[inv.cov_slice])
    mp = M.build_mean(theta[inv.mean_slice])
    J = A @ Kp @ A.T + np.diag(y_err ** 2)
    sign, logdet = np.linalg.slogdet(J)
    r = y - A @ mp
    want = -0.5 * r @ np.linalg.solve(J, r) - 0.5 * logdet
    with np.errstate(all="ignore"):
        lml = inv.marginal_likelihood(theta)
        v2, g = inv.marginal_likelihood_gradient(theta)
        mean, cov = inv.calculate_posterior(theta)
    vc.inputs["evidence"], vc.inputs["expected"] = float(lml), float(want)
    tol = 1e-6 * max(1.0, abs(want))
    vc.ensures("evidence_is_finite_and_closed_form", bool(np.isfinite(lml)) and abs(lml - want) <= tol)
    vc.ensures("evidence_value_variant_agrees", bool(np.isfinite(v2)) and abs(v2 - want) <= tol)
    vc.ensures("gradient_is_finite", bool(np.all(np.isfinite(g))))
    G = Kp @ A.T @ np.linalg.inv(J)
    mean_c = mp + G @ r
    sc = max(1.0, float(np.abs(mean_c).max()))
    vc.ensures("posterior_mean_is_closed_form", bool(np.allclose(mean, mean_c, rtol=1e-5, atol=1e-5 * sc)))


# ================================================================================================
# proof layer: the real posterior / evidence code over abstract matrices (pyvc.matalg)
# ================================================================================================
from pyvc import sym as S
from pyvc.sym import Sym, Unsupported
from pyvc.tensor import Tensor, SymList
from pyvc import matalg as M

INV = "inference.gp.inversion"


class InvState:
    """y = A x + noise, noise ~ N(0, S); prior x ~ N(m, K).  Ghost kernel / mean under their C10 contracts."""

    def __init__(self, vc):
        self.vc = vc
        self.nd, self.np_ = vc.int("n_data", lo=1), vc.int("n_parameters", lo=1)
        self.nm, self.nc = vc.int("n_mean_pars", lo=1), vc.int("n_cov_pars", lo=1)
        nd, npar = self.nd, self.np_
        self.A = M.atom("A", nd, npar)
        self.y = M.atom("y", nd)
        self.Sg = M.atom("Sigma", nd, nd, symmetric=True)
        self.Si = M.inverse_of(self.Sg)
        self.K = M.atom("K", npar, npar, symmetric=True)
        self.m0 = M.atom("m0", npar)
        self.theta = vc.vector("theta", self.nm + self.nc)
        st = self

        class Cov:
            def get_attr(self, I, name):
                return getattr(self, name)

            def build_covariance(self, th):
                st.check("cov", th)
                return st.K

            def covariance_and_gradients(self, th):
                st.check("cov", th)
                return st.K.copy(), SymList(st.nc, lambda k: M.atom("dK", npar, npar, symmetric=True, params=(k,)))

        class Mean:
            def get_attr(self, I, name):
                return getattr(self, name)

            def build_mean(self, th):
                st.check("mean", th)
                return st.m0

            def mean_and_gradients(self, th):
                st.check("mean", th)
                return st.m0.copy(), SymList(st.nm, lambda k: M.atom("dm0", npar, params=(k,)))

        self.obj = vc.obj(INV, "GpLinearInverter", A=self.A, y=self.y, sigma=self.Sg, inv_sigma=self.Si, I=M.identity(npar),
                          cov=Cov(), mean=Mean(), n_hyperpars=self.nm + self.nc, mean_slice=slice(0, self.nm),
                          cov_slice=slice(self.nm, self.nm + self.nc))

    def check(self, which, th):
        lo, ln = (0, self.nm) if which == "mean" else (self.nm, self.nc)
        vc = self.vc
        from pyvc.tensor import dim_eq
        if not isinstance(th, Tensor) or th.ndim != 1 or not dim_eq(th.shape[0], ln):
            vc.ensures(f"{which}_hyperparameters_are_its_slice", False)
            return
        vc.ensures_forall(f"{which}_hyperparameters_are_its_slice", ln,
                          lambda k: S.cmp("==", th.at(k), self.theta.at(S.add(k, lo))))


@contract("C17", "posterior", native=False, replay_with="inversion_native")
def posterior(vc):
    """calculate_posterior: the covariance solves (I + K A^T S^-1 A) Sigma = K, i.e. Sigma = (K^-1 + A^T S^-1 A)^-1,
    and the mean is m + Sigma A^T S^-1 (y - A m): the conjugate linear-Gaussian posterior.  The mean-only path
    returns the same mean."""
    st = InvState(vc)
    mean, cov = vc.call(st.obj, "calculate_posterior", st.theta)
    W = st.A.T @ st.Si @ st.A
    X = M.identity(st.np_) + st.K @ W
    vc.ensures("covariance_solves_the_posterior_equation", M.mat_eq(X @ cov, st.K))
    u = st.A.T @ (st.Si @ (st.y - st.A @ st.m0))
    vc.ensures("mean_is_prior_mean_plus_gain_times_residual", M.mat_eq(mean, cov @ u + st.m0))
    mean2 = vc.call(st.obj, "calculate_posterior_mean", st.theta)
    vc.ensures("mean_only_path_agrees", M.mat_eq(mean2, mean))


def _ev_datom(st, k):
    def d(a, t):
        if a.name == "K" and k[0] == "cov":
            return M.atom("dK", st.np_, st.np_, symmetric=True, params=(k[1],))
        if a.name == "m0" and k[0] == "mean":
            return M.atom("dm0", st.np_, params=(k[1],))
        return None
    return d


def _evidence(st):
    J = st.A @ st.K @ st.A.T + st.Sg
    r = st.y - st.A @ st.m0
    Ji = M.inverse_of(J)
    return J, r, Ji, S.sub(S.mul(S.div(-1, 2), r @ (Ji @ r)), S.mul(S.div(1, 2), M.logdet_of(J)))


def _evidence_grad(st, k):
    J, r, Ji, _ = _evidence(st)
    d = _ev_datom(st, k)
    r2 = r[:, None]
    dquad = M.dmat(r2.T @ Ji @ r2, d).scalar()
    dJ = M.dmat(J, d)
    dlogdet = M.trace_of(Ji @ dJ) if dJ.nf else 0
    return S.sub(S.mul(S.div(-1, 2), dquad), S.mul(S.div(1, 2), dlogdet))


@contract("C17", "evidence", native=False, replay_with="inversion_native")
def evidence(vc):
    """marginal_likelihood = log N(y; A m, A K A^T + S) + n/2 log 2 pi"""
    st = InvState(vc)
    val = vc.call(st.obj, "marginal_likelihood", st.theta)
    vc.ensures("value_is_gaussian_log_density_of_the_data", S.cmp("==", val, _evidence(st)[3]))


@contract("C17", "evidence_gradient", native=False, replay_with="inversion_native")
def evidence_gradient(vc):
    st = InvState(vc)
    val, grad = vc.call(st.obj, "marginal_likelihood_gradient", st.theta)
    vc.ensures("value_is_gaussian_log_density_of_the_data", S.cmp("==", val, _evidence(st)[3]))
    vc.ensures("one_gradient_entry_per_hyperparameter", vc.ndim(grad) == 1 and S.cmp("==", grad.shape[0], st.nm + st.nc))
    vc.ensures_forall("mean_parameter_gradient_is_true_derivative", st.nm,
                      lambda k: S.cmp("==", grad.at(k), _evidence_grad(st, ("mean", S.z(k)))))
    vc.ensures_forall("covariance_parameter_gradient_is_true_derivative", st.nc,
                      lambda k: S.cmp("==", grad.at(S.add(k, st.nm)), _evidence_grad(st, ("cov", S.z(k)))))


@contract("C17", "constructor", native=False, replay_with="inversion_native")
def constructor(vc):
    """__init__: the data covariance is diag(y_err^2), inv_sigma is its inverse, I is the identity of the parameter
    space, and the hyper-parameter vector is laid out as [mean parameters, covariance parameters]"""
    nd, npar, d = vc.int("n_data", lo=1), vc.int("n_parameters", lo=1), vc.int("d", lo=1)
    nm, nc = vc.int("n_mean_pars", lo=1), vc.int("n_cov_pars", lo=1)
    y = vc.vector("y", nd)
    e = vc.vector("y_err", nd, pos=True)
    A = vc.matrix("A", nd, npar)
    pos = vc.matrix("positions", npar, d)

    class Part:
        def __init__(self, n):
            self.n_params, self.bounds, self.hyperpar_labels, self.got = n, [], [], None

        def get_attr(self, I, name):
            return getattr(self, name)

        def pass_spatial_data(self, x):
            self.got = x

    cov, mean = Part(nc), Part(nm)
    obj = vc.new(INV, "GpLinearInverter", y=y, y_err=e, model_matrix=A, parameter_spatial_positions=pos,
                 prior_covariance_function=cov, prior_mean_function=mean)
    sg, isg, I_ = vc.attr(obj, "sigma"), vc.attr(obj, "inv_sigma"), vc.attr(obj, "I")
    vc.ensures_forall("sigma_is_diagonal_of_squared_errors", (nd, nd),
                      lambda i, j: S.cmp("==", sg.at(i, j), S.ite(S.cmp("==", i, j), S.mul(e.at(i), e.at(i)), 0)))
    vc.ensures_forall("inv_sigma_is_its_inverse", (nd, nd),
                      lambda i, j: S.cmp("==", S.mul(isg.at(i, j), S.mul(e.at(i), e.at(i))), S.ite(S.cmp("==", i, j), 1, 0)))
    vc.ensures_forall("identity_of_parameter_space", (npar, npar),
                      lambda i, j: S.cmp("==", I_.at(i, j), S.ite(S.cmp("==", i, j), 1, 0)))
    ms, cs = vc.attr(obj, "mean_slice"), vc.attr(obj, "cov_slice")
    vc.ensures("layout_mean_then_covariance", S.And(S.cmp("==", ms.start, 0), S.cmp("==", ms.stop, nm),
                                                    S.cmp("==", cs.start, nm), S.cmp("==", cs.stop, nm + nc),
                                                    S.cmp("==", vc.attr(obj, "n_hyperpars"), nm + nc)))
    vc.ensures("kernel_and_mean_see_the_parameter_positions", cov.got is pos and mean.got is pos)
    vc.ensures("model_and_data_stored", vc.attr(obj, "A") is A and vc.attr(obj, "y") is y)
import contracts.matrix_laws  # noqa: F401  (numerical self-test of the matrix layer's axioms)


# The evidence gradient above is proved MODULARLY over the prior covariance / mean objects: it takes
# covariance_and_gradients() / mean_and_gradients() to return dK/dtheta_q and dm/dtheta_q.  Those callee contracts (written
# for C10) are therefore obligations of this property as well: a kernel whose reported derivative is wrong makes the
# reported evidence gradient wrong although no line of GpLinearInverter has changed.
from contracts import c10_covariance as _c10
for _n in ("squared_exponential", "rational_quadratic", "white_noise", "heteroscedastic_noise", "composite",
           "change_point_logistic", "change_point", "constant_mean", "linear_mean", "quadratic_mean"):
    contract("C17", "prior_" + _n, native=False, replay_with="inversion_native")(getattr(_c10, _n))
