"""C05 -- likelihood classes are the normalised densities they are named after."""
from pyvc.vc import contract

LIK = "inference.likelihoods"


def _setup(vc, clsname, scale_name):
    n = vc.int("n", lo=1, hi=5)
    m = vc.int("m", lo=1, hi=3)
    y = vc.vector("y", n, sample=lambda r: r.uniform(-5, 5) * 10 ** r.choice([0, 0, 1, 3]))
    sc = vc.vector(scale_name, n, pos=True, sample=lambda r: 10 ** r.uniform(-3, 3))
    F = vc.vector("F", n, sample=lambda r: r.uniform(-5, 5) * 10 ** r.choice([0, 0, 1, 3]))   # model prediction at theta (arbitrary)
    J = vc.matrix("J", n, m)           # its Jacobian at theta (arbitrary)
    theta = vc.vector("theta", m)
    # the forward model is an arbitrary function of theta: `cur` holds its value / Jacobian at the point being evaluated
    cur = {"F": F, "J": J}
    model = vc.ghost("forward_model", lambda th: cur["F"])
    jac = vc.ghost("forward_model_jacobian", lambda th: cur["J"])
    L = vc.new(LIK, clsname, y, sc, model, forward_model_jacobian=jac)
    _CUR[id(vc)] = cur
    return n, m, y, sc, F, J, theta, L


_CUR = {}


def _common(vc, L, theta, n, m, J, mk, F):
    vc.tol(rtol=1e-9, atol=1e-9)
    logf, dlogf_dF = mk(F)
    val = vc.call(L, "__call__", theta)
    spec = vc.sum(n, logf)
    vc.ensures("value", vc.eq(val, spec))
    grad = vc.call(L, "gradient", theta)
    # route 1: chain rule with the analytic d(log f)/dF written in the contract
    vc.ensures_forall("gradient", m, lambda j: vc.eq(grad[j], vc.sum(n, lambda i: dlogf_dF(i) * J[i, j]),
                                                    scale=_gs(vc, n, dlogf_dF, J, j)))
    # route 2 (proof mode): the differentiator applied to the term the real value function returned
    if vc.mode == "sym":
        import z3
        from pyvc.sym import Sym, ctx

        def route2(j):
            def dleaf(e):
                if e.decl().name() == "F":
                    return J[Sym(e.arg(0)), j].e
                return None
            return vc.eq(grad[j], vc.deriv(val, dleaf))
        vc.ensures_forall("gradient_is_derivative_of_value", m, route2)
    cost = vc.call(L, "cost", theta)
    vc.ensures("cost_neg", vc.eq(cost, -val))
    cg = vc.call(L, "cost_gradient", theta)
    vc.ensures_forall("cost_gradient_neg", m, lambda j: vc.eq(cg[j], -grad[j]))
    # the results are functions of the VALUES passed only: the caller now changes the same parameter array in place (what an
    # optimiser or sampler working on a state buffer does); the model takes new, arbitrary values F2 / J2 at the new point
    F2 = vc.vector("F2", n, sample=lambda r: r.uniform(-5, 5) * 10 ** r.choice([0, 0, 1, 3]))
    J2 = vc.matrix("J2", n, m)
    step = vc.real("step", pos=True)
    cur = _CUR.pop(id(vc))
    cur["F"], cur["J"] = F2, J2
    vc.setitem(theta, 0, theta[0] + step)
    logf2, dlogf2 = mk(F2)
    val2 = vc.call(L, "__call__", theta)
    vc.ensures("value_after_in_place_update_of_theta", vc.eq(val2, vc.sum(n, logf2)))
    grad2 = vc.call(L, "gradient", theta)
    vc.ensures_forall("gradient_after_in_place_update_of_theta", m, lambda j: vc.eq(
        grad2[j], vc.sum(n, lambda i: dlogf2(i) * J2[i, j]), scale=_gs(vc, n, dlogf2, J2, j)))
    vc.ensures("cost_after_in_place_update_of_theta", vc.eq(vc.call(L, "cost", theta), -val2))


def _gs(vc, n, d, J, j):
    if vc.mode != "native":
        return None
    return sum(abs(d(i) * J[i, j]) for i in range(n)) + 1e-300


@contract("C05", "gaussian")
def gaussian(vc):
    n, m, y, s, F, J, theta, L = _setup(vc, "GaussianLikelihood", "sigma")
    def mk(F):
        logf = lambda i: -0.5 * ((y[i] - F[i]) / s[i]) ** 2 - vc.log(s[i]) - 0.5 * vc.log(2 * vc.pi)
        dlogf = lambda i: (y[i] - F[i]) / (s[i] * s[i])
        return logf, dlogf
    _common(vc, L, theta, n, m, J, mk, F)


@contract("C05", "cauchy")
def cauchy(vc):
    n, m, y, g, F, J, theta, L = _setup(vc, "CauchyLikelihood", "gamma")
    def mk(F):
        z = lambda i: (y[i] - F[i]) / g[i]
        logf = lambda i: -vc.log(1 + z(i) ** 2) - vc.log(vc.pi * g[i])
        dlogf = lambda i: 2 * z(i) / (g[i] * (1 + z(i) ** 2))
        return logf, dlogf
    _common(vc, L, theta, n, m, J, mk, F)


@contract("C05", "logistic")
def logistic(vc):
    n, m, y, s, F, J, theta, L = _setup(vc, "LogisticLikelihood", "sigma")
    # logistic scale with standard deviation sigma: sd = scale*pi/sqrt(3)
    sc = lambda i: s[i] * vc.sqrt(3) / vc.pi

    def mk(F):
        z = lambda i: (y[i] - F[i]) / sc(i)
        # log f = -z - 2 log(1 + exp(-z)) - log(scale)   (= z - 2 log(1+exp(z)) - log(scale))
        logf = lambda i: z(i) - 2 * vc.log1pexp(z(i)) - vc.log(sc(i))
        dlogf = lambda i: (2 / (1 + vc.exp(-z(i))) - 1) / sc(i)
        return logf, dlogf
    _common(vc, L, theta, n, m, J, mk, F)


def _data_fixed(vc, clsname, scale_name, mk_logf):
    """the likelihood is that of the data GIVEN to the constructor: the caller changing its own y / uncertainty arrays in place
    afterwards (the next data set read into the same buffers) leaves value and gradient those of the original data"""
    n, m, y, sc, F, J, theta, L = _setup(vc, clsname, scale_name)
    _CUR.pop(id(vc), None)
    vc.tol(rtol=1e-9, atol=1e-9)
    y0, sc0 = y.copy(), sc.copy()
    dy = vc.real("dy", pos=True)
    k = vc.real("k", pos=True)
    vc.setitem(y, 0, y[0] + dy)
    vc.setitem(sc, 0, sc[0] * (1 + k))
    logf, dlogf = mk_logf(y0, sc0, F)
    val = vc.call(L, "__call__", theta)
    vc.ensures("value_is_that_of_the_data_given_at_construction", vc.eq(val, vc.sum(n, logf)))
    grad = vc.call(L, "gradient", theta)
    vc.ensures_forall("gradient_is_that_of_the_data_given_at_construction", m, lambda j: vc.eq(
        grad[j], vc.sum(n, lambda i: dlogf(i) * J[i, j]), scale=_gs(vc, n, dlogf, J, j)))


@contract("C05", "gaussian_data_fixed_at_construction")
def gaussian_data_fixed(vc):
    def mk(y, s, F):
        return (lambda i: -0.5 * ((y[i] - F[i]) / s[i]) ** 2 - vc.log(s[i]) - 0.5 * vc.log(2 * vc.pi),
                lambda i: (y[i] - F[i]) / (s[i] * s[i]))
    _data_fixed(vc, "GaussianLikelihood", "sigma", mk)


@contract("C05", "cauchy_data_fixed_at_construction")
def cauchy_data_fixed(vc):
    def mk(y, g, F):
        z = lambda i: (y[i] - F[i]) / g[i]
        return (lambda i: -vc.log(1 + z(i) ** 2) - vc.log(vc.pi * g[i]), lambda i: 2 * z(i) / (g[i] * (1 + z(i) ** 2)))
    _data_fixed(vc, "CauchyLikelihood", "gamma", mk)


@contract("C05", "logistic_data_fixed_at_construction")
def logistic_data_fixed(vc):
    def mk(y, s, F):
        sc = lambda i: s[i] * vc.sqrt(3) / vc.pi
        z = lambda i: (y[i] - F[i]) / sc(i)
        return (lambda i: z(i) - 2 * vc.log1pexp(z(i)) - vc.log(sc(i)), lambda i: (2 / (1 + vc.exp(-z(i))) - 1) / sc(i))
    _data_fixed(vc, "LogisticLikelihood", "sigma", mk)


# ---- bounded layer: many data points, small / large uncertainties (products and sums that leave double range) ----------
from pyvc.vc import bounded


@bounded("C05", "large_data_native", native_runs=12)
def large_data_native(vc):
    """value / cost / gradient against the per-point sum of the named log-densities (math.fsum) for data sets of up to
    several thousand points with uncertainties from 1e-3 to 1e3 (and 1e-200 .. 1e200: any scale): every quantity must stay finite and exact"""
    import math
    import numpy as np
    from inference.likelihoods import GaussianLikelihood, CauchyLikelihood, LogisticLikelihood
    seed = vc.int("seed", lo=0, hi=10 ** 6)
    rng = np.random.default_rng(seed)
    which = vc.choice("likelihood", ["gaussian", "cauchy", "logistic"])
    n = vc.choice("n", [1, 40, 800, 4000])
    for log_scale in (-3, -1.3, 0, 1.3, 3, -100, 100, -200, 200):
        _one_scale(vc, rng, which, n, log_scale)


def _one_scale(vc, rng, which, n, log_scale):
    import math
    import numpy as np
    from inference.likelihoods import GaussianLikelihood, CauchyLikelihood, LogisticLikelihood
    s = 10.0 ** (log_scale + rng.uniform(-0.2, 0.2, size=n))
    x = np.linspace(0, 1, n) if n > 1 else np.array([0.5])
    theta = rng.normal(size=2) * 10.0 ** log_scale          # (model values of the size of the uncertainties: residuals of a few sigma)
    model = lambda th: th[0] + th[1] * x
    jac = lambda th: np.stack([np.ones(n), x], axis=1)
    y = model(theta) + s * rng.standard_t(3, size=n)
    cls = {"gaussian": GaussianLikelihood, "cauchy": CauchyLikelihood, "logistic": LogisticLikelihood}[which]
    with np.errstate(all="ignore"):
        L = cls(y, s, model, forward_model_jacobian=jac)
        val, cost, grad = L(theta), L.cost(theta), L.gradient(theta)
    # the object is the likelihood of the data it was GIVEN: the caller re-filling its own buffers afterwards (the next data
    # set read into the same arrays) does not change it
    y_given, s_given = y.copy(), s.copy()
    with np.errstate(all="ignore"):
        L2 = cls(y, s, model, forward_model_jacobian=jac)
        y += 3.0 * s
        s *= 2.0
        val2, grad2 = L2(theta), L2.gradient(theta)
    y, s = y_given, s_given
    vc.ensures("data_are_those_given_at_construction", float(val2) == float(val) and bool(np.array_equal(grad2, grad)))
    r = y - model(theta)
    if which == "gaussian":
        terms = [-0.5 * (ri / si) ** 2 - math.log(si) - 0.5 * math.log(2 * math.pi) for ri, si in zip(r, s)]
        dl = (r / s) / s
    elif which == "cauchy":
        terms = [-math.log1p((ri / gi) ** 2) - math.log(math.pi * gi) for ri, gi in zip(r, s)]
        dl = 2 * (r / s) / (s * (1 + (r / s) ** 2))
    else:
        sc = s * math.sqrt(3) / math.pi
        terms = [-(abs(ri / ci)) - 2 * math.log1p(math.exp(-abs(ri / ci))) - math.log(ci) for ri, ci in zip(r, sc)]
        dl = np.tanh(0.5 * r / sc) / sc
    want = math.fsum(terms)
    gwant = np.array([math.fsum(dl), math.fsum(dl * x)])
    vc.inputs["value"], vc.inputs["expected"] = float(val), float(want)
    vc.ensures("value_is_finite_sum_of_named_log_densities", math.isfinite(float(val)) and abs(float(val) - want) <= 1e-9 * max(1.0, abs(want)))
    vc.ensures("cost_is_exact_negative", float(cost) == -float(val))
    vc.ensures("gradient_is_sum_of_per_point_terms", bool(np.all(np.isfinite(grad)))
               and bool(np.allclose(grad, gwant, rtol=1e-8, atol=1e-8 * float(np.abs(dl).sum()) + 1e-300)))
