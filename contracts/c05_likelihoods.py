"""C05 -- likelihood classes are the normalised densities they are named after."""
from pyvc.vc import contract

LIK = "inference.likelihoods"


def _setup(vc, clsname, scale_name):
    n = vc.int("n", lo=1, hi=5)
    m = vc.int("m", lo=1, hi=3)
    y = vc.vector("y", n, sample=lambda r: r.uniform(-5, 5) * 10 ** r.choice([0, 0, 1, 3]))
    sc = vc.vector(scale_name, n, pos=True, sample=lambda r: 10 ** r.uniform(-3, 3))
    F = vc.vector("F", n, sample=lambda r: r.uniform(-5, 5) * 10 ** r.choice([0, 0, 1, 3]))   # model prediction at theta (arbitrary)
    J = vc.matrix("J", n, m)           # its Jacobian at theta (arbitrary)
    theta = vc.vector("theta", m)
    model = vc.ghost("forward_model", lambda th: F)
    jac = vc.ghost("forward_model_jacobian", lambda th: J)
    L = vc.new(LIK, clsname, y, sc, model, forward_model_jacobian=jac)
    return n, m, y, sc, F, J, theta, L


def _common(vc, L, theta, n, m, J, logf, dlogf_dF, F):
    vc.tol(rtol=1e-9, atol=1e-9)
    val = vc.call(L, "__call__", theta)
    spec = vc.sum(n, logf)
    vc.ensures("value", vc.eq(val, spec))
    grad = vc.call(L, "gradient", theta)
    # route 1: chain rule with the analytic d(log f)/dF written in the contract
    vc.ensures_forall("gradient", m, lambda j: vc.eq(grad[j], vc.sum(n, lambda i: dlogf_dF(i) * J[i, j]),
                                                    scale=_gs(vc, n, dlogf_dF, J, j)))
    # route 2 (proof mode): the differentiator applied to the term the real value function returned
    if vc.mode == "sym":
        import z3
        from pyvc.sym import Sym, ctx

        def route2(j):
            def dleaf(e):
                if e.decl().name() == "F":
                    return J[Sym(e.arg(0)), j].e
                return None
            return vc.eq(grad[j], vc.deriv(val, dleaf))
        vc.ensures_forall("gradient_is_derivative_of_value", m, route2)
    cost = vc.call(L, "cost", theta)
    vc.ensures("cost_neg", vc.eq(cost, -val))
    cg = vc.call(L, "cost_gradient", theta)
    vc.ensures_forall("cost_gradient_neg", m, lambda j: vc.eq(cg[j], -grad[j]))


def _gs(vc, n, d, J, j):
    if vc.mode != "native":
        return None
    return sum(abs(d(i) * J[i, j]) for i in range(n)) + 1e-300


@contract("C05", "gaussian")
def gaussian(vc):
    n, m, y, s, F, J, theta, L = _setup(vc, "GaussianLikelihood", "sigma")
    logf = lambda i: -0.5 * ((y[i] - F[i]) / s[i]) ** 2 - vc.log(s[i]) - 0.5 * vc.log(2 * vc.pi)
    dlogf = lambda i: (y[i] - F[i]) / (s[i] * s[i])
    _common(vc, L, theta, n, m, J, logf, dlogf, F)


@contract("C05", "cauchy")
def cauchy(vc):
    n, m, y, g, F, J, theta, L = _setup(vc, "CauchyLikelihood", "gamma")
    z = lambda i: (y[i] - F[i]) / g[i]
    logf = lambda i: -vc.log(1 + z(i) ** 2) - vc.log(vc.pi * g[i])
    dlogf = lambda i: 2 * z(i) / (g[i] * (1 + z(i) ** 2))
    _common(vc, L, theta, n, m, J, logf, dlogf, F)


@contract("C05", "logistic")
def logistic(vc):
    n, m, y, s, F, J, theta, L = _setup(vc, "LogisticLikelihood", "sigma")
    # logistic scale with standard deviation sigma: sd = scale*pi/sqrt(3)
    sc = lambda i: s[i] * vc.sqrt(3) / vc.pi
    z = lambda i: (y[i] - F[i]) / sc(i)
    # log f = -z - 2 log(1 + exp(-z)) - log(scale)   (= z - 2 log(1+exp(z)) - log(scale))
    logf = lambda i: z(i) - 2 * vc.log1pexp(z(i)) - vc.log(sc(i))
    dlogf = lambda i: (2 / (1 + vc.exp(-z(i))) - 1) / sc(i)
    _common(vc, L, theta, n, m, J, logf, dlogf, F)
