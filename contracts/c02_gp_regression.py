"""C02 -- GP regression returns the exact Gaussian-process posterior."""
import numpy as np
from pyvc.vc import contract, bounded


@bounded("C02", "posterior_native", native_runs=40)
def posterior_native(vc):
    from inference.gp import GpRegressor
    from contracts.gp_common import random_problem, hyperpars_for, closed_form
    seed = vc.int("seed", lo=0, hi=10 ** 6)
    rng = np.random.default_rng(seed)
    pb = random_problem(rng)
    n, d, x, y = pb["n"], pb["d"], pb["x"], pb["y"]
    mode = vc.choice("noise", ["y_err", "y_cov", "none", "y_err_list", "y_cov_list"])
    if pb["kname"] in ("SE", "RQ", "RQ+SE", "CP", "CP3", "CP4") and mode == "none" and n > 1:
        mode = "y_err"
    kw = {}
    if mode == "y_err":
        kw["y_err"] = pb["y_err"]
    elif mode == "y_cov":
        kw["y_cov"] = np.diag(pb["y_err"] ** 2)
    elif mode == "y_err_list":
        kw["y_err"] = [float(v) for v in pb["y_err"]]
    elif mode == "y_cov_list":
        kw["y_cov"] = [[float(v) for v in row] for row in np.diag(pb["y_err"] ** 2)]
    K, M = pb["kernel"], pb["mean"]
    K.pass_spatial_data(x)
    M.pass_spatial_data(x)
    labels = list(M.hyperpar_labels) + list(K.hyperpar_labels)
    theta = hyperpars_for(labels, rng, x)
    x_in = x[:, 0] if (d == 1 and seed % 2) else x            # 1-D data may be given as a flat array
    try:
        gp = GpRegressor(x_in, y, kernel=K, mean=M, hyperpars=theta, **kw)
    except Exception as e:
        vc.inputs["error"] = f"{type(e).__name__}: {e}"[:200]
        vc.ensures("accepts_documented_inputs", False)
        return
    m = int(rng.integers(1, 6))
    q = rng.normal(size=(m, d)) * 1.5 + x.mean(axis=0)
    mu_c, cov_c = closed_form(gp, q)
    scale = max(1.0, float(np.abs(cov_c).max()), float(np.abs(mu_c).max()))
    mu_p, sd_p = gp(q)
    mu_j, cov_j = gp.build_posterior(q)
    mu_o = gp.build_posterior(q, mean_only=True)
    tol = 1e-6 * scale
    vc.ensures("pointwise_mean_is_closed_form", bool(np.allclose(mu_p, mu_c, rtol=1e-7, atol=tol)))
    vc.ensures("pointwise_variance_is_closed_form", bool(np.allclose(sd_p ** 2, np.abs(np.diag(cov_c)), rtol=1e-6, atol=tol)))
    vc.ensures("joint_mean_and_covariance_are_closed_form", bool(np.allclose(mu_j, mu_c, rtol=1e-7, atol=tol)
                                                               and np.allclose(cov_j, cov_c, rtol=1e-6, atol=tol)))
    vc.ensures("mean_only_agrees", bool(np.allclose(mu_o, mu_j, rtol=1e-12, atol=1e-12 * scale)))
    prior_var = np.diag(gp.cov(q, q, gp.cov_hyperpars))
    vc.ensures("variance_between_zero_and_prior", bool(np.all(np.diag(cov_c) >= -1e-8 * scale)
                                                       and np.all(sd_p ** 2 <= prior_var + 1e-8 * scale)))
    # order of the training points does not matter (skip kernels with one hyper-parameter per point)
    if "HN" not in pb["kname"] and n > 1:
        perm = rng.permutation(n)
        kw2 = {}
        if "y_err" in kw:
            kw2["y_err"] = np.asarray(kw["y_err"])[perm]
        if "y_cov" in kw:
            kw2["y_cov"] = np.asarray(kw["y_cov"])[np.ix_(perm, perm)]
        import copy
        K2, M2 = copy.deepcopy(K), copy.deepcopy(M)
        gp2 = GpRegressor(x[perm], y[perm], kernel=K2, mean=M2, hyperpars=theta, **kw2)
        mu2, sd2 = gp2(q)
        if type(M).__name__ == "ConstantMean":      # the other means centre on the data mean: also invariant
            pass
        vc.ensures("independent_of_training_order", bool(np.allclose(mu2, mu_p, rtol=1e-6, atol=1e-6 * scale)
                                                         and np.allclose(sd2, sd_p, rtol=1e-5, atol=1e-6 * scale)))
    # standard deviations and the equivalent diagonal covariance give the same state
    if mode in ("y_err", "y_err_list"):
        import copy
        gp3 = GpRegressor(x, y, kernel=copy.deepcopy(K), mean=copy.deepcopy(M), hyperpars=theta,
                          y_cov=np.diag(np.asarray(pb["y_err"]) ** 2))
        mu3, sd3 = gp3(q)
        vc.ensures("y_err_equals_diagonal_y_cov", bool(np.array_equal(gp3.sig, gp.sig) and np.allclose(mu3, mu_p) and np.allclose(sd3, sd_p)))
