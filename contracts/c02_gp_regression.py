"""C02 -- GP regression returns the exact Gaussian-process posterior."""
import numpy as np
from pyvc.vc import contract, bounded


@bounded("C02", "posterior_native", native_runs=40)
def posterior_native(vc):
    from inference.gp import GpRegressor
    from contracts.gp_common import random_problem, hyperpars_for, closed_form
    seed = vc.int("seed", lo=0, hi=10 ** 6)
    rng = np.random.default_rng(seed)
    pb = random_problem(rng)
    n, d, x, y = pb["n"], pb["d"], pb["x"], pb["y"]
    mode = vc.choice("noise", ["y_err", "y_cov", "none", "y_err_list", "y_cov_list"])
    if pb["kname"] in ("SE", "RQ", "RQ+SE", "CP", "CP3", "CP4") and mode == "none" and n > 1:
        mode = "y_err"
    kw = {}
    if mode == "y_err":
        kw["y_err"] = pb["y_err"]
    elif mode == "y_cov":
        kw["y_cov"] = np.diag(pb["y_err"] ** 2)
    elif mode == "y_err_list":
        kw["y_err"] = [float(v) for v in pb["y_err"]]
    elif mode == "y_cov_list":
        kw["y_cov"] = [[float(v) for v in row] for row in np.diag(pb["y_err"] ** 2)]
    K, M = pb["kernel"], pb["mean"]
    K.pass_spatial_data(x)
    M.pass_spatial_data(x)
    labels = list(M.hyperpar_labels) + list(K.hyperpar_labels)
    theta = hyperpars_for(labels, rng, x)
    x_in = x[:, 0] if (d == 1 and seed % 2) else x            # 1-D data may be given as a flat array
    try:
        gp = GpRegressor(x_in, y, kernel=K, mean=M, hyperpars=theta, **kw)
    except Exception as e:
        vc.inputs["error"] = f"{type(e).__name__}: {e}"[:200]
        vc.ensures("accepts_documented_inputs", False)
        return
    m = int(rng.integers(1, 6))
    q = rng.normal(size=(m, d)) * 1.5 + x.mean(axis=0)
    mu_c, cov_c = closed_form(gp, q)
    scale = max(1.0, float(np.abs(cov_c).max()), float(np.abs(mu_c).max()))
    mu_p, sd_p = gp(q)
    mu_j, cov_j = gp.build_posterior(q)
    mu_o = gp.build_posterior(q, mean_only=True)
    tol = 1e-6 * scale
    vc.ensures("pointwise_mean_is_closed_form", bool(np.allclose(mu_p, mu_c, rtol=1e-7, atol=tol)))
    vc.ensures("pointwise_variance_is_closed_form", bool(np.allclose(sd_p ** 2, np.abs(np.diag(cov_c)), rtol=1e-6, atol=tol)))
    vc.ensures("joint_mean_and_covariance_are_closed_form", bool(np.allclose(mu_j, mu_c, rtol=1e-7, atol=tol)
                                                               and np.allclose(cov_j, cov_c, rtol=1e-6, atol=tol)))
    vc.ensures("mean_only_agrees", bool(np.allclose(mu_o, mu_j, rtol=1e-12, atol=1e-12 * scale)))
    prior_var = np.diag(gp.cov(q, q, gp.cov_hyperpars))
    vc.ensures("variance_between_zero_and_prior", bool(np.all(np.diag(cov_c) >= -1e-8 * scale)
                                                       and np.all(sd_p ** 2 <= prior_var + 1e-8 * scale)))
    # "any query points": the training inputs themselves are query points like any other (the posterior there is NOT the data
    # when there is noise), given as the same values, the same array object, or a reordering of it
    for q_t in (np.array(x, dtype=float), x, x[::-1].copy()):
        mu_tc, cov_tc = closed_form(gp, np.asarray(q_t, dtype=float))
        sc_t = max(1.0, float(np.abs(cov_tc).max()), float(np.abs(mu_tc).max()))
        mu_tj, cov_tj = gp.build_posterior(q_t)
        mu_to = gp.build_posterior(q_t, mean_only=True)
        mu_tp, sd_tp = gp(q_t)
        vc.ensures("posterior_at_the_training_inputs_is_closed_form", bool(
            np.allclose(mu_tj, mu_tc, rtol=1e-7, atol=1e-6 * sc_t) and np.allclose(cov_tj, cov_tc, rtol=1e-6, atol=1e-6 * sc_t)
            and np.allclose(mu_to, mu_tc, rtol=1e-7, atol=1e-6 * sc_t) and np.allclose(mu_tp, mu_tc, rtol=1e-7, atol=1e-6 * sc_t)
            and np.allclose(sd_tp ** 2, np.abs(np.diag(cov_tc)), rtol=1e-6, atol=1e-6 * sc_t)))
    # the state depends on the VALUES of the hyper-parameters only: the caller re-uses one array object, changing its contents in
    # place between set_hyperparameters calls (what an optimiser working on one parameter buffer does)
    work = np.array(theta, dtype=float) + 0.05 * rng.normal(size=len(theta))
    gp.set_hyperparameters(work)
    work += 0.15 * rng.normal(size=work.size)
    gp.set_hyperparameters(work)
    mu_w, cov_w = closed_form(gp, q)
    mu_a, sd_a = gp(q)
    mu_b, cov_b = gp.build_posterior(q)
    sc_w = max(1.0, float(np.abs(cov_w).max()), float(np.abs(mu_w).max()))
    vc.ensures("state_follows_an_array_updated_in_place", bool(
        np.array_equal(np.asarray(gp.hyperpars), work)
        and np.allclose(mu_a, mu_w, rtol=1e-7, atol=1e-6 * sc_w) and np.allclose(sd_a ** 2, np.abs(np.diag(cov_w)), rtol=1e-6, atol=1e-6 * sc_w)
        and np.allclose(mu_b, mu_w, rtol=1e-7, atol=1e-6 * sc_w) and np.allclose(cov_b, cov_w, rtol=1e-6, atol=1e-6 * sc_w)))
    gp.set_hyperparameters(np.array(theta, dtype=float))
    # order of the training points does not matter (skip kernels with one hyper-parameter per point)
    if "HN" not in pb["kname"] and n > 1:
        perm = rng.permutation(n)
        kw2 = {}
        if "y_err" in kw:
            kw2["y_err"] = np.asarray(kw["y_err"])[perm]
        if "y_cov" in kw:
            kw2["y_cov"] = np.asarray(kw["y_cov"])[np.ix_(perm, perm)]
        import copy
        K2, M2 = copy.deepcopy(K), copy.deepcopy(M)
        gp2 = GpRegressor(x[perm], y[perm], kernel=K2, mean=M2, hyperpars=theta, **kw2)
        mu2, sd2 = gp2(q)
        if type(M).__name__ == "ConstantMean":      # the other means centre on the data mean: also invariant
            pass
        vc.ensures("independent_of_training_order", bool(np.allclose(mu2, mu_p, rtol=1e-6, atol=1e-6 * scale)
                                                         and np.allclose(sd2, sd_p, rtol=1e-5, atol=1e-6 * scale)))
    # standard deviations and the equivalent diagonal covariance give the same state
    if mode in ("y_err", "y_err_list"):
        import copy
        gp3 = GpRegressor(x, y, kernel=copy.deepcopy(K), mean=copy.deepcopy(M), hyperpars=theta,
                          y_cov=np.diag(np.asarray(pb["y_err"]) ** 2))
        mu3, sd3 = gp3(q)
        vc.ensures("y_err_equals_diagonal_y_cov", bool(np.array_equal(gp3.sig, gp.sig) and np.allclose(mu3, mu_p) and np.allclose(sd3, sd_p)))


# ================================================================================================
# proof layer: the real set_hyperparameters / __call__ / build_posterior / check_error_data bodies over
# abstract matrices (pyvc.matalg); kernels and means are ghost objects under their C10 contracts
# ================================================================================================
import ast
from pyvc import sym as S
from pyvc.sym import Sym, Unsupported
from pyvc.tensor import Tensor, SymList
from pyvc.loops import LoopSpec
from pyvc import matalg as M

REG = "inference.gp.regression"


@contract("C02", "set_hyperparameters", native=False, replay_with="posterior_native")
def set_hyperparameters(vc):
    """after set_hyperparameters(theta): L is the Cholesky factor of K(theta_cov) + sig and alpha = (K + sig)^-1 (y - m)"""
    from contracts.gp_matrix import GpState
    st = GpState(vc)
    gp = st.regressor(fitted=False)
    vc.call(gp, "set_hyperparameters", st.theta)
    vc.ensures("covariance_is_kernel_plus_noise", M.mat_eq(vc.attr(gp, "K_xx"), st.C))
    vc.ensures("factor_is_cholesky_of_kernel_plus_noise", M.mat_eq(vc.attr(gp, "L"), M.cholesky(st.C)))
    vc.ensures("weights_solve_the_normal_equations", M.mat_eq(vc.attr(gp, "alpha"), st.Ci @ st.r))
    vc.ensures("mean_vector_is_the_mean_function", M.mat_eq(vc.attr(gp, "mu"), st.mu))


@contract("C02", "set_hyperparameters_again", native=False, replay_with="posterior_native")
def set_hyperparameters_again(vc):
    """the same on a regressor that was configured before with the SAME array object, whose contents the caller has changed in
    place since (what an optimiser working on one parameter buffer does): every stored matrix is stale and must be rebuilt from the
    values now in the array"""
    from contracts.gp_matrix import GpState
    st = GpState(vc)
    n = st.n
    gp = st.regressor(fitted=False, hyperpars=st.theta, mean_hyperpars=st.theta[st.mean_slice], cov_hyperpars=st.theta[st.cov_slice],
                      K_xx=M.atom("K_stale", n, n, symmetric=True), L=M.atom("L_stale", n, n), alpha=M.atom("alpha_stale", n),
                      mu=M.atom("mu_stale", n))
    vc.call(gp, "set_hyperparameters", st.theta)
    vc.ensures("covariance_is_kernel_plus_noise", M.mat_eq(vc.attr(gp, "K_xx"), st.C))
    vc.ensures("factor_is_cholesky_of_kernel_plus_noise", M.mat_eq(vc.attr(gp, "L"), M.cholesky(st.C)))
    vc.ensures("weights_solve_the_normal_equations", M.mat_eq(vc.attr(gp, "alpha"), st.Ci @ st.r))
    vc.ensures("mean_vector_is_the_mean_function", M.mat_eq(vc.attr(gp, "mu"), st.mu))


def _list_roles(func):
    """the two result lists of a per-point loop: (the one fed with alpha, the other one)"""
    loop = [n for n in ast.walk(func.node) if isinstance(n, ast.For)][0]
    apps = []
    for n in ast.walk(loop):
        if isinstance(n, ast.Call) and isinstance(n.func, ast.Attribute) and n.func.attr == "append" \
                and isinstance(n.func.value, ast.Name):
            apps.append(n.func.value.id)
    if len(apps) != 2:
        raise Unsupported("per-point loop: expected two result lists")
    return apps


from contracts.gp_matrix import MapLoop as PerPoint, same_value as _same


@contract("C02", "pointwise_prediction", native=False, replay_with="posterior_native")
def pointwise_prediction(vc):
    """__call__: for every query point t the returned mean is m(p_t) + K_tx (K+S)^-1 (y-m) and the returned standard
    deviation is sqrt|K_tt - K_tx (K+S)^-1 K_xt|"""
    from contracts.gp_matrix import GpState
    st = GpState(vc)
    gp = st.regressor()
    pm, pc = st.post_mean(), st.post_cov()
    func = vc.I.get_function(REG, "GpRegressor.__call__")
    names = _list_roles(func)
    exp_mu = lambda t: pm.at(t)
    exp_var = lambda t: pc.at(t, t)
    vc.loop("GpRegressor.__call__", "for#0", PerPoint(vc, st, names, exp_mu, exp_var))
    mu, sd = vc.call(gp, "__call__", st.points)
    vc.ensures("returns_one_value_per_point", vc.ndim(mu) == 1 and vc.ndim(sd) == 1)
    vc.ensures_forall("mean_is_closed_form", st.m, lambda t: S.cmp("==", mu.at(t), pm.at(t)))
    vc.ensures_forall("std_is_root_of_closed_form_variance", st.m,
                      lambda t: S.cmp("==", sd.at(t), vc.sqrt(vc.abs(pc.at(t, t)))))
    # the variance never exceeds the prior variance: K_tx C^-1 K_xt is a quadratic form of a positive-definite inverse
    # (assumed fact of the layer: w^T C^-1 w >= 0), so K_tt - (.) <= K_tt
    t = vc.index("t", st.m)
    quad = (st.Kqx @ st.Ci @ st.Kqx.T).at(t, t)
    vc.assume_lemma("w^T C^-1 w >= 0 for the inverse of a positive-definite matrix C", S.cmp(">=", quad, 0))
    vc.ensures("variance_at_most_prior_variance", S.cmp("<=", pc.at(t, t), st.Kqq.at(t, t)))


@contract("C02", "joint_posterior", native=False, replay_with="posterior_native")
def joint_posterior(vc):
    """build_posterior: mean vector and covariance matrix are the closed form; mean_only returns the same mean"""
    from contracts.gp_matrix import GpState
    st = GpState(vc)
    gp = st.regressor()
    pm, pc = st.post_mean(), st.post_cov()
    mean_only = vc.choice("mean_only", [False, True])
    res = vc.call(gp, "build_posterior", st.points, mean_only=mean_only)
    mu = res if mean_only else res[0]
    vc.ensures("mean_is_one_value_per_point", vc.ndim(mu) == 1)
    vc.ensures_forall("mean_is_closed_form", st.m, lambda t: S.cmp("==", mu.at(t), pm.at(t)))
    if not mean_only:
        vc.ensures("covariance_is_closed_form", M.mat_eq(res[1], pc))
        vc.ensures_forall("covariance_is_symmetric", (st.m, st.m), lambda a, b: S.cmp("==", res[1].at(a, b), res[1].at(b, a)))


@contract("C02", "noise_specification", native=False, replay_with="posterior_native")
def noise_specification(vc):
    """check_error_data: standard deviations give diag(y_err^2); a covariance matrix is used as given; nothing gives zeros"""
    n = vc.int("n", lo=1)
    mode = vc.choice("given", ["y_err", "y_cov", "none"])
    gp = vc.obj(REG, "GpRegressor", n_points=n)
    if mode == "y_err":
        e = vc.vector("y_err", n)
        sig = vc.call(gp, "check_error_data", e, None)
        vc.ensures_forall("diagonal_of_squared_errors", (n, n),
                          lambda i, j: S.cmp("==", sig.at(i, j), S.ite(S.cmp("==", i, j), S.mul(e.at(i), e.at(i)), 0)))
    elif mode == "y_cov":
        cv = vc.matrix("y_cov", n, n)
        vc.assume_forall((n, n), lambda i, j: S.cmp("==", cv.at(i, j), cv.at(j, i)))
        with vc.raising_allowed():
            sig = vc.call(gp, "check_error_data", None, cv)
        vc.ensures_forall("covariance_used_as_given", (n, n), lambda i, j: S.cmp("==", sig.at(i, j), cv.at(i, j)))
    else:
        sig = vc.call(gp, "check_error_data", None, None)
        vc.ensures_forall("no_noise_is_zero_matrix", (n, n), lambda i, j: S.cmp("==", sig.at(i, j), 0))
import contracts.matrix_laws  # noqa: F401  (numerical self-test of the matrix layer's axioms)
