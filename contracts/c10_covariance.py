"""C10 -- covariance and mean functions are valid and their gradients are exact."""
import z3
from pyvc.vc import contract, bounded
from pyvc import sym as S
from pyvc.sym import Sym
from pyvc.tensor import Tensor
from pyvc.diff import derivative

COV = "inference.gp.covariance"
MEAN = "inference.gp.mean"
JITTER = 1e-12


def d_theta(p):
    """differentiate with respect to the hyper-parameter theta[p] (theta is the input vector named 'theta')"""
    def dleaf(e):
        if e.decl().name() == "theta":
            k = e.arg(0)
            if z3.is_int_value(k):
                return z3.RealVal(1) if k.as_long() == p else None
            return z3.If(k == p, z3.RealVal(1), z3.RealVal(0))      # theta read at a symbolic position
        return None
    return dleaf


def _points(vc, name, n, d):
    return vc.matrix(name, n, d)


def _delta(i, j, v):
    return S.ite(S.cmp("==", i, j), v, 0.0)


def se_spec(vc, u, v, theta, d):
    a = vc.exp(theta[0])
    def k(i, j):
        z = 0
        for c in range(d):
            L = vc.exp(theta[1 + c])
            z = z + (u[i, c] - v[j, c]) ** 2 / (L * L)
        return a * a * vc.exp(-0.5 * z)
    return k


def rq_spec(vc, u, v, theta, d):
    a = vc.exp(theta[0])
    q = vc.exp(theta[1])
    def k(i, j):
        z = 0
        for c in range(d):
            L = vc.exp(theta[2 + c])
            z = z + 0.5 * (u[i, c] - v[j, c]) ** 2 / (L * L)
        return a * a * vc.exp(-q * vc.log(1 + z / q))          # (1 + Z/q)^(-q)
    return k


def _kernel_contract(vc, clsname, spec, n_extra):
    vc.c.numeric_filter = True       # no equational hypotheses between uninterpreted terms in these contracts
    d = vc.choice("d", [1, 2, 3])
    n, m = vc.int("n", lo=1), vc.int("m", lo=1)
    x = _points(vc, "x", n, d)
    u = _points(vc, "u", n, d)
    v = _points(vc, "v", m, d)
    p = d + n_extra
    theta = vc.vector("theta", p)
    K = vc.new(COV, clsname)
    # generic pairwise evaluation equals the documented kernel, and is symmetric in its arguments
    kuv = vc.call(K, "__call__", u, v, theta)
    kvu = vc.call(K, "__call__", v, u, theta)
    want = spec(vc, u, v, theta, d)
    vc.ensures("call.shape", S.And(kuv.ndim == 2, S.cmp("==", kuv.shape[0], n), S.cmp("==", kuv.shape[1], m)))
    vc.ensures_forall("call.formula", (n, m), lambda i, j: kuv[i, j] == want(i, j))
    vc.ensures_forall("call.symmetric", (n, m), lambda i, j: kuv[i, j] == kvu[j, i])
    # the fast builder on the stored data = generic evaluation on the same points + the documented jitter a^2 * 1e-12
    vc.call(K, "pass_spatial_data", x)
    vc.ensures("n_params", vc.attr(K, "n_params") == p)
    B = vc.call(K, "build_covariance", theta)
    kxx = spec(vc, x, x, theta, d)
    a = vc.exp(theta[0])
    vc.ensures_forall("builder.equals_pairwise_plus_jitter", (n, n),
                      lambda i, j: B[i, j] == kxx(i, j) + _delta(i, j, a * a * JITTER))
    # value-and-gradients: same value, and every returned matrix is the partial derivative of the built covariance
    Kv, grads = vc.call(K, "covariance_and_gradients", theta)
    vc.ensures("gradients.count", len(grads) == p)
    vc.ensures_forall("gradients.value_agrees", (n, n), lambda i, j: Kv[i, j] == B[i, j])
    for q in range(p):
        # (split into diagonal / off-diagonal: the jitter only lives on the diagonal, where the distances vanish)
        vc.ensures_forall("gradients.exact.diagonal", n,
                          lambda i, q=q: grads[q][i, i] == derivative(B[i, i], d_theta(q)))
        vc.ensures_forall("gradients.exact.off_diagonal", (n, n),
                          lambda i, j, q=q: S.Implies(S.Not(S.cmp("==", i, j)),
                                                      grads[q][i, j] == derivative(B[i, j], d_theta(q))))


@contract("C10", "squared_exponential", native=False, replay_with="covariance_native")
def squared_exponential(vc):
    _kernel_contract(vc, "SquaredExponential", se_spec, 1)


@contract("C10", "rational_quadratic", native=False, replay_with="covariance_native")
def rational_quadratic(vc):
    _kernel_contract(vc, "RationalQuadratic", rq_spec, 2)


# ---- noise kernels -------------------------------------------------------------------------------------------
@contract("C10", "white_noise", native=False, replay_with="covariance_native")
def white_noise(vc):
    d = vc.choice("d", [1, 2])
    n, m, k = vc.int("n", lo=1), vc.int("m", lo=1), vc.int("k", lo=1)
    x, u, v = _points(vc, "x", n, d), _points(vc, "u", k, d), _points(vc, "v", m, d)
    theta = vc.vector("theta", 1)
    K = vc.new(COV, "WhiteNoise")
    c = vc.call(K, "__call__", u, v, theta)
    vc.ensures("cross_covariance.shape", S.And(c.ndim == 2, S.cmp("==", c.shape[0], k), S.cmp("==", c.shape[1], m)))
    vc.ensures_forall("cross_covariance.zero", (k, m), lambda i, j: c[i, j] == 0)
    vc.call(K, "pass_spatial_data", x)
    B = vc.call(K, "build_covariance", theta)
    s2 = vc.exp(2 * theta[0])
    vc.ensures_forall("builder.is_sigma_squared_on_the_diagonal", (n, n), lambda i, j: B[i, j] == _delta(i, j, s2))
    Kv, grads = vc.call(K, "covariance_and_gradients", theta)
    vc.ensures("gradients.count", len(grads) == 1)
    vc.ensures_forall("gradients.value_agrees", (n, n), lambda i, j: Kv[i, j] == B[i, j])
    vc.ensures_forall("gradients.exact", (n, n), lambda i, j: grads[0][i, j] == derivative(B[i, j], d_theta(0)))


@contract("C10", "heteroscedastic_noise", native=False, replay_with="covariance_native")
def heteroscedastic_noise(vc):
    d = vc.choice("d", [1, 2, 3])
    n = vc.choice("n", [1, 2, 3])          # one hyper-parameter per data point: proved per listed size
    m, k = vc.int("m", lo=1), vc.int("k", lo=1)
    x, u, v = _points(vc, "x", n, d), _points(vc, "u", k, d), _points(vc, "v", m, d)
    theta = vc.vector("theta", n)
    K = vc.new(COV, "HeteroscedasticNoise")
    c = vc.call(K, "__call__", u, v, theta)
    vc.ensures("cross_covariance.shape", S.And(c.ndim == 2, S.cmp("==", c.shape[0], k), S.cmp("==", c.shape[1], m)))
    vc.ensures_forall("cross_covariance.zero", (k, m), lambda i, j: c[i, j] == 0)
    vc.call(K, "pass_spatial_data", x)
    vc.ensures("n_params", vc.attr(K, "n_params") == n)
    B = vc.call(K, "build_covariance", theta)
    vc.ensures_forall("builder.is_sigma_i_squared_on_the_diagonal", (n, n),
                      lambda i, j: B[i, j] == _delta(i, j, vc.exp(2 * theta[i])))
    Kv, grads = vc.call(K, "covariance_and_gradients", theta)
    vc.ensures("gradients.count", len(grads) == n)
    for q in range(n):
        vc.ensures_forall("gradients.exact", (n, n), lambda i, j, q=q: grads[q][i, j] == derivative(B[i, j], d_theta(q)))


# ---- composites ----------------------------------------------------------------------------------------------
@contract("C10", "slice_builder", native=False, replay_with="covariance_native")
def slice_builder(vc):
    k = vc.choice("n_components", [1, 2, 3, 4])
    lengths = [vc.int(f"len{i}", lo=0) for i in range(k)]
    sl = vc.callf(COV, "slice_builder", list(lengths))
    vc.ensures("count", len(sl) == k)
    start = 0
    for i in range(k):
        vc.ensures("consecutive_partition", S.And(sl[i].start == start, sl[i].stop == start + lengths[i], sl[i].step is None))
        start = start + lengths[i]


@contract("C10", "composite", native=False, replay_with="covariance_native")
def composite(vc):
    """a sum of kernels: value, gradients, labels and bounds are those of the components concatenated in order"""
    vc.c.numeric_filter = True
    cfg = vc.choice("components", [["SquaredExponential", "WhiteNoise"], ["WhiteNoise", "RationalQuadratic"],
                                   ["SquaredExponential", "RationalQuadratic", "WhiteNoise"]])
    d = 1
    n, m, k = vc.int("n", lo=1), vc.int("m", lo=1), vc.int("k", lo=1)
    x, u, v = _points(vc, "x", n, d), _points(vc, "u", k, d), _points(vc, "v", m, d)
    sizes = {"SquaredExponential": 1 + d, "RationalQuadratic": 2 + d, "WhiteNoise": 1}
    comps, bnds = [], []
    for ci, name in enumerate(cfg):
        b = [(vc.real(f"lo{ci}_{t}"), vc.real(f"hi{ci}_{t}")) for t in range(sizes[name])]
        bnds.append(b)
        comps.append(vc.new(COV, name, hyperpar_bounds=list(b)))
    p = sum(sizes[c] for c in cfg)
    theta = vc.vector("theta", p)
    C = comps[0]
    operands = []
    for c_ in comps[1:]:
        before = list(vc.attr(C, "components")) if C is not comps[0] else None
        left = C
        C = vc.call(C, "__add__", c_)
        if before is not None:
            operands.append((left, before))
    # frame: adding onto a sum builds a NEW sum -- the operands are what they were (a sum that is re-used elsewhere keeps its terms)
    for left, before in operands:
        now = list(vc.attr(left, "components"))
        vc.ensures("operands_of_a_sum_are_unchanged", len(now) == len(before) and all(a is b for a, b in zip(now, before)))
    vc.call(C, "pass_spatial_data", x)
    vc.call(C, "estimate_hyperpar_bounds", vc.vector("y", n))
    vc.ensures("n_params", vc.attr(C, "n_params") == p)
    # separate instances of the component classes evaluated on their own slices
    off = 0
    parts_call, parts_build, parts_grads, labels, bounds = [], [], [], [], []
    for ci, name in enumerate(cfg):
        ref = vc.new(COV, name)
        vc.call(ref, "pass_spatial_data", x)
        th = theta[off:off + sizes[name]]
        parts_call.append(vc.call(ref, "__call__", u, v, th))
        parts_build.append(vc.call(ref, "build_covariance", th))
        parts_grads.extend(vc.call(ref, "covariance_and_gradients", th)[1])
        labels.extend(f"K{ci + 1}: {s_}" for s_ in vc.attr(ref, "hyperpar_labels"))
        bounds.extend(bnds[ci])
        off += sizes[name]
    kc = vc.call(C, "__call__", u, v, theta)
    B = vc.call(C, "build_covariance", theta)
    Kv, grads = vc.call(C, "covariance_and_gradients", theta)
    vc.ensures_forall("call.is_sum_of_components_on_their_slices", (k, m),
                      lambda i, j: kc[i, j] == sum(pc[i, j] for pc in parts_call))
    vc.ensures_forall("builder.is_sum_of_components_on_their_slices", (n, n),
                      lambda i, j: B[i, j] == sum(pb[i, j] for pb in parts_build))
    vc.ensures_forall("gradients.value_agrees", (n, n), lambda i, j: Kv[i, j] == B[i, j])
    vc.ensures("gradients.count", len(grads) == p)
    for q in range(min(len(grads), p)):
        vc.ensures_forall("gradients.are_component_gradients_in_order", (n, n),
                          lambda i, j, q=q: grads[q][i, j] == parts_grads[q][i, j])
    vc.ensures("labels.concatenated_in_order", list(vc.attr(C, "hyperpar_labels")) == labels)
    got_b = vc.attr(C, "bounds")
    vc.ensures("bounds.concatenated_in_order", len(got_b) == p and S.And(*[S.And(g_[0] == w_[0], g_[1] == w_[1])
                                                                          for g_, w_ in zip(got_b, bounds)]))


def _logistic(vc, x, loc, width):
    return 1.0 / (1.0 + vc.exp(-(x - loc) / width))


@contract("C10", "change_point_logistic", native=False, replay_with="covariance_native")
def change_point_logistic(vc):
    """the logistic weight and its two partial derivatives (location, width)"""
    n = vc.int("n", lo=1)
    x = vc.vector("x", n)
    theta = vc.vector("theta", 2)
    vc.assume(theta[1] > 0)
    w = vc.callf(COV, "ChangePoint.logistic", x, theta)
    f, grads = vc.callf(COV, "ChangePoint.logistic_and_gradient", x, theta)
    vc.ensures_forall("weight.formula", n, lambda a: w[a] == _logistic(vc, x[a], theta[0], theta[1]))
    vc.ensures_forall("weight.value_agrees", n, lambda a: f[a] == w[a])
    vc.ensures("gradients.count", len(grads) == 2)
    for q in range(2):
        vc.ensures_forall("gradients.exact", n, lambda a, q=q: grads[q][a] == derivative(w[a], d_theta(q)))


@contract("C10", "change_point", native=False, replay_with="covariance_native")
def change_point(vc):
    """change-point combination of 2, 3 or 4 squared-exponential kernels (proved per listed number of kernels).
    The logistic weights are modular here (their contract is change_point_logistic): W_t(a) with partial
    derivatives dW_t,0(a) (location) and dW_t,1(a) (width)."""
    vc.c.numeric_filter = True
    nk = vc.choice("n_kernels", [2, 3, 4])
    d = 1
    n = vc.int("n", lo=1)
    x = _points(vc, "x", n, d)
    comps = [vc.new(COV, "SquaredExponential") for _ in range(nk)]
    CP = vc.new(COV, "ChangePoint", kernels=list(comps), axis=0)
    vc.call(CP, "pass_spatial_data", x)
    base = nk * (1 + d)
    p = base + 2 * (nk - 1)
    vc.ensures("n_params", vc.attr(CP, "n_params") == p)
    theta = vc.vector("theta", p)
    W = z3.Function("W", z3.IntSort(), z3.IntSort(), z3.RealSort())
    dW = z3.Function("dW", z3.IntSort(), z3.IntSort(), z3.IntSort(), z3.RealSort())

    def which(th):
        k = S.z(th[0]).arg(0)
        if not z3.is_int_value(k) or (k.as_long() - base) % 2 or not (0 <= (k.as_long() - base) // 2 < nk - 1):
            raise S.Unsupported("change-point weight evaluated on an unexpected parameter slice")
        return (k.as_long() - base) // 2

    def weight(t, m):
        return Tensor((m,), lambda a: Sym(W(z3.IntVal(t), S.z(a))))

    def logistic(I, func, args, kwargs):
        xs, th = args[-2], args[-1]
        return weight(which(th), xs.shape[0])

    def logistic_and_gradient(I, func, args, kwargs):
        xs, th = args[-2], args[-1]
        t = which(th)
        return weight(t, xs.shape[0]), [Tensor((xs.shape[0],), lambda a, j=j: Sym(dW(z3.IntVal(t), z3.IntVal(j), S.z(a))))
                                        for j in range(2)]

    vc.modular("ChangePoint.logistic", logistic)
    vc.modular("ChangePoint.logistic_and_gradient", logistic_and_gradient)
    B = vc.call(CP, "build_covariance", theta)
    refs = []
    for i in range(nk):
        r = vc.new(COV, "SquaredExponential")
        vc.call(r, "pass_spatial_data", x)
        refs.append(vc.call(r, "build_covariance", theta[i * (1 + d):(i + 1) * (1 + d)]))
    w = [lambda a, t=t: Sym(W(z3.IntVal(t), S.z(a))) for t in range(nk - 1)]

    def coeff(i, a, b):
        c = 1.0
        if i > 0:
            c = c * w[i - 1](a) * w[i - 1](b)
        if i < nk - 1:
            c = c * (1 - w[i](a)) * (1 - w[i](b))
        return c

    vc.ensures_forall("builder.is_weighted_sum_of_kernels", (n, n),
                      lambda a, b: B[a, b] == sum(refs[i][a, b] * coeff(i, a, b) for i in range(nk)))
    Kv, grads = vc.call(CP, "covariance_and_gradients", theta)
    vc.ensures("gradients.count", len(grads) == p)
    vc.ensures_forall("gradients.value_agrees", (n, n), lambda a, b: Kv[a, b] == B[a, b])

    def d_param(q):
        kernel = d_theta(q)

        def dleaf(e):
            nm = e.decl().name()
            if nm == "theta":
                return kernel(e)
            if nm == "W" and q >= base:
                t, j = (q - base) // 2, (q - base) % 2
                if e.arg(0).as_long() == t:
                    return dW(z3.IntVal(t), z3.IntVal(j), e.arg(1))
            return None
        return dleaf

    for q in range(min(len(grads), p)):
        vc.ensures_forall("gradients.exact.diagonal", n, lambda a, q=q: grads[q][a, a] == derivative(B[a, a], d_param(q)))
        vc.ensures_forall("gradients.exact.off_diagonal", (n, n),
                          lambda a, b, q=q: S.Implies(S.Not(S.cmp("==", a, b)),
                                                      grads[q][a, b] == derivative(B[a, b], d_param(q))))


# ---- mean functions ------------------------------------------------------------------------------------------
def _mean_contract(vc, clsname, n_params_of_d, spec):
    d = vc.choice("d", [1, 2])
    n = vc.int("n", lo=1)
    x = _points(vc, "x", n, d)
    p = n_params_of_d(d)
    theta = vc.vector("theta", p)
    M = vc.new(MEAN, clsname)
    vc.call(M, "pass_spatial_data", x)
    vc.ensures("n_params", vc.attr(M, "n_params") == p)
    xm = vc.attr(M, "x_mean") if clsname != "ConstantMean" else None
    mu = vc.call(M, "build_mean", theta)
    want = spec(vc, x, xm, theta, d)
    vc.ensures("build.length", S.cmp("==", mu.shape[0], n))
    vc.ensures_forall("build.formula", n, lambda i: mu[i] == want(lambda c: x[i, c]))
    # evaluation at an arbitrary query point uses the same function
    q = vc.vector("q", d)
    mq = vc.call(M, "__call__", q, theta)
    vc.ensures("call.formula", mq == want(lambda c: q[c]))
    val, grads = vc.call(M, "mean_and_gradients", theta)
    vc.ensures("gradients.count", len(grads) == p)
    vc.ensures_forall("gradients.value_agrees", n, lambda i: val[i] == mu[i])
    for t in range(min(len(grads), p)):
        vc.ensures_forall("gradients.exact", n, lambda i, t=t: grads[t][i] == derivative(mu[i], d_theta(t)))


@contract("C10", "constant_mean", native=False, replay_with="covariance_native")
def constant_mean(vc):
    _mean_contract(vc, "ConstantMean", lambda d: 1, lambda vc_, x, xm, th, d: (lambda pt: th[0]))


@contract("C10", "linear_mean", native=False, replay_with="covariance_native")
def linear_mean(vc):
    def spec(vc_, x, xm, th, d):
        return lambda pt: th[0] + sum((pt(c) - xm[c]) * th[1 + c] for c in range(d))
    _mean_contract(vc, "LinearMean", lambda d: 1 + d, spec)


@contract("C10", "quadratic_mean", native=False, replay_with="covariance_native")
def quadratic_mean(vc):
    def spec(vc_, x, xm, th, d):
        return lambda pt: (th[0] + sum((pt(c) - xm[c]) * th[1 + c] for c in range(d))
                           + sum((pt(c) - xm[c]) ** 2 * th[1 + d + c] for c in range(d)))
    _mean_contract(vc, "QuadraticMean", lambda d: 1 + 2 * d, spec)


# ---------------------------------------------------------------------------------------------------
# bounded layer: positive semi-definiteness, builder vs pairwise, finite-difference gradients, any dimension
# ---------------------------------------------------------------------------------------------------
import numpy as np


def _random_kernel(rng, depth=0):
    from inference.gp import SquaredExponential, RationalQuadratic, WhiteNoise, HeteroscedasticNoise, ChangePoint
    kind = rng.choice(["SE", "RQ", "SE+WN", "SE+RQ", "CP2", "CP3", "CP4", "SE+HN", "CP2+WN", "RQ+SE+WN"])
    mk = {"SE": SquaredExponential, "RQ": RationalQuadratic, "WN": WhiteNoise, "HN": HeteroscedasticNoise}
    if kind.startswith("CP"):
        parts = kind.split("+")
        nk = int(parts[0][2])
        K = ChangePoint(kernels=[mk[str(rng.choice(["SE", "RQ"]))] for _ in range(nk)], axis=0)
        for extra in parts[1:]:
            K = K + mk[extra]()
        return kind, K
    parts = kind.split("+")
    K = mk[parts[0]]()
    for extra in parts[1:]:
        K = K + mk[extra]()
    return kind, K


@bounded("C10", "covariance_native", native_runs=40)
def covariance_native(vc):
    seed = vc.int("seed", lo=0, hi=10 ** 6)
    rng = np.random.default_rng(seed)
    d = vc.int("d", lo=1, hi=3)
    n = vc.int("n", lo=2, hi=14)
    x = rng.normal(size=(n, d)) * 10 ** rng.uniform(-1, 1)
    if seed % 5 == 0:
        x[1] = x[0]                      # repeated point: a singular but still PSD case
    kind, K = _random_kernel(rng)
    vc.inputs["kernel"] = kind
    K.pass_spatial_data(x)
    y = rng.normal(size=n)
    with np.errstate(all="ignore"):
        K.estimate_hyperpar_bounds(y)
    p = K.n_params
    vc.ensures("labels_and_bounds_match_parameter_count", len(K.hyperpar_labels) == p and len(K.bounds) == p)
    # entry j of the bounds constrains the parameter that label j names: every change-point location is bounded by the data
    # range along its axis and every width by (0.5%, 50%) of that range (the documented defaults), whatever the nesting
    ok_lab = True
    if len(K.hyperpar_labels) == p and len(K.bounds) == p:
        for lab, b in zip(K.hyperpar_labels, K.bounds):
            if "ChngPnt" in lab and lab.endswith("location"):
                ok_lab = ok_lab and b is not None and b[0] is not None and min(abs(b[0] - x[:, a_].min()) + abs(b[1] - x[:, a_].max()) for a_ in range(d)) < 1e-9 * max(1.0, float(np.abs(x).max()))
            if "ChngPnt" in lab and lab.endswith("width"):
                ok_lab = ok_lab and b is not None and b[0] is not None and min(abs(b[0] - 5e-3 * np.ptp(x[:, a_])) + abs(b[1] - 0.5 * np.ptp(x[:, a_])) for a_ in range(d)) < 1e-9 * max(1.0, float(np.abs(x).max()))
    vc.ensures("change_point_bounds_belong_to_the_labelled_parameters", bool(ok_lab))
    span = float(np.ptp(x[:, 0])) + 1e-3
    theta = np.array([rng.uniform(x[:, 0].min(), x[:, 0].max()) if "location" in lab
                      else rng.uniform(0.05, 0.6) * span if "width" in lab
                      else rng.uniform(-1.0, 1.0) for lab in K.hyperpar_labels])
    B = K.build_covariance(theta)
    scale = max(1.0, np.trace(B))
    vc.ensures("symmetric", bool(np.allclose(B, B.T, rtol=1e-12, atol=1e-12 * scale)))
    vc.ensures("positive_semidefinite", bool(np.linalg.eigvalsh(0.5 * (B + B.T)).min() >= -1e-9 * scale))
    # the builder equals the generic pairwise evaluation on the same points plus diagonal terms only
    P = K(x, x, theta)
    off = ~np.eye(n, dtype=bool)
    vc.ensures("builder_equals_pairwise_off_diagonal", P.shape == (n, n) and bool(np.allclose(B[off], P[off], rtol=1e-10, atol=1e-12 * scale)))
    vc.ensures("builder_diagonal_terms_non_negative", bool(np.all(np.diag(B) - np.diag(P) >= -1e-12 * scale)))
    # cross-covariance with other points: shape, and PSD of the joint matrix of the noise-free part
    q = rng.normal(size=(3, d))
    vc.ensures("cross_covariance_shape", K(q, x, theta).shape == (3, n))
    xa = np.vstack([x, q])
    Pa = K(xa, xa, theta)
    vc.ensures("pairwise_kernel_psd", bool(np.linalg.eigvalsh(0.5 * (Pa + Pa.T)).min() >= -1e-9 * max(1.0, np.trace(Pa))))
    Kv, grads = K.covariance_and_gradients(theta)
    # the matrices depend on the VALUES of the hyper-parameters only: one buffer used, updated in place, used again
    buf = theta + 0.07 * rng.normal(size=p)
    K.build_covariance(buf), K.covariance_and_gradients(buf), K(q, x, buf)
    buf[:] = theta
    Kv_b, grads_b = K.covariance_and_gradients(buf)
    vc.ensures("hyperparameter_buffer_updated_in_place", bool(np.array_equal(K.build_covariance(buf), B)) and bool(np.array_equal(Kv_b, Kv))
               and len(grads_b) == len(grads) and all(np.array_equal(a_, b_) for a_, b_ in zip(grads_b, grads))
               and bool(np.array_equal(K(q, x, buf), K(q, x, theta.copy()))))
    ok = len(grads) == p and np.allclose(Kv, B)
    worst = 0.0
    for t in range(p):
        # 4th-order central differences at three step sizes: truncation error dominates at the large step when a
        # change-point is steep, rounding at the small one; a wrong analytic gradient is off at every step size
        errs = []
        for h in (1e-4, 1e-5, 1e-6):
            e = np.zeros(p)
            e[t] = h
            fd = (-K.build_covariance(theta + 2 * e) + 8 * K.build_covariance(theta + e)
                  - 8 * K.build_covariance(theta - e) + K.build_covariance(theta - 2 * e)) / (12 * h)
            errs.append(np.abs(grads[t] - fd).max() / max(1e-8, np.abs(fd).max(), np.abs(B).max()))
        worst = max(worst, float(min(errs)))
    vc.inputs["worst_gradient_error"] = worst
    vc.ensures("gradients_match_finite_differences", bool(ok) and worst < 1e-6)


@bounded("C10", "sums_reused_native", native_runs=10)
def sums_reused_native(vc):
    """a sum that is re-used as an operand of further sums (signal = A + B; noisy = signal + C; other = signal + D) keeps its own
    terms: each sum is the sum of exactly its own operands, in value, gradients, labels and parameter count"""
    from inference.gp import SquaredExponential, RationalQuadratic, WhiteNoise
    seed = vc.int("seed", lo=0, hi=10 ** 6)
    rng = np.random.default_rng(seed)
    n, d = int(rng.integers(2, 8)), int(rng.integers(1, 3))
    x = rng.normal(size=(n, d))
    A, Bk, Cn, D = SquaredExponential(), RationalQuadratic(), WhiteNoise(), SquaredExponential()
    signal = A + Bk
    noisy = signal + Cn
    other = D + signal if seed % 2 else signal + D
    sizes = {id(A): 1 + d, id(Bk): 2 + d, id(Cn): 1, id(D): 1 + d}
    ok = True
    for K, parts in ((signal, [A, Bk]), (noisy, [A, Bk, Cn]), (other, [D, A, Bk] if seed % 2 else [A, Bk, D])):
        K.pass_spatial_data(x)
        p = sum(sizes[id(c)] for c in parts)
        theta = rng.uniform(-1, 1, size=p)
        want, off = np.zeros((n, n)), 0
        for c in parts:
            ref = type(c)()
            ref.pass_spatial_data(x)
            want = want + ref.build_covariance(theta[off:off + sizes[id(c)]])
            off += sizes[id(c)]
        ok = ok and K.n_params == p and len(K.hyperpar_labels) == p
        if K.n_params == p:
            Kv, grads = K.covariance_and_gradients(theta)
            ok = ok and len(grads) == p and bool(np.allclose(K.build_covariance(theta), want, rtol=1e-12, atol=1e-12)) \
                and bool(np.allclose(Kv, want, rtol=1e-12, atol=1e-12))
    vc.ensures("each_sum_is_the_sum_of_its_own_operands", bool(ok))


@bounded("C10", "user_bounds_native", native_runs=10)
def user_bounds_native(vc):
    """bounds the user gives to a component kernel are that component's bounds: they appear, in order, at the component's
    positions in the bounds of every sum / change-point combination it is part of (as fitted through GpRegressor)"""
    from inference.gp import SquaredExponential, RationalQuadratic, WhiteNoise, ChangePoint, GpRegressor
    seed = vc.int("seed", lo=0, hi=10 ** 6)
    rng = np.random.default_rng(seed)
    how = vc.choice("combination", ["sum", "change_point", "change_point_of_3", "sum_inside_change_point"])
    n = int(rng.integers(6, 14))
    x = np.sort(rng.uniform(0, 1, size=n))
    y = np.sin(5 * x) + 0.1 * rng.normal(size=n)
    ub = [(float(-1 - rng.uniform()), float(1 + rng.uniform())), (float(-3 - rng.uniform()), float(0.5 + rng.uniform()))]
    mine = SquaredExponential(hyperpar_bounds=list(ub))
    if how == "sum":
        K, at = RationalQuadratic() + mine + WhiteNoise(), 3
    elif how == "change_point":
        K, at = ChangePoint(kernels=[SquaredExponential(), mine]), 2
    elif how == "change_point_of_3":
        K, at = ChangePoint(kernels=[mine, SquaredExponential(), RationalQuadratic()]), 0
    else:
        K, at = ChangePoint(kernels=[SquaredExponential(), mine + WhiteNoise()]), 2
    with np.errstate(all="ignore"):
        GpRegressor(x, y, kernel=K)
    got = [tuple(float(v) for v in b) for b in K.bounds[at:at + 2]]
    vc.inputs["bounds_at_component"] = got
    vc.ensures("user_bounds_of_a_component_appear_in_the_combination", got == [tuple(b) for b in ub])


@bounded("C10", "mean_native", native_runs=20)
def mean_native(vc):
    from inference.gp import ConstantMean, LinearMean, QuadraticMean
    seed = vc.int("seed", lo=0, hi=10 ** 6)
    rng = np.random.default_rng(seed)
    d = vc.int("d", lo=1, hi=3)
    n = vc.int("n", lo=2, hi=10)
    x = rng.normal(size=(n, d)) + rng.normal() * 10
    M = [ConstantMean, LinearMean, QuadraticMean][seed % 3]()
    M.pass_spatial_data(x)
    M.estimate_hyperpar_bounds(rng.normal(size=n))
    p = M.n_params
    theta = rng.normal(size=p)
    mu = M.build_mean(theta)
    vc.ensures("build_equals_pointwise_call", bool(np.allclose(mu, [M(x[i], theta) for i in range(n)], rtol=1e-10, atol=1e-10)))
    val, grads = M.mean_and_gradients(theta)
    ok = len(grads) == p and len(M.hyperpar_labels) == p and len(M.bounds) == p and np.allclose(val, mu)
    for t in range(p):
        e = np.zeros(p)
        e[t] = 1e-6
        ok = ok and np.allclose(grads[t], (M.build_mean(theta + e) - M.build_mean(theta - e)) / 2e-6, rtol=1e-6, atol=1e-6)
    vc.ensures("gradients_match_finite_differences", bool(ok))


@contract("C10", "change_point_labels_and_bounds", native=False, replay_with="covariance_native")
def change_point_labels_and_bounds(vc):
    """a change-point combination's labels and bounds line up with its hyper-parameter vector: the components' entries in
    order, then (location, width) of every change-point in order -- entry j of `bounds` / `hyperpar_labels` belongs to
    theta[j] (2, 3, 4 kernels)"""
    nk = vc.choice("n_kernels", [2, 3, 4])
    d = 1
    n = vc.int("n", lo=2)
    x = _points(vc, "x", n, d)
    # the first component may come with bounds chosen by the user: they are that component's bounds, hence the composite's
    user = vc.choice("bounds_of_first_component", ["estimated", "given_by_the_user"]) == "given_by_the_user"
    per0 = 1 + d
    ub = [(vc.real(f"user_lo{q}"), vc.real(f"user_hi{q}")) for q in range(per0)] if user else None
    comps = [vc.new(COV, "SquaredExponential", hyperpar_bounds=list(ub)) if (user and i == 0) else vc.new(COV, "SquaredExponential")
             for i in range(nk)]
    loc = [(vc.real(f"loc_lo{t}"), None) for t in range(nk - 1)]
    loc = [(a, S.add(a, vc.real(f"loc_w{t}", pos=True))) for t, (a, _) in enumerate(loc)]
    wid = [(vc.real(f"wid_lo{t}", pos=True), None) for t in range(nk - 1)]
    wid = [(a, S.add(a, vc.real(f"wid_w{t}", pos=True))) for t, (a, _) in enumerate(wid)]
    CP = vc.new(COV, "ChangePoint", kernels=list(comps), axis=0, location_bounds=list(loc), width_bounds=list(wid))
    vc.call(CP, "pass_spatial_data", x)
    per = 1 + d
    base = nk * per
    p = base + 2 * (nk - 1)
    # the component kernels' own bound estimation is replaced by distinct symbolic bounds (its contract: one pair per parameter)
    marks = {}

    def est(I, func, args, kwargs):
        k = args[0]
        i = [c is k for c in comps].index(True)
        marks[i] = [(vc.real(f"b{i}_{q}_lo"), vc.real(f"b{i}_{q}_hi")) for q in range(per)]
        I.set_attr(k, "bounds", list(marks[i]))
        return None

    vc.modular("SquaredExponential.estimate_hyperpar_bounds", est)
    y = vc.vector("y", n)
    vc.call(CP, "estimate_hyperpar_bounds", y)
    B = vc.attr(CP, "bounds")
    L = vc.attr(CP, "hyperpar_labels")
    if user:
        vc.ensures("bounds_given_by_the_user_for_a_component_are_kept",
                   len(B) >= per and S.And(*[S.And(S.cmp("==", B[q][0], ub[q][0]), S.cmp("==", B[q][1], ub[q][1])) for q in range(per)]))
        marks[0] = list(ub)
    vc.ensures("one_label_and_one_bound_per_hyperparameter", len(B) == p and len(L) == p and vc.attr(CP, "n_params") == p)
    if len(B) != p or len(L) != p:
        return
    for i in range(nk):
        for q in range(per):
            j = i * per + q
            vc.ensures("component_bounds_in_place", S.And(S.cmp("==", B[j][0], marks[i][q][0]), S.cmp("==", B[j][1], marks[i][q][1])))
            vc.ensures("component_labels_in_place", L[j].startswith(f"ChngPnt K{i}:"))
    for t in range(nk - 1):
        jl, jw = base + 2 * t, base + 2 * t + 1
        vc.ensures("location_bounds_at_the_location_parameter", S.And(S.cmp("==", B[jl][0], loc[t][0]), S.cmp("==", B[jl][1], loc[t][1])))
        vc.ensures("width_bounds_at_the_width_parameter", S.And(S.cmp("==", B[jw][0], wid[t][0]), S.cmp("==", B[jw][1], wid[t][1])))
        vc.ensures("change_point_labels_in_place", L[jl] == f"ChngPnt{t} location" and L[jw] == f"ChngPnt{t} width")
    # ... and these are the positions the covariance actually reads (cp_slc / cov_slc)
    cps, cvs = vc.attr(CP, "cp_slc"), vc.attr(CP, "cov_slc")
    vc.ensures("slices_match_the_layout", len(cps) == nk - 1 and len(cvs) == nk
               and all(S.unwrap(s.start) == base + 2 * t and S.unwrap(s.stop) == base + 2 * t + 2 for t, s in enumerate(cps))
               and all(S.unwrap(s.start) == i * per and S.unwrap(s.stop) == (i + 1) * per for i, s in enumerate(cvs)))
