"""C10 -- covariance and mean functions are valid and their gradients are exact."""
import z3
from pyvc.vc import contract, bounded
from pyvc import sym as S
from pyvc.sym import Sym
from pyvc.tensor import Tensor
from pyvc.diff import derivative

COV = "inference.gp.covariance"
MEAN = "inference.gp.mean"
JITTER = 1e-12


def d_theta(p):
    """differentiate with respect to the hyper-parameter theta[p] (theta is the input vector named 'theta')"""
    def dleaf(e):
        if e.decl().name() == "theta" and z3.is_int_value(e.arg(0)) and e.arg(0).as_long() == p:
            return z3.RealVal(1)
        return None
    return dleaf


def _points(vc, name, n, d):
    return vc.matrix(name, n, d)


def _delta(i, j, v):
    return S.ite(S.cmp("==", i, j), v, 0.0)


def se_spec(vc, u, v, theta, d):
    a = vc.exp(theta[0])
    def k(i, j):
        z = 0
        for c in range(d):
            L = vc.exp(theta[1 + c])
            z = z + (u[i, c] - v[j, c]) ** 2 / (L * L)
        return a * a * vc.exp(-0.5 * z)
    return k


def rq_spec(vc, u, v, theta, d):
    a = vc.exp(theta[0])
    q = vc.exp(theta[1])
    def k(i, j):
        z = 0
        for c in range(d):
            L = vc.exp(theta[2 + c])
            z = z + 0.5 * (u[i, c] - v[j, c]) ** 2 / (L * L)
        return a * a * vc.exp(-q * vc.log(1 + z / q))          # (1 + Z/q)^(-q)
    return k


def _kernel_contract(vc, clsname, spec, n_extra):
    d = vc.choice("d", [1, 2, 3])
    n, m = vc.int("n", lo=1), vc.int("m", lo=1)
    x = _points(vc, "x", n, d)
    u = _points(vc, "u", n, d)
    v = _points(vc, "v", m, d)
    p = d + n_extra
    theta = vc.vector("theta", p)
    K = vc.new(COV, clsname)
    # generic pairwise evaluation equals the documented kernel, and is symmetric in its arguments
    kuv = vc.call(K, "__call__", u, v, theta)
    kvu = vc.call(K, "__call__", v, u, theta)
    want = spec(vc, u, v, theta, d)
    vc.ensures("call.shape", S.And(kuv.ndim == 2, S.cmp("==", kuv.shape[0], n), S.cmp("==", kuv.shape[1], m)))
    vc.ensures_forall("call.formula", (n, m), lambda i, j: kuv[i, j] == want(i, j))
    vc.ensures_forall("call.symmetric", (n, m), lambda i, j: kuv[i, j] == kvu[j, i])
    # the fast builder on the stored data = generic evaluation on the same points + the documented jitter a^2 * 1e-12
    vc.call(K, "pass_spatial_data", x)
    vc.ensures("n_params", vc.attr(K, "n_params") == p)
    B = vc.call(K, "build_covariance", theta)
    kxx = spec(vc, x, x, theta, d)
    a = vc.exp(theta[0])
    vc.ensures_forall("builder.equals_pairwise_plus_jitter", (n, n),
                      lambda i, j: B[i, j] == kxx(i, j) + _delta(i, j, a * a * JITTER))
    # value-and-gradients: same value, and every returned matrix is the partial derivative of the built covariance
    Kv, grads = vc.call(K, "covariance_and_gradients", theta)
    vc.ensures("gradients.count", len(grads) == p)
    vc.ensures_forall("gradients.value_agrees", (n, n), lambda i, j: Kv[i, j] == B[i, j])
    for q in range(p):
        # (split into diagonal / off-diagonal: the jitter only lives on the diagonal, where the distances vanish)
        vc.ensures_forall("gradients.exact.diagonal", n,
                          lambda i, q=q: grads[q][i, i] == derivative(B[i, i], d_theta(q)))
        vc.ensures_forall("gradients.exact.off_diagonal", (n, n),
                          lambda i, j, q=q: S.Implies(S.Not(S.cmp("==", i, j)),
                                                      grads[q][i, j] == derivative(B[i, j], d_theta(q))))


@contract("C10", "squared_exponential", native=False)
def squared_exponential(vc):
    _kernel_contract(vc, "SquaredExponential", se_spec, 1)


@contract("C10", "rational_quadratic", native=False)
def rational_quadratic(vc):
    _kernel_contract(vc, "RationalQuadratic", rq_spec, 2)
