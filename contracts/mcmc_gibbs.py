"""GibbsChain.take_step under contract -- one symbolic exploration serving C01, C03, C04 and C15.

Ghost state: F (the user's log-density, uninterpreted), beta = inv_temp, `cur` = the current point of the
sweep as a ghost array, the trace of random draws and posterior evaluations.
Class invariant assumed on entry (established by the constructor contract):
    every parameter holds N samples, len(probs) = chain_length = N,
    probs[N-1] = beta * F(x_last)  where x_last[j] = samples_j[N-1],
    limits in force hold for x_last.
"""
import ast
import z3
from pyvc import sym as S
from pyvc.sym import Sym, Unsupported, ctx
from pyvc.tensor import Tensor, SymList
from pyvc.loops import LoopSpec
from pyvc.objlist import SymObjList, RngModel, PosteriorGhost, F, ARR, as_array

GIBBS = "inference.mcmc.gibbs"
PROPOSALS = ["standard_proposal", "abs_proposal", "boundary_proposal"]


def _names(t):
    if isinstance(t, ast.Name):
        return [t.id]
    if isinstance(t, (ast.Tuple, ast.List)):
        out = []
        for e in t.elts:
            out.extend(_names(e))
        return out
    return []


def resolve_roles(func):
    """find the locals by what they hold (not by name): robust against renaming"""
    roles = {}
    for n in ast.walk(func.node):
        if isinstance(n, ast.Assign) and len(n.targets) == 1 and isinstance(n.targets[0], ast.Name):
            src = ast.unparse(n.value)
            tgt = n.targets[0].id
            if src.replace(" ", "") == "self.probs[-1]":
                roles.setdefault("p_old", tgt)
            elif src.startswith("self.get_last("):
                roles.setdefault("point", tgt)
            elif "self.posterior(" in src:
                roles.setdefault("p_new", tgt)
        if isinstance(n, ast.For) and "self.params" in ast.unparse(n.iter) and "enumerate" in ast.unparse(n.iter):
            nm = _names(n.target)
            if len(nm) == 2:
                roles.setdefault("index", nm[0])
                roles.setdefault("param", nm[1])
    for r in ("p_old", "point", "p_new", "index", "param"):
        if r not in roles:
            raise Unsupported(f"GibbsChain.take_step: cannot resolve the local playing the role '{r}'")
    return roles


class GibbsState:
    def __init__(self, vc):
        c = vc.c
        self.vc = vc
        self.d = vc.int("d", lo=1)
        self.N = vc.int("N", lo=1)
        self.beta = vc.real("beta", pos=True)
        d, N = self.d, self.N
        I_, R_ = z3.IntSort(), z3.RealSort()
        self.Sf = z3.Function("S", I_, I_, R_)
        self.Pf = z3.Function("P", I_, R_)
        self.sig = z3.Function("sig", I_, R_)
        self.kind = z3.Function("kind", I_, I_)
        self.lo = z3.Function("lo", I_, R_)
        self.w = z3.Function("w", I_, R_)
        self.nn = z3.Function("nn", I_, z3.BoolSort())          # the non-negativity switch of parameter j
        self.tc = z3.Function("tc", I_, I_)
        self.mt = z3.Function("mt", I_, I_)
        self.x_last = z3.Const("x_last", ARR)
        Sf, kind, lo, w, xl = self.Sf, self.kind, self.lo, self.w, self.x_last
        n1 = S.z(N) - 1
        c.add_forall((d,), lambda j: Sf(S.z(j), n1) == xl[S.z(j)], "x_last")
        c.defs.append(self.Pf(n1) == self.beta.e * F(xl))
        c.add_forall((d,), lambda j: z3.And(kind(S.z(j)) >= 0, kind(S.z(j)) <= 2), "kind-range")
        # class invariant of Parameter (C04.parameter_state_machine): the absolute-value proposal is selected exactly when
        # the switch is on and no boundaries are set; the plain proposal only when the switch is off
        nn = self.nn
        c.add_forall((d,), lambda j: z3.And(z3.Implies(kind(S.z(j)) == 1, nn(S.z(j))),
                                            z3.Implies(kind(S.z(j)) == 0, z3.Not(nn(S.z(j))))), "kind-vs-switch")
        c.add_forall((d,), lambda j: self.limits_ok(S.z(j), xl[S.z(j)]), "limits-at-entry")
        c.add_forall((d,), lambda j: z3.Implies(kind(S.z(j)) == 2, w(S.z(j)) > 0), "width>0")
        self.rng = RngModel("chain.rng")
        prng = RngModel("param.rng")
        fields = {
            "samples": lambda j: SymList(N, lambda t: Sym(Sf(S.z(j), S.z(t)))),
            "sigma": lambda j: Sym(self.sig(S.z(j))),
            "proposal": lambda j: Sym(kind(S.z(j))),
            "_non_negative": lambda j: Sym(self.nn(S.z(j))),
            "lower": lambda j: Sym(lo(S.z(j))),
            "width": lambda j: Sym(w(S.z(j))),
            "upper": lambda j: Sym(lo(S.z(j)) + w(S.z(j))),
            "try_count": lambda j: Sym(self.tc(S.z(j))),
            "max_tries": lambda j: Sym(self.mt(S.z(j))),
            "rng": lambda j: prng,
        }
        self.params = SymObjList(vc.cls(GIBBS, "Parameter"), d, fields, method_fields={"proposal": PROPOSALS})
        self.probs = SymList(N, lambda t: Sym(self.Pf(S.z(t))), origin="state:probs")
        self.post = PosteriorGhost()
        self.chain = vc.obj(GIBBS, "GibbsChain", params=self.params, probs=self.probs, chain_length=N,
                            n_parameters=d, inv_temp=self.beta, posterior=self.post, rng=self.rng)

    def limits_ok(self, j, v):
        """the limits in force on parameter j hold for value v (z3 terms)"""
        kind, lo, w, nn = self.kind, self.lo, self.w, self.nn
        # boundaries in force: inside the box; non-negativity switch on: >= 0 -- BOTH when both are in force (as long as the
        # two are compatible, i.e. the box reaches above zero)
        return z3.And(z3.Implies(kind(j) == 2, z3.And(lo(j) <= v, v <= lo(j) + w(j))),
                      z3.Implies(kind(j) == 1, v >= 0),
                      z3.Implies(z3.And(kind(j) == 2, nn(j), lo(j) + w(j) > 0), v >= 0))

    def havoc_tuning(self):
        """fields that submit_accept_prob / adjust_sigma / the proposals may change"""
        c = ctx()
        s2 = z3.Function(str(c.fresh("sig_h", "Int")), z3.IntSort(), z3.RealSort())
        t2 = z3.Function(str(c.fresh("tc_h", "Int")), z3.IntSort(), z3.IntSort())
        self.params.havoc_field("sigma", lambda j: Sym(s2(S.z(j))))
        self.params.havoc_field("try_count", lambda j: Sym(t2(S.z(j))))


def tuning_only(state):
    """modular contract of Parameter.submit_accept_prob / adjust_sigma: they modify only the proposal-width
    tuning fields of their own parameter (sigma, counters, histories) -- proved separately"""
    def handler(I, func, args, kwargs):
        p = args[0]
        c = ctx()
        p.lst.update("sigma", p.k, Sym(c.fresh("sigma_adj", "Real")))
        return None
    return handler


class Sweep(LoopSpec):
    """for i, p in enumerate(self.params): the per-coordinate Metropolis-within-Gibbs sweep"""
    name = "sweep"

    def __init__(self, vc, st, roles):
        super().__init__(vc)
        self.st, self.roles = st, roles
        self.cur = st.x_last
        self.fresh_locals = {roles["p_new"]: "real"}

    def havoc(self, I, fr, k):
        c = ctx()
        self.cur = z3.Const(str(c.fresh("cur_h", "Int")) + "_a", ARR)
        pt = self.roles["point"]
        old = fr.locals[pt]
        f = z3.Function(str(c.fresh("pt_h", "Int")), z3.IntSort(), z3.RealSort())
        fr.locals[pt] = Tensor(old.shape, lambda j: Sym(f(S.z(j))))
        self.st.havoc_tuning()

    def _facts(self, pt, cur, k, j):
        """invariant clauses at coordinate j (z3 Bool); pt/cur are captured when the invariant is stated
        (closures are instantiated lazily and must not see later mutations)"""
        st = self.st
        zj = S.z(j)
        return z3.And(
            S.z(pt.at(j)) == cur[zj],
            z3.Implies(zj >= S.z(k), cur[zj] == st.Sf(zj, S.z(st.N) - 1)),
            st.limits_ok(zj, cur[zj]),
        )

    def _scalars(self, fr, k):
        st = self.st
        p_old = S.z(fr.locals[self.roles["p_old"]])
        out = [p_old == st.beta.e * F(self.cur)]
        pn = fr.locals.get(self.roles["p_new"])
        if pn is not None:
            out.append(z3.Implies(S.z(k) >= 1, S.z(pn) == p_old))
        return z3.And(*out)

    def assume_inv(self, I, fr, k):
        c = ctx()
        c.assume(self._scalars(fr, k))
        pt, cur = fr.locals[self.roles["point"]].frozen(), self.cur
        c.add_forall((self.st.d,), lambda j: self._facts(pt, cur, k, j), "sweep-inv")

    def oblige_inv(self, what, I, fr, k):
        self.vc.ensures(f"{self.name}.{what}.values", Sym(self._scalars(fr, k)))
        pt, cur = fr.locals[self.roles["point"]].frozen(), self.cur
        self.vc.ensures_forall(f"{self.name}.{what}.point", self.st.d, lambda j: Sym(self._facts(pt, cur, k, j)))


class Retry(LoopSpec):
    """while True: propose / evaluate / accept-or-retry for coordinate i"""
    name = "retry"

    def __init__(self, vc, st, roles, sweep):
        super().__init__(vc)
        self.st, self.roles, self.sweep = st, roles, sweep

    def setup(self, I, fr):
        self.i = fr.locals[self.roles["index"]]

    def havoc(self, I, fr, k):
        c = ctx()
        pt = self.roles["point"]
        old = fr.locals[pt]
        f = z3.Function(str(c.fresh("ptr_h", "Int")), z3.IntSort(), z3.RealSort())
        fr.locals[pt] = Tensor(old.shape, lambda j: Sym(f(S.z(j))))
        self.st.havoc_tuning()
        self.mark = len(c.trace)

    def _others(self, pt, cur, j):
        zj = S.z(j)
        return z3.Implies(zj != S.z(self.i), S.z(pt.at(j)) == cur[zj])

    def assume_inv(self, I, fr, k):
        pt, cur = fr.locals[self.roles["point"]].frozen(), self.sweep.cur
        ctx().add_forall((self.st.d,), lambda j: self._others(pt, cur, j), "retry-inv")

    def oblige_inv(self, what, I, fr, k):
        pt, cur = fr.locals[self.roles["point"]].frozen(), self.sweep.cur
        self.vc.ensures_forall(f"{self.name}.{what}", self.st.d, lambda j: Sym(self._others(pt, cur, j)))

    # ---- the decision edges ------------------------------------------------------------------------------
    def _pass_events(self):
        tr = ctx().trace[self.mark:]
        calls = [e for e in tr if e[0] == "posterior"]
        us = [e for e in tr if e[0] == "draw" and e[1] == "uniform01"]
        xs = [e for e in tr if e[0] == "draw" and e[1] == "normal"]
        return calls, us, xs

    def _common(self, fr, edge):
        vc, st = self.vc, self.st
        calls, us, xs = self._pass_events()
        vc.ensures(f"C01/{edge}.one_evaluation_per_decision", len(calls) == 1 and len(xs) == 1)
        if len(calls) != 1 or len(xs) != 1:
            return None
        _, arr, snap, val = calls[0]
        p_new = S.z(fr.locals[self.roles["p_new"]])
        p_old = S.z(fr.locals[self.roles["p_old"]])
        cur = self.sweep.cur
        zi = S.z(self.i)
        xi = xs[0][2]
        # the value compared against is beta*F(current point); the candidate value is beta*F(y) for the
        # very point y that was proposed
        vc.ensures(f"C01/{edge}.old_value", Sym(p_old == st.beta.e * F(cur)))
        vc.ensures(f"C01/{edge}.new_value", Sym(p_new == st.beta.e * val))
        # y differs from the current point in coordinate i only, and y_i = g(cur_i + sigma*xi) with g the
        # identity / |.| / the fold -- each invariant under xi -> -xi composed with the reflection, i.e. a
        # symmetric proposal
        vc.ensures_forall(f"C01/{edge}.proposal_only_moves_coordinate_i", st.d,
                          lambda j: Sym(z3.Implies(S.z(j) != zi, S.z(snap.at(j)) == cur[S.z(j)])))
        # every point handed to the user's posterior respects the limits in force
        vc.ensures_forall(f"C04/{edge}.evaluation_inside_limits", st.d,
                          lambda j: Sym(st.limits_ok(S.z(j), S.z(snap.at(j)))))
        return calls[0], us, xs[0], p_new, p_old

    def on_break(self, I, fr, k):
        vc, st = self.vc, self.st
        r = self._common(fr, "accept")
        if r is None:
            return
        call, us, xdraw, p_new, p_old = r
        expo = S.uf("exp", p_new - p_old)
        if us:
            rule = z3.Or(p_new > p_old, S.z(us[0][2]) < expo)
        else:
            rule = p_new > p_old
        vc.ensures("C01/accept.metropolis_rule", Sym(rule))
        _, arr, snap, val = call
        pt = fr.locals[self.roles["point"]]
        # the point kept is the point evaluated
        vc.ensures_forall("C03/accept.kept_point_is_evaluated_point", st.d,
                          lambda j: Sym(S.z(pt.at(j)) == S.z(snap.at(j))))
        self.sweep.cur = arr

    def on_iteration_end(self, I, fr, k):
        r = self._common(fr, "reject")
        if r is None:
            return
        call, us, xdraw, p_new, p_old = r
        expo = S.uf("exp", p_new - p_old)
        ok = len(us) == 1
        self.vc.ensures("C01/reject.metropolis_rule",
                        Sym(z3.And(z3.Not(p_new > p_old), z3.Not(S.z(us[0][2]) < expo))) if ok else False)


class AddSamples(LoopSpec):
    """for v, p in zip(point, self.params): p.add_sample(v)"""
    name = "store"

    def __init__(self, vc, st, roles, sweep):
        super().__init__(vc)
        self.st, self.roles, self.sweep = st, roles, sweep

    def setup(self, I, fr):
        self.pt = fr.locals[self.roles["point"]].copy()

    def havoc(self, I, fr, k):
        c = ctx()
        self.L2 = z3.Function(str(c.fresh("slen_h", "Int")), z3.IntSort(), z3.IntSort())
        self.S2 = z3.Function(str(c.fresh("S_h", "Int")), z3.IntSort(), z3.IntSort(), z3.RealSort())
        L2, S2 = self.L2, self.S2
        self.st.params.havoc_field("samples", lambda j: SymList(Sym(L2(S.z(j))), lambda t: Sym(S2(S.z(j), S.z(t)))))
        t2 = z3.Function(str(c.fresh("tc_s", "Int")), z3.IntSort(), z3.IntSort())
        self.st.params.havoc_field("try_count", lambda j: Sym(t2(S.z(j))))

    def _fact(self, samples, k, j):
        st = self.st
        lst = samples(j)
        zj, zk, zN = S.z(j), S.z(k), S.z(st.N)
        ln = S.z(lst.length())
        return z3.If(zj < zk,
                     z3.And(ln == zN + 1, S.z(lst.at(st.N)) == S.z(self.pt.at(j))),
                     ln == zN)

    def _hist(self, samples, j, t):
        st = self.st
        lst = samples(j)
        return S.z(lst.at(t)) == st.Sf(S.z(j), S.z(t))

    def assume_inv(self, I, fr, k):
        c = ctx()
        samples = self.st.params.fields["samples"]      # captured now: later appends must not be seen
        c.add_forall((self.st.d,), lambda j: self._fact(samples, k, j), "store-inv")
        c.add_forall((self.st.d, self.st.N), lambda j, t: self._hist(samples, j, t), "store-history")

    def oblige_inv(self, what, I, fr, k):
        samples = self.st.params.fields["samples"]
        self.vc.ensures_forall(f"{self.name}.{what}", self.st.d, lambda j: Sym(self._fact(samples, k, j)))
        self.vc.ensures_forall(f"{self.name}.{what}.history", (self.st.d, self.st.N),
                               lambda j, t: Sym(self._hist(samples, j, t)))


def gibbs_take_step(vc):
    st = GibbsState(vc)
    func = vc.I.get_function(GIBBS, "GibbsChain.take_step")
    roles = resolve_roles(func)
    for q in ("Parameter.submit_accept_prob", "Parameter.adjust_sigma"):
        vc.modular(q, tuning_only(st))
    sweep = Sweep(vc, st, roles)
    vc.loop("GibbsChain.take_step", "for#0", sweep)
    vc.loop("GibbsChain.take_step", "while#0", Retry(vc, st, roles, sweep))
    store = AddSamples(vc, st, roles, sweep)
    vc.loop("GibbsChain.take_step", "for#1", store)
    vc.call(st.chain, "take_step")

    # ---- postconditions of one step ------------------------------------------------------------------------
    N, d = st.N, st.d
    probs = vc.attr(st.chain, "probs")
    vc.ensures("C15/plus_one.probs", probs.length() == N + 1)
    vc.ensures("C15/plus_one.chain_length", vc.attr(st.chain, "chain_length") == N + 1)
    vc.ensures_forall("C15/plus_one.samples", d, lambda j: st.params.fields["samples"](j).length() == N + 1)
    cur = sweep.cur
    vc.ensures("C03/stored_logprob_is_beta_F_of_stored_point", Sym(S.z(probs.at(N)) == st.beta.e * F(cur)))
    vc.ensures_forall("C03/stored_point", d,
                      lambda j: Sym(S.z(st.params.fields["samples"](j).at(N)) == cur[S.z(j)]))
    vc.ensures_forall("C03/history_unchanged.samples", (d, N),
                      lambda j, t: Sym(S.z(st.params.fields["samples"](j).at(t)) == st.Sf(S.z(j), S.z(t))))
    vc.ensures_forall("C03/history_unchanged.probs", N, lambda t: Sym(S.z(probs.at(t)) == st.Pf(S.z(t))))
    vc.ensures_forall("C04/stored_sample_inside_limits", d,
                      lambda j: Sym(st.limits_ok(S.z(j), S.z(st.params.fields["samples"](j).at(N)))))
